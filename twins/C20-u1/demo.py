#!/venv/bin/python
"""Differential demo for property C20 (module imports are transparent).

Builds a pool of schemas, splits every schema in many ways into a tree of
module files (depth <= 3, dotted paths resolved relative to the importing
file), parses both forms and compares structs / enums / impls (bindings) /
services / devices.  Then injects errors into modules and checks that the
error names the module (or the missing file) with the exact pinned text.

Run with PYTHONPATH pointing at the worktree under test.  Prints PASS, exit 0.
"""
import itertools
import pprint
import os
import pathlib
import random
import re
import sys
import tempfile

from fcp.parser import get_fcp, get_fcp_from_string
from fcp.error import Logger
from fcp.verifier import make_general_verifier

CHECKS = 0


def check(cond, msg):
    global CHECKS
    CHECKS += 1
    if not cond:
        print("FAIL:", msg)
        sys.exit(1)


# --------------------------------------------------------------------------
# schema pool: every declaration is (kind, name, type-dependencies, text)
# --------------------------------------------------------------------------
def D(kind, name, deps, text):
    return {"kind": kind, "name": name, "deps": set(deps), "text": text.strip() + "\n"}


SCHEMA_A = [
    D("enum", "Color", [], "enum Color { Red = 0, Green = 1, Blue = 2, }"),
    D("struct", "Inner", [], 'struct Inner { a @0: u8, b @1: i16 | range(-5.5, 5.25) | unit("V"), }'),
    D("struct", "Mid", ["Inner", "Color"], "struct Mid { inner @0: Inner, c @1: Color, arr @2: [Inner, 3], }"),
    D("struct", "Outer", ["Mid"], "struct Outer {\n  mid @0: Mid,\n  opt @1: Optional[u32],\n  dyn @2: [Mid],\n  s @3: str,\n  f @4: f32,\n  d @5: f64,\n}"),
    D("impl", "Outer", [], "impl can for Outer {\n  id: 10,\n  device: ecu,\n  signal mid { mux_count: 2, },\n}"),
    D("impl", "InnerAlias", [], "impl can for Inner as InnerAlias { id: 11, }"),
    D("service", "Svc", [], "service Svc @1 { method Get(Inner) @0 returns Outer, method Set(Outer) @1 returns Inner, }"),
    D("device", "ecu", [], "device ecu { services: [Svc], }"),
]

SCHEMA_B = [
    D("struct", "A", [], "struct A { field1 @0: u8, }"),
    D("struct", "B", ["A"], "struct B { a @0: A, many @1: [[A, 2]], maybe @2: Optional[A], }"),
    D("enum", "E", [], "enum E { X = 0, Y = 7, }"),
    D("struct", "C", ["B", "E"], "struct C { b @0: B, e @1: [E, 4], o @2: Optional[[E]], }"),
    D("struct", "Z", [], "struct Z { v @0: u64, w @1: i7, }"),
    D("impl", "A", [], "impl protocol1 for A {\n  id: 2,\n  signal field1 { bitstart: 0, bitlength: 8, },\n}"),
    D("device", "d0", [], 'device d0 { id: 1, name: "x", }'),
    D("device", "d1", [], "device d1 { id: 2, tags: [a, 1, \"s\"], }"),
]

SCHEMA_C = [  # no type dependencies at all: every subset is admissible
    D("enum", "Empty", [], "enum Empty { Only = 0, }"),
    D("struct", "S1", [], "struct S1 { x @0: u1, }"),
    D("struct", "S2", [], "struct S2 { x @0: f64, y @1: str, }"),
    D("service", "Q", [], "service Q @9 { method M(S1) @3 returns S2, }"),
]

SCHEMAS = {"A": SCHEMA_A, "B": SCHEMA_B, "C": SCHEMA_C}
PREAMBLE = 'version: "3"\n\n'


# --------------------------------------------------------------------------
# splitting
# --------------------------------------------------------------------------
def closed(subset, decls):
    """Subset (indices) is closed under type dependencies (module namespaces are private)."""
    names = {decls[i]["name"] for i in subset if decls[i]["kind"] in ("struct", "enum")}
    for i in subset:
        if not decls[i]["deps"] <= names:
            return False
    return True


class Node:
    """A file: ordered items, each either a declaration or ('mod', dotted, Node)."""

    def __init__(self):
        self.items = []

    def flat(self):
        for it in self.items:
            if isinstance(it, tuple):
                yield from it[2].flat()
            else:
                yield it

    def write(self, path: pathlib.Path, files=None):
        path.parent.mkdir(parents=True, exist_ok=True)
        out = [PREAMBLE]
        for it in self.items:
            if isinstance(it, tuple):
                _, dotted, child = it
                out.append(f"mod {dotted};\n")
                child.write(path.parent / (dotted.replace(".", "/") + ".fcp"), files)
            else:
                out.append(it["text"])
        path.write_text("\n".join(out))
        if files is not None:
            files.append(path)


_counter = itertools.count()


def fresh_path(rng):
    parts = [f"m{next(_counter)}" + rng.choice(["", "_x", "Mod"]) for _ in range(rng.randint(1, 3))]
    return ".".join(parts)


def build(decls, rng, depth):
    """Randomly split `decls` (list, single-file order) into a module tree."""
    node = Node()
    remaining = list(range(len(decls)))
    if depth < 3 and decls and rng.random() < 0.85:
        # pick a random dependency-closed subset to move out
        for _ in range(20):
            k = rng.randint(1, len(decls))
            subset = sorted(rng.sample(range(len(decls)), k))
            if closed(subset, decls):
                break
        else:
            subset = []
        if subset:
            child = build([decls[i] for i in subset], rng, depth + 1)
            moved = {decls[i]["name"] for i in subset if decls[i]["kind"] in ("struct", "enum")}
            rest = [i for i in remaining if i not in subset]
            # point of first need
            first = next((p for p, i in enumerate(rest) if decls[i]["deps"] & moved), None)
            if first is None:
                first = rng.randint(0, len(rest))
            items = [decls[i] for i in rest]
            items.insert(first, ("mod", fresh_path(rng), child))
            # maybe split the remainder of the parent again (sibling modules)
            node.items = items
            if depth < 3 and rng.random() < 0.5:
                node = split_again(node, rng, depth)
            return node
    node.items = [decls[i] for i in remaining]
    return node


def split_again(node, rng, depth):
    """Move a closed subset of the plain declarations of `node` into a sibling module."""
    plain = [it for it in node.items if not isinstance(it, tuple)]
    if not plain:
        return node
    for _ in range(20):
        k = rng.randint(1, len(plain))
        subset = sorted(rng.sample(range(len(plain)), k))
        if closed(subset, plain):
            break
    else:
        return node
    chosen = [plain[i] for i in subset]
    # a declaration of the parent that stays must not need a type that only
    # became visible through an earlier `mod` *and* be moved: closed() on the
    # plain list already guarantees chosen only depends on chosen.
    moved = {d["name"] for d in chosen if d["kind"] in ("struct", "enum")}
    child = build(chosen, rng, depth + 1)
    new_items = [it for it in node.items if isinstance(it, tuple) or it not in chosen]
    first = next(
        (p for p, it in enumerate(new_items) if not isinstance(it, tuple) and it["deps"] & moved),
        None,
    )
    if first is None:
        first = rng.randint(0, len(new_items))
    new_items.insert(first, ("mod", fresh_path(rng), child))
    out = Node()
    out.items = new_items
    return out


# --------------------------------------------------------------------------
# comparison helpers
# --------------------------------------------------------------------------
CATS = ["structs", "enums", "impls", "services", "devices"]


def key_of(cat, d):
    if cat == "impls":
        return (d["name"], d["protocol"], d["type"])
    return (d["name"],)


def canon(fcp):
    d = fcp.to_dict()
    return {c: sorted(d[c], key=lambda x: key_of(c, x)) for c in CATS}


def parse_ok(path):
    r = get_fcp(path, Logger({}, enable_file_paths=False))
    check(r.is_ok(), f"{path} should parse: {r}")
    return r.unwrap()


def expected_order(node):
    """Names per category in the order merge() is specified to produce."""
    order = {c: [] for c in CATS}
    for d in node.flat():
        if d["kind"] == "struct":
            order["structs"].append(d["name"])
            order["impls"].append((d["name"], "default"))
        elif d["kind"] == "enum":
            order["enums"].append(d["name"])
        elif d["kind"] == "impl":
            order["impls"].append((d["name"], None))
        elif d["kind"] == "service":
            order["services"].append(d["name"])
        elif d["kind"] == "device":
            order["devices"].append(d["name"])
    return order


def run_split_checks(tmp):
    rng = random.Random(20)
    verifier = make_general_verifier()
    n_split = 0
    for sname, decls in SCHEMAS.items():
        single = Node()
        single.items = list(decls)
        sdir = tmp / f"single_{sname}"
        single.write(sdir / "main.fcp")
        ref = parse_ok(sdir / "main.fcp")
        ref_c = canon(ref)
        ref_verify = verifier.verify(ref).is_ok()
        for trial in range(60):
            tree = build(decls, rng, 0)
            tdir = tmp / f"split_{sname}_{trial}"
            files = []
            tree.write(tdir / "main.fcp", files)
            got = parse_ok(tdir / "main.fcp")
            n_split += len(files) > 1
            check(canon(got) == ref_c, f"split {tdir} differs from single-file schema")
            gd = got.to_dict()
            exp = expected_order(tree)
            check([s["name"] for s in gd["structs"]] == exp["structs"], f"struct order {tdir}")
            check([s["name"] for s in gd["enums"]] == exp["enums"], f"enum order {tdir}")
            check([s["name"] for s in gd["services"]] == exp["services"], f"service order {tdir}")
            check([s["name"] for s in gd["devices"]] == exp["devices"], f"device order {tdir}")
            check(
                [(i["name"], i["protocol"] if i["protocol"] == "default" else None) for i in gd["impls"]]
                == exp["impls"],
                f"impl order {tdir}",
            )
            check(sorted(got.get_protocols()) == sorted(ref.get_protocols()), "protocols")
            for cat in ["struct", "enum", "impl", "service", "device", "type", "field", "signal_block"]:
                check(len(got.get(cat).unwrap()) == len(ref.get(cat).unwrap()), f"get({cat}) size {tdir}")
            check(got.get("nonsense").is_nothing() and got.get("").is_nothing(), "get(unknown)")
            check(verifier.verify(got).is_ok() == ref_verify, f"verifier verdict {tdir}")
            # every node's metadata names the file it was declared in
            where = {}
            for f in files:
                for m in re.finditer(r"^(struct|enum|service|device) (\w+)", f.read_text(), re.M):
                    where[(m.group(1), m.group(2))] = f.name
            for cat, kind in [("structs", "struct"), ("enums", "enum"), ("services", "service"), ("devices", "device")]:
                for n in getattr(got, cat):
                    check(pathlib.Path(n.meta.filename).name == where[(kind, n.name)], f"meta filename of {n.name}")
            # parsing twice gives the same answer (no state leaks between runs)
            if trial % 10 == 0:
                check(canon(parse_ok(tdir / "main.fcp")) == ref_c, "second parse")
    check(n_split > 100, f"too few real splits ({n_split})")
    return n_split


# --------------------------------------------------------------------------
# hand-written tree: depth 3, dotted paths, relative resolution
# --------------------------------------------------------------------------
def run_fixed_tree(tmp):
    root = tmp / "fixed"
    (root / "lib" / "base" / "deep" / "er").mkdir(parents=True)
    (root / "main.fcp").write_text(
        PREAMBLE + "struct First { q @0: u3, }\nmod lib.types;\nstruct Top { m @0: Mid, k @1: Leaf, }\n"
        "impl can for Top { id: 1, }\nmod extra;\n"
    )
    (root / "lib" / "types.fcp").write_text(
        PREAMBLE + "mod base.core;\nstruct Mid { l @0: Leaf, c @1: Kind, }\n"
    )
    (root / "lib" / "base" / "core.fcp").write_text(
        PREAMBLE + "enum Kind { K0 = 0, K1 = 1, }\nmod deep.er.leaf;\n"
    )
    (root / "lib" / "base" / "deep" / "er" / "leaf.fcp").write_text(
        PREAMBLE + "struct Leaf { v @0: u8, }\n"
    )
    (root / "extra.fcp").write_text(PREAMBLE + "device dev { id: 3, }\nservice S @0 { method M(Top) @0 returns Leaf, }\n")
    (root / "flat.fcp").write_text(
        PREAMBLE + "struct First { q @0: u3, }\nenum Kind { K0 = 0, K1 = 1, }\nstruct Leaf { v @0: u8, }\n"
        "struct Mid { l @0: Leaf, c @1: Kind, }\nstruct Top { m @0: Mid, k @1: Leaf, }\n"
        "impl can for Top { id: 1, }\ndevice dev { id: 3, }\nservice S @0 { method M(Top) @0 returns Leaf, }\n"
    )
    a = parse_ok(root / "main.fcp")
    b = parse_ok(root / "flat.fcp")
    check(canon(a) == canon(b), "fixed tree equals flat schema")
    check([s.name for s in a.structs] == ["First", "Leaf", "Mid", "Top"], f"fixed order {[s.name for s in a.structs]}")
    check([i.name for i in a.impls] == ["First", "Leaf", "Mid", "Top", "Top"], "fixed impl order")
    # relative paths: works from another cwd and through a relative filename
    old = os.getcwd()
    try:
        os.chdir(root / "lib")
        c = parse_ok(pathlib.Path("../main.fcp"))
        check(canon(c) == canon(b), "relative filename")
        # get_fcp_from_string: module is looked up relative to cwd; the in-memory
        # proxy does not know the file -> pinned error naming main.fcp
        r = get_fcp_from_string(PREAMBLE + "mod types;\n", Logger({}, enable_file_paths=False))
        check(r.is_err(), "from_string mod")
        check(repr(r.err()).startswith("Invalid definition in main.fcp: PosixPath("), repr(r.err()))
        check("types.fcp" in repr(r.err()), repr(r.err()))
        r = get_fcp_from_string(PREAMBLE + "mod nothere;\n", Logger({}, enable_file_paths=False))
        check(repr(r.err()) == "File not found: nothere.fcp\nFailed to parse main.fcp", repr(r.err()))
    finally:
        os.chdir(old)
    # the same module imported twice is merged twice (duplicates kept; verifier rejects)
    (root / "twice.fcp").write_text(PREAMBLE + "mod extra;\nmod extra;\n")
    t = parse_ok(root / "twice.fcp")
    check([d.name for d in t.devices] == ["dev", "dev"], "double import")
    # a type of the importer is NOT visible inside the module (private namespace)
    (root / "needs.fcp").write_text(PREAMBLE + "struct N { f @0: First, }\n")
    (root / "vis.fcp").write_text(PREAMBLE + "struct First { q @0: u3, }\nmod needs;\n")
    r = get_fcp(root / "vis.fcp", Logger({}, enable_file_paths=False))
    check(r.is_err() and "Type 'First' cannot be found." in repr(r.err()), "module namespace is private")
    # struct shadows enum of the same name when resolving composed types
    (root / "shadow.fcp").write_text(
        PREAMBLE + "mod sh_e;\nstruct Dup { a @0: u8, }\nstruct User { d @0: Dup, }\n"
    )
    (root / "sh_e.fcp").write_text(PREAMBLE + "enum Dup { A = 0, }\nstruct EUser { d @0: Dup, }\n")
    s = parse_ok(root / "shadow.fcp").to_dict()
    by = {x["name"]: x for x in s["structs"]}
    check(by["User"]["fields"][0]["type"]["type"] == "Struct", str(by["User"]))
    check(by["EUser"]["fields"][0]["type"]["type"] == "Enum", str(by["EUser"]))


# --------------------------------------------------------------------------
# error injection
# --------------------------------------------------------------------------
def norm(s, tmp):
    return s.replace(str(tmp.resolve()), "<TMP>").replace(str(tmp), "<TMP>")


BAD = {
    "chars": ("struct X { a @0 u8, }\n", None),
    "eof": ("struct X { a @0: u8,\n", None),
    "unknown_type": ("struct X { a @0: Nope, }\n", None),
    "unknown_in_array": ("struct X { a @0: [Nope, 3], }\n", None),
    "unknown_in_optional": ("struct X { a @0: Optional[[Nope]], }\n", None),
    "version": (None, 'version: "2"\nstruct X { a @0: u8, }\n'),
    "no_version": (None, "struct X { a @0: u8, }\n"),
    "bad_param": ("struct X { a @0: u8 | foo(1), }\n", None),
    "short_range": ("struct X { a @0: u8 | range(1), }\n", None),
    "missing": ("mod not_there.at_all;\n", None),
    "empty": (None, ""),
}

EXPECTED = None  # filled from pinned table below


def make_chain(root, depth, bad_body, bad_full):
    """main -> a.l1 -> b.l2 -> c.l3 ; the bad content lives at `depth` (1..3)."""
    names = [("main", None), ("a.l1", "a/l1.fcp"), ("b.l2", "a/b/l2.fcp"), ("c.l3", "a/b/c/l3.fcp")]
    (root / "a" / "b" / "c").mkdir(parents=True, exist_ok=True)
    for lvl in range(0, depth + 1):
        path = root / ("main.fcp" if lvl == 0 else names[lvl][1])
        if lvl == depth:
            text = bad_full if bad_full is not None else PREAMBLE + "struct Good%d { g @0: u8, }\n" % lvl + bad_body
        else:
            text = PREAMBLE + "struct Good%d { g @0: u8, }\n" % lvl + "mod %s;\n" % names[lvl + 1][0] + "struct After%d { g @0: Good%d, }\n" % (lvl, lvl)
        path.write_text(text)
    return root / "main.fcp", pathlib.Path(names[depth][1]).name


def run_error_checks(tmp, pinned):
    seen = {}
    for kind, (body, full) in BAD.items():
        for depth in (1, 2, 3):
            root = tmp / f"err_{kind}_{depth}"
            root.mkdir()
            main, modfile = make_chain(root, depth, body, full)
            logger = Logger({}, enable_file_paths=False)
            r = get_fcp(main, logger)
            check(r.is_err(), f"{kind}@{depth} must be an error")
            text = norm(repr(r.err()), tmp)
            rendered = norm(logger.error(r.err()), tmp)
            named = "at_all.fcp" if kind == "missing" else modfile
            node_files = [pathlib.Path(n.meta.filename).name for _, n, _ in r.err().msg if n is not None]
            check(
                named in text or named in node_files,
                f"{kind}@{depth}: error does not name {named}: {text!r} {node_files}",
            )
            seen[f"{kind}@{depth}"] = (text, rendered)
            # nodes attached to the messages
            nodes = [(m, None if n is None else (pathlib.Path(n.meta.filename).name, n.meta.line, n.meta.column)) for m, n, _ in r.err().msg]
            seen[f"{kind}@{depth}:nodes"] = norm(repr(nodes), tmp)
    # module path is a directory -> OSError surfaces as invalid definition
    root = tmp / "err_dir"
    (root / "isdir.fcp").mkdir(parents=True)
    (root / "main.fcp").write_text(PREAMBLE + "mod isdir;\n")
    r = get_fcp(root / "main.fcp", Logger({}, enable_file_paths=False))
    check(r.is_err(), "directory module")
    seen["isdir"] = norm(repr(r.err()), tmp)
    # symlinked module: message keeps the name used in the schema
    root = tmp / "err_link"
    root.mkdir()
    (root / "real_target.fcp").write_text(PREAMBLE + "struct X { a @0: u8 | foo(1), }\n")
    os.symlink(root / "real_target.fcp", root / "alias.fcp")
    (root / "main.fcp").write_text(PREAMBLE + "mod alias;\n")
    r = get_fcp(root / "main.fcp", Logger({}, enable_file_paths=False))
    seen["symlink_bad"] = norm(repr(r.err()), tmp)
    (root / "real_target.fcp").write_text(PREAMBLE + "struct X { a @0: u8, }\n")
    g = parse_ok(root / "main.fcp")
    check(pathlib.Path(g.structs[0].meta.filename).name == "real_target.fcp", "symlink resolved in meta")
    # top level missing file still raises / errors the same way
    try:
        r = get_fcp(tmp / "does_not_exist.fcp", Logger({}, enable_file_paths=False))
        seen["top_missing"] = "returned " + norm(repr(r), tmp)
    except FileNotFoundError as e:
        seen["top_missing"] = "raised FileNotFoundError " + pathlib.Path(e.filename).name
    if pinned is None:
        return seen
    for k in sorted(pinned):
        check(k in seen, f"missing observation {k}")
        check(seen[k] == pinned[k], f"{k}: observed {seen[k]!r} != pinned {pinned[k]!r}")
    check(set(seen) == set(pinned), "observation keys")
    return seen


# observations recorded on the unmodified code base (temp dir replaced by <TMP>)
PINNED = {'bad_param@1': ["Invalid definition in l1.fcp: 'foo'\nFailed to parse main.fcp",
                 "  → Error: Invalid definition in l1.fcp: 'foo'\n"
                 '  |\n'
                 '4 | mod a.l1;\n'
                 '  | ~~~~~~~~~\n'
                 '  ↳ Failed to parse main.fcp\n'],
 'bad_param@1:nodes': '[("Invalid definition in l1.fcp: \'foo\'", (\'main.fcp\', 4, 1)), (\'Failed to parse '
                      "main.fcp', None)]",
 'bad_param@2': ["Invalid definition in l2.fcp: 'foo'\n"
                 'Failed to parse l1.fcp\n'
                 'Failed to import <TMP>/err_bad_param_2/a/l1.fcp\n'
                 'Failed to parse main.fcp',
                 "  → Error: Invalid definition in l2.fcp: 'foo'\n"
                 '  |\n'
                 '4 | mod b.l2;\n'
                 '  | ~~~~~~~~~\n'
                 '  ↳ Failed to parse l1.fcp\n'
                 '  ↳ Failed to import <TMP>/err_bad_param_2/a/l1.fcp\n'
                 '  |\n'
                 '4 | mod a.l1;\n'
                 '  | ~~~~~~~~~\n'
                 '  ↳ Failed to parse main.fcp\n'],
 'bad_param@2:nodes': '[("Invalid definition in l2.fcp: \'foo\'", (\'l1.fcp\', 4, 1)), (\'Failed to parse '
                      "l1.fcp', None), ('Failed to import <TMP>/err_bad_param_2/a/l1.fcp', ('main.fcp', 4, "
                      "1)), ('Failed to parse main.fcp', None)]",
 'bad_param@3': ["Invalid definition in l3.fcp: 'foo'\n"
                 'Failed to parse l2.fcp\n'
                 'Failed to import <TMP>/err_bad_param_3/a/b/l2.fcp\n'
                 'Failed to parse l1.fcp\n'
                 'Failed to import <TMP>/err_bad_param_3/a/l1.fcp\n'
                 'Failed to parse main.fcp',
                 "  → Error: Invalid definition in l3.fcp: 'foo'\n"
                 '  |\n'
                 '4 | mod c.l3;\n'
                 '  | ~~~~~~~~~\n'
                 '  ↳ Failed to parse l2.fcp\n'
                 '  ↳ Failed to import <TMP>/err_bad_param_3/a/b/l2.fcp\n'
                 '  |\n'
                 '4 | mod b.l2;\n'
                 '  | ~~~~~~~~~\n'
                 '  ↳ Failed to parse l1.fcp\n'
                 '  ↳ Failed to import <TMP>/err_bad_param_3/a/l1.fcp\n'
                 '  |\n'
                 '4 | mod a.l1;\n'
                 '  | ~~~~~~~~~\n'
                 '  ↳ Failed to parse main.fcp\n'],
 'bad_param@3:nodes': '[("Invalid definition in l3.fcp: \'foo\'", (\'l2.fcp\', 4, 1)), (\'Failed to parse '
                      "l2.fcp', None), ('Failed to import <TMP>/err_bad_param_3/a/b/l2.fcp', ('l1.fcp', 4, "
                      "1)), ('Failed to parse l1.fcp', None), ('Failed to import "
                      "<TMP>/err_bad_param_3/a/l1.fcp', ('main.fcp', 4, 1)), ('Failed to parse main.fcp', "
                      'None)]',
 'chars@1': ["Unexpected character 'u', expected one of: ['struct_field']\nFailed to parse main.fcp",
             "  → Error: Unexpected character 'u', expected one of: ['struct_field']\n"
             '  |\n'
             '4 | struct X { a @0 u8, }\n'
             '  | ~~~~~~~~~~~~~~~~~~~~~\n'
             '  ↳ Failed to parse main.fcp\n'],
 'chars@1:nodes': '[("Unexpected character \'u\', expected one of: [\'struct_field\']", (\'l1.fcp\', 4, '
                  "17)), ('Failed to parse main.fcp', None)]",
 'chars@2': ["Unexpected character 'u', expected one of: ['struct_field']\n"
             'Failed to parse l1.fcp\n'
             'Failed to import <TMP>/err_chars_2/a/l1.fcp\n'
             'Failed to parse main.fcp',
             "  → Error: Unexpected character 'u', expected one of: ['struct_field']\n"
             '  |\n'
             '4 | struct X { a @0 u8, }\n'
             '  | ~~~~~~~~~~~~~~~~~~~~~\n'
             '  ↳ Failed to parse l1.fcp\n'
             '  ↳ Failed to import <TMP>/err_chars_2/a/l1.fcp\n'
             '  |\n'
             '4 | mod a.l1;\n'
             '  | ~~~~~~~~~\n'
             '  ↳ Failed to parse main.fcp\n'],
 'chars@2:nodes': '[("Unexpected character \'u\', expected one of: [\'struct_field\']", (\'l2.fcp\', 4, '
                  "17)), ('Failed to parse l1.fcp', None), ('Failed to import <TMP>/err_chars_2/a/l1.fcp', "
                  "('main.fcp', 4, 1)), ('Failed to parse main.fcp', None)]",
 'chars@3': ["Unexpected character 'u', expected one of: ['struct_field']\n"
             'Failed to parse l2.fcp\n'
             'Failed to import <TMP>/err_chars_3/a/b/l2.fcp\n'
             'Failed to parse l1.fcp\n'
             'Failed to import <TMP>/err_chars_3/a/l1.fcp\n'
             'Failed to parse main.fcp',
             "  → Error: Unexpected character 'u', expected one of: ['struct_field']\n"
             '  |\n'
             '4 | struct X { a @0 u8, }\n'
             '  | ~~~~~~~~~~~~~~~~~~~~~\n'
             '  ↳ Failed to parse l2.fcp\n'
             '  ↳ Failed to import <TMP>/err_chars_3/a/b/l2.fcp\n'
             '  |\n'
             '4 | mod b.l2;\n'
             '  | ~~~~~~~~~\n'
             '  ↳ Failed to parse l1.fcp\n'
             '  ↳ Failed to import <TMP>/err_chars_3/a/l1.fcp\n'
             '  |\n'
             '4 | mod a.l1;\n'
             '  | ~~~~~~~~~\n'
             '  ↳ Failed to parse main.fcp\n'],
 'chars@3:nodes': '[("Unexpected character \'u\', expected one of: [\'struct_field\']", (\'l3.fcp\', 4, '
                  "17)), ('Failed to parse l2.fcp', None), ('Failed to import <TMP>/err_chars_3/a/b/l2.fcp', "
                  "('l1.fcp', 4, 1)), ('Failed to parse l1.fcp', None), ('Failed to import "
                  "<TMP>/err_chars_3/a/l1.fcp', ('main.fcp', 4, 1)), ('Failed to parse main.fcp', None)]",
 'empty@1': ['Unexpected EOF in l1.fcp\nFailed to parse main.fcp',
             '  → Error: Unexpected EOF in l1.fcp\n'
             '  |\n'
             '4 | mod a.l1;\n'
             '  | ~~~~~~~~~\n'
             '  ↳ Failed to parse main.fcp\n'],
 'empty@1:nodes': "[('Unexpected EOF in l1.fcp', ('main.fcp', 4, 1)), ('Failed to parse main.fcp', None)]",
 'empty@2': ['Unexpected EOF in l2.fcp\n'
             'Failed to parse l1.fcp\n'
             'Failed to import <TMP>/err_empty_2/a/l1.fcp\n'
             'Failed to parse main.fcp',
             '  → Error: Unexpected EOF in l2.fcp\n'
             '  |\n'
             '4 | mod b.l2;\n'
             '  | ~~~~~~~~~\n'
             '  ↳ Failed to parse l1.fcp\n'
             '  ↳ Failed to import <TMP>/err_empty_2/a/l1.fcp\n'
             '  |\n'
             '4 | mod a.l1;\n'
             '  | ~~~~~~~~~\n'
             '  ↳ Failed to parse main.fcp\n'],
 'empty@2:nodes': "[('Unexpected EOF in l2.fcp', ('l1.fcp', 4, 1)), ('Failed to parse l1.fcp', None), "
                  "('Failed to import <TMP>/err_empty_2/a/l1.fcp', ('main.fcp', 4, 1)), ('Failed to parse "
                  "main.fcp', None)]",
 'empty@3': ['Unexpected EOF in l3.fcp\n'
             'Failed to parse l2.fcp\n'
             'Failed to import <TMP>/err_empty_3/a/b/l2.fcp\n'
             'Failed to parse l1.fcp\n'
             'Failed to import <TMP>/err_empty_3/a/l1.fcp\n'
             'Failed to parse main.fcp',
             '  → Error: Unexpected EOF in l3.fcp\n'
             '  |\n'
             '4 | mod c.l3;\n'
             '  | ~~~~~~~~~\n'
             '  ↳ Failed to parse l2.fcp\n'
             '  ↳ Failed to import <TMP>/err_empty_3/a/b/l2.fcp\n'
             '  |\n'
             '4 | mod b.l2;\n'
             '  | ~~~~~~~~~\n'
             '  ↳ Failed to parse l1.fcp\n'
             '  ↳ Failed to import <TMP>/err_empty_3/a/l1.fcp\n'
             '  |\n'
             '4 | mod a.l1;\n'
             '  | ~~~~~~~~~\n'
             '  ↳ Failed to parse main.fcp\n'],
 'empty@3:nodes': "[('Unexpected EOF in l3.fcp', ('l2.fcp', 4, 1)), ('Failed to parse l2.fcp', None), "
                  "('Failed to import <TMP>/err_empty_3/a/b/l2.fcp', ('l1.fcp', 4, 1)), ('Failed to parse "
                  "l1.fcp', None), ('Failed to import <TMP>/err_empty_3/a/l1.fcp', ('main.fcp', 4, 1)), "
                  "('Failed to parse main.fcp', None)]",
 'eof@1': ['Unexpected EOF in l1.fcp\nFailed to parse main.fcp',
           '  → Error: Unexpected EOF in l1.fcp\n'
           '  |\n'
           '4 | mod a.l1;\n'
           '  | ~~~~~~~~~\n'
           '  ↳ Failed to parse main.fcp\n'],
 'eof@1:nodes': "[('Unexpected EOF in l1.fcp', ('main.fcp', 4, 1)), ('Failed to parse main.fcp', None)]",
 'eof@2': ['Unexpected EOF in l2.fcp\n'
           'Failed to parse l1.fcp\n'
           'Failed to import <TMP>/err_eof_2/a/l1.fcp\n'
           'Failed to parse main.fcp',
           '  → Error: Unexpected EOF in l2.fcp\n'
           '  |\n'
           '4 | mod b.l2;\n'
           '  | ~~~~~~~~~\n'
           '  ↳ Failed to parse l1.fcp\n'
           '  ↳ Failed to import <TMP>/err_eof_2/a/l1.fcp\n'
           '  |\n'
           '4 | mod a.l1;\n'
           '  | ~~~~~~~~~\n'
           '  ↳ Failed to parse main.fcp\n'],
 'eof@2:nodes': "[('Unexpected EOF in l2.fcp', ('l1.fcp', 4, 1)), ('Failed to parse l1.fcp', None), ('Failed "
                "to import <TMP>/err_eof_2/a/l1.fcp', ('main.fcp', 4, 1)), ('Failed to parse main.fcp', "
                'None)]',
 'eof@3': ['Unexpected EOF in l3.fcp\n'
           'Failed to parse l2.fcp\n'
           'Failed to import <TMP>/err_eof_3/a/b/l2.fcp\n'
           'Failed to parse l1.fcp\n'
           'Failed to import <TMP>/err_eof_3/a/l1.fcp\n'
           'Failed to parse main.fcp',
           '  → Error: Unexpected EOF in l3.fcp\n'
           '  |\n'
           '4 | mod c.l3;\n'
           '  | ~~~~~~~~~\n'
           '  ↳ Failed to parse l2.fcp\n'
           '  ↳ Failed to import <TMP>/err_eof_3/a/b/l2.fcp\n'
           '  |\n'
           '4 | mod b.l2;\n'
           '  | ~~~~~~~~~\n'
           '  ↳ Failed to parse l1.fcp\n'
           '  ↳ Failed to import <TMP>/err_eof_3/a/l1.fcp\n'
           '  |\n'
           '4 | mod a.l1;\n'
           '  | ~~~~~~~~~\n'
           '  ↳ Failed to parse main.fcp\n'],
 'eof@3:nodes': "[('Unexpected EOF in l3.fcp', ('l2.fcp', 4, 1)), ('Failed to parse l2.fcp', None), ('Failed "
                "to import <TMP>/err_eof_3/a/b/l2.fcp', ('l1.fcp', 4, 1)), ('Failed to parse l1.fcp', None), "
                "('Failed to import <TMP>/err_eof_3/a/l1.fcp', ('main.fcp', 4, 1)), ('Failed to parse "
                "main.fcp', None)]",
 'isdir': "Invalid definition in main.fcp: [Errno 21] Is a directory: '<TMP>/err_dir/isdir.fcp'",
 'missing@1': ['File not found: at_all.fcp\n'
               'Failed to parse l1.fcp\n'
               'Failed to import <TMP>/err_missing_1/a/l1.fcp\n'
               'Failed to parse main.fcp',
               '  → Error: File not found: at_all.fcp\n'
               '  ↳ Failed to parse l1.fcp\n'
               '  ↳ Failed to import <TMP>/err_missing_1/a/l1.fcp\n'
               '  |\n'
               '4 | mod a.l1;\n'
               '  | ~~~~~~~~~\n'
               '  ↳ Failed to parse main.fcp\n'],
 'missing@1:nodes': "[('File not found: at_all.fcp', None), ('Failed to parse l1.fcp', None), ('Failed to "
                    "import <TMP>/err_missing_1/a/l1.fcp', ('main.fcp', 4, 1)), ('Failed to parse main.fcp', "
                    'None)]',
 'missing@2': ['File not found: at_all.fcp\n'
               'Failed to parse l2.fcp\n'
               'Failed to import <TMP>/err_missing_2/a/b/l2.fcp\n'
               'Failed to parse l1.fcp\n'
               'Failed to import <TMP>/err_missing_2/a/l1.fcp\n'
               'Failed to parse main.fcp',
               '  → Error: File not found: at_all.fcp\n'
               '  ↳ Failed to parse l2.fcp\n'
               '  ↳ Failed to import <TMP>/err_missing_2/a/b/l2.fcp\n'
               '  |\n'
               '4 | mod b.l2;\n'
               '  | ~~~~~~~~~\n'
               '  ↳ Failed to parse l1.fcp\n'
               '  ↳ Failed to import <TMP>/err_missing_2/a/l1.fcp\n'
               '  |\n'
               '4 | mod a.l1;\n'
               '  | ~~~~~~~~~\n'
               '  ↳ Failed to parse main.fcp\n'],
 'missing@2:nodes': "[('File not found: at_all.fcp', None), ('Failed to parse l2.fcp', None), ('Failed to "
                    "import <TMP>/err_missing_2/a/b/l2.fcp', ('l1.fcp', 4, 1)), ('Failed to parse l1.fcp', "
                    "None), ('Failed to import <TMP>/err_missing_2/a/l1.fcp', ('main.fcp', 4, 1)), ('Failed "
                    "to parse main.fcp', None)]",
 'missing@3': ['File not found: at_all.fcp\n'
               'Failed to parse l3.fcp\n'
               'Failed to import <TMP>/err_missing_3/a/b/c/l3.fcp\n'
               'Failed to parse l2.fcp\n'
               'Failed to import <TMP>/err_missing_3/a/b/l2.fcp\n'
               'Failed to parse l1.fcp\n'
               'Failed to import <TMP>/err_missing_3/a/l1.fcp\n'
               'Failed to parse main.fcp',
               '  → Error: File not found: at_all.fcp\n'
               '  ↳ Failed to parse l3.fcp\n'
               '  ↳ Failed to import <TMP>/err_missing_3/a/b/c/l3.fcp\n'
               '  |\n'
               '4 | mod c.l3;\n'
               '  | ~~~~~~~~~\n'
               '  ↳ Failed to parse l2.fcp\n'
               '  ↳ Failed to import <TMP>/err_missing_3/a/b/l2.fcp\n'
               '  |\n'
               '4 | mod b.l2;\n'
               '  | ~~~~~~~~~\n'
               '  ↳ Failed to parse l1.fcp\n'
               '  ↳ Failed to import <TMP>/err_missing_3/a/l1.fcp\n'
               '  |\n'
               '4 | mod a.l1;\n'
               '  | ~~~~~~~~~\n'
               '  ↳ Failed to parse main.fcp\n'],
 'missing@3:nodes': "[('File not found: at_all.fcp', None), ('Failed to parse l3.fcp', None), ('Failed to "
                    "import <TMP>/err_missing_3/a/b/c/l3.fcp', ('l2.fcp', 4, 1)), ('Failed to parse l2.fcp', "
                    "None), ('Failed to import <TMP>/err_missing_3/a/b/l2.fcp', ('l1.fcp', 4, 1)), ('Failed "
                    "to parse l1.fcp', None), ('Failed to import <TMP>/err_missing_3/a/l1.fcp', ('main.fcp', "
                    "4, 1)), ('Failed to parse main.fcp', None)]",
 'no_version@1': ["Unexpected character 's', expected one of: ['preamble']\nFailed to parse main.fcp",
                  "  → Error: Unexpected character 's', expected one of: ['preamble']\n"
                  '  |\n'
                  '1 | struct X { a @0: u8, }\n'
                  '  | ~~~~~~~~~~~~~~~~~~~~~~\n'
                  '  ↳ Failed to parse main.fcp\n'],
 'no_version@1:nodes': '[("Unexpected character \'s\', expected one of: [\'preamble\']", (\'l1.fcp\', 1, '
                       "1)), ('Failed to parse main.fcp', None)]",
 'no_version@2': ["Unexpected character 's', expected one of: ['preamble']\n"
                  'Failed to parse l1.fcp\n'
                  'Failed to import <TMP>/err_no_version_2/a/l1.fcp\n'
                  'Failed to parse main.fcp',
                  "  → Error: Unexpected character 's', expected one of: ['preamble']\n"
                  '  |\n'
                  '1 | struct X { a @0: u8, }\n'
                  '  | ~~~~~~~~~~~~~~~~~~~~~~\n'
                  '  ↳ Failed to parse l1.fcp\n'
                  '  ↳ Failed to import <TMP>/err_no_version_2/a/l1.fcp\n'
                  '  |\n'
                  '4 | mod a.l1;\n'
                  '  | ~~~~~~~~~\n'
                  '  ↳ Failed to parse main.fcp\n'],
 'no_version@2:nodes': '[("Unexpected character \'s\', expected one of: [\'preamble\']", (\'l2.fcp\', 1, '
                       "1)), ('Failed to parse l1.fcp', None), ('Failed to import "
                       "<TMP>/err_no_version_2/a/l1.fcp', ('main.fcp', 4, 1)), ('Failed to parse main.fcp', "
                       'None)]',
 'no_version@3': ["Unexpected character 's', expected one of: ['preamble']\n"
                  'Failed to parse l2.fcp\n'
                  'Failed to import <TMP>/err_no_version_3/a/b/l2.fcp\n'
                  'Failed to parse l1.fcp\n'
                  'Failed to import <TMP>/err_no_version_3/a/l1.fcp\n'
                  'Failed to parse main.fcp',
                  "  → Error: Unexpected character 's', expected one of: ['preamble']\n"
                  '  |\n'
                  '1 | struct X { a @0: u8, }\n'
                  '  | ~~~~~~~~~~~~~~~~~~~~~~\n'
                  '  ↳ Failed to parse l2.fcp\n'
                  '  ↳ Failed to import <TMP>/err_no_version_3/a/b/l2.fcp\n'
                  '  |\n'
                  '4 | mod b.l2;\n'
                  '  | ~~~~~~~~~\n'
                  '  ↳ Failed to parse l1.fcp\n'
                  '  ↳ Failed to import <TMP>/err_no_version_3/a/l1.fcp\n'
                  '  |\n'
                  '4 | mod a.l1;\n'
                  '  | ~~~~~~~~~\n'
                  '  ↳ Failed to parse main.fcp\n'],
 'no_version@3:nodes': '[("Unexpected character \'s\', expected one of: [\'preamble\']", (\'l3.fcp\', 1, '
                       "1)), ('Failed to parse l2.fcp', None), ('Failed to import "
                       "<TMP>/err_no_version_3/a/b/l2.fcp', ('l1.fcp', 4, 1)), ('Failed to parse l1.fcp', "
                       "None), ('Failed to import <TMP>/err_no_version_3/a/l1.fcp', ('main.fcp', 4, 1)), "
                       "('Failed to parse main.fcp', None)]",
 'short_range@1': ['Invalid definition in l1.fcp: list index out of range\nFailed to parse main.fcp',
                   '  → Error: Invalid definition in l1.fcp: list index out of range\n'
                   '  |\n'
                   '4 | mod a.l1;\n'
                   '  | ~~~~~~~~~\n'
                   '  ↳ Failed to parse main.fcp\n'],
 'short_range@1:nodes': "[('Invalid definition in l1.fcp: list index out of range', ('main.fcp', 4, 1)), "
                        "('Failed to parse main.fcp', None)]",
 'short_range@2': ['Invalid definition in l2.fcp: list index out of range\n'
                   'Failed to parse l1.fcp\n'
                   'Failed to import <TMP>/err_short_range_2/a/l1.fcp\n'
                   'Failed to parse main.fcp',
                   '  → Error: Invalid definition in l2.fcp: list index out of range\n'
                   '  |\n'
                   '4 | mod b.l2;\n'
                   '  | ~~~~~~~~~\n'
                   '  ↳ Failed to parse l1.fcp\n'
                   '  ↳ Failed to import <TMP>/err_short_range_2/a/l1.fcp\n'
                   '  |\n'
                   '4 | mod a.l1;\n'
                   '  | ~~~~~~~~~\n'
                   '  ↳ Failed to parse main.fcp\n'],
 'short_range@2:nodes': "[('Invalid definition in l2.fcp: list index out of range', ('l1.fcp', 4, 1)), "
                        "('Failed to parse l1.fcp', None), ('Failed to import "
                        "<TMP>/err_short_range_2/a/l1.fcp', ('main.fcp', 4, 1)), ('Failed to parse "
                        "main.fcp', None)]",
 'short_range@3': ['Invalid definition in l3.fcp: list index out of range\n'
                   'Failed to parse l2.fcp\n'
                   'Failed to import <TMP>/err_short_range_3/a/b/l2.fcp\n'
                   'Failed to parse l1.fcp\n'
                   'Failed to import <TMP>/err_short_range_3/a/l1.fcp\n'
                   'Failed to parse main.fcp',
                   '  → Error: Invalid definition in l3.fcp: list index out of range\n'
                   '  |\n'
                   '4 | mod c.l3;\n'
                   '  | ~~~~~~~~~\n'
                   '  ↳ Failed to parse l2.fcp\n'
                   '  ↳ Failed to import <TMP>/err_short_range_3/a/b/l2.fcp\n'
                   '  |\n'
                   '4 | mod b.l2;\n'
                   '  | ~~~~~~~~~\n'
                   '  ↳ Failed to parse l1.fcp\n'
                   '  ↳ Failed to import <TMP>/err_short_range_3/a/l1.fcp\n'
                   '  |\n'
                   '4 | mod a.l1;\n'
                   '  | ~~~~~~~~~\n'
                   '  ↳ Failed to parse main.fcp\n'],
 'short_range@3:nodes': "[('Invalid definition in l3.fcp: list index out of range', ('l2.fcp', 4, 1)), "
                        "('Failed to parse l2.fcp', None), ('Failed to import "
                        "<TMP>/err_short_range_3/a/b/l2.fcp', ('l1.fcp', 4, 1)), ('Failed to parse l1.fcp', "
                        "None), ('Failed to import <TMP>/err_short_range_3/a/l1.fcp', ('main.fcp', 4, 1)), "
                        "('Failed to parse main.fcp', None)]",
 'symlink_bad': "Invalid definition in alias.fcp: 'foo'\nFailed to parse main.fcp",
 'top_missing': 'raised FileNotFoundError does_not_exist.fcp',
 'unknown_in_array@1': ["Type 'Nope' cannot be found.\n"
                        'Error parsing array type\n'
                        'Error parsing type in struct field\n'
                        'Failed to parse field in struct X\n'
                        'Failed to parse l1.fcp\n'
                        'Failed to import <TMP>/err_unknown_in_array_1/a/l1.fcp\n'
                        'Failed to parse main.fcp',
                        "  → Error: Type 'Nope' cannot be found.\n"
                        '  |\n'
                        '4 | struct X { a @0: [Nope, 3], }\n'
                        '  | ~~~~~~~~~~~~~~~~~~~~~~~~~~~~~\n'
                        '  ↳ Error parsing array type\n'
                        '  ↳ Error parsing type in struct field\n'
                        '  ↳ Failed to parse field in struct X\n'
                        '  ↳ Failed to parse l1.fcp\n'
                        '  ↳ Failed to import <TMP>/err_unknown_in_array_1/a/l1.fcp\n'
                        '  |\n'
                        '4 | mod a.l1;\n'
                        '  | ~~~~~~~~~\n'
                        '  ↳ Failed to parse main.fcp\n'],
 'unknown_in_array@1:nodes': '[("Type \'Nope\' cannot be found.", (\'l1.fcp\', 4, 19)), (\'Error parsing '
                             "array type', None), ('Error parsing type in struct field', None), ('Failed to "
                             "parse field in struct X', None), ('Failed to parse l1.fcp', None), ('Failed to "
                             "import <TMP>/err_unknown_in_array_1/a/l1.fcp', ('main.fcp', 4, 1)), ('Failed "
                             "to parse main.fcp', None)]",
 'unknown_in_array@2': ["Type 'Nope' cannot be found.\n"
                        'Error parsing array type\n'
                        'Error parsing type in struct field\n'
                        'Failed to parse field in struct X\n'
                        'Failed to parse l2.fcp\n'
                        'Failed to import <TMP>/err_unknown_in_array_2/a/b/l2.fcp\n'
                        'Failed to parse l1.fcp\n'
                        'Failed to import <TMP>/err_unknown_in_array_2/a/l1.fcp\n'
                        'Failed to parse main.fcp',
                        "  → Error: Type 'Nope' cannot be found.\n"
                        '  |\n'
                        '4 | struct X { a @0: [Nope, 3], }\n'
                        '  | ~~~~~~~~~~~~~~~~~~~~~~~~~~~~~\n'
                        '  ↳ Error parsing array type\n'
                        '  ↳ Error parsing type in struct field\n'
                        '  ↳ Failed to parse field in struct X\n'
                        '  ↳ Failed to parse l2.fcp\n'
                        '  ↳ Failed to import <TMP>/err_unknown_in_array_2/a/b/l2.fcp\n'
                        '  |\n'
                        '4 | mod b.l2;\n'
                        '  | ~~~~~~~~~\n'
                        '  ↳ Failed to parse l1.fcp\n'
                        '  ↳ Failed to import <TMP>/err_unknown_in_array_2/a/l1.fcp\n'
                        '  |\n'
                        '4 | mod a.l1;\n'
                        '  | ~~~~~~~~~\n'
                        '  ↳ Failed to parse main.fcp\n'],
 'unknown_in_array@2:nodes': '[("Type \'Nope\' cannot be found.", (\'l2.fcp\', 4, 19)), (\'Error parsing '
                             "array type', None), ('Error parsing type in struct field', None), ('Failed to "
                             "parse field in struct X', None), ('Failed to parse l2.fcp', None), ('Failed to "
                             "import <TMP>/err_unknown_in_array_2/a/b/l2.fcp', ('l1.fcp', 4, 1)), ('Failed "
                             "to parse l1.fcp', None), ('Failed to import "
                             "<TMP>/err_unknown_in_array_2/a/l1.fcp', ('main.fcp', 4, 1)), ('Failed to parse "
                             "main.fcp', None)]",
 'unknown_in_array@3': ["Type 'Nope' cannot be found.\n"
                        'Error parsing array type\n'
                        'Error parsing type in struct field\n'
                        'Failed to parse field in struct X\n'
                        'Failed to parse l3.fcp\n'
                        'Failed to import <TMP>/err_unknown_in_array_3/a/b/c/l3.fcp\n'
                        'Failed to parse l2.fcp\n'
                        'Failed to import <TMP>/err_unknown_in_array_3/a/b/l2.fcp\n'
                        'Failed to parse l1.fcp\n'
                        'Failed to import <TMP>/err_unknown_in_array_3/a/l1.fcp\n'
                        'Failed to parse main.fcp',
                        "  → Error: Type 'Nope' cannot be found.\n"
                        '  |\n'
                        '4 | struct X { a @0: [Nope, 3], }\n'
                        '  | ~~~~~~~~~~~~~~~~~~~~~~~~~~~~~\n'
                        '  ↳ Error parsing array type\n'
                        '  ↳ Error parsing type in struct field\n'
                        '  ↳ Failed to parse field in struct X\n'
                        '  ↳ Failed to parse l3.fcp\n'
                        '  ↳ Failed to import <TMP>/err_unknown_in_array_3/a/b/c/l3.fcp\n'
                        '  |\n'
                        '4 | mod c.l3;\n'
                        '  | ~~~~~~~~~\n'
                        '  ↳ Failed to parse l2.fcp\n'
                        '  ↳ Failed to import <TMP>/err_unknown_in_array_3/a/b/l2.fcp\n'
                        '  |\n'
                        '4 | mod b.l2;\n'
                        '  | ~~~~~~~~~\n'
                        '  ↳ Failed to parse l1.fcp\n'
                        '  ↳ Failed to import <TMP>/err_unknown_in_array_3/a/l1.fcp\n'
                        '  |\n'
                        '4 | mod a.l1;\n'
                        '  | ~~~~~~~~~\n'
                        '  ↳ Failed to parse main.fcp\n'],
 'unknown_in_array@3:nodes': '[("Type \'Nope\' cannot be found.", (\'l3.fcp\', 4, 19)), (\'Error parsing '
                             "array type', None), ('Error parsing type in struct field', None), ('Failed to "
                             "parse field in struct X', None), ('Failed to parse l3.fcp', None), ('Failed to "
                             "import <TMP>/err_unknown_in_array_3/a/b/c/l3.fcp', ('l2.fcp', 4, 1)), ('Failed "
                             "to parse l2.fcp', None), ('Failed to import "
                             "<TMP>/err_unknown_in_array_3/a/b/l2.fcp', ('l1.fcp', 4, 1)), ('Failed to parse "
                             "l1.fcp', None), ('Failed to import <TMP>/err_unknown_in_array_3/a/l1.fcp', "
                             "('main.fcp', 4, 1)), ('Failed to parse main.fcp', None)]",
 'unknown_in_optional@1': ["Type 'Nope' cannot be found.\n"
                           'Error parsing dynamic array type\n'
                           'Error parsing optional type\n'
                           'Error parsing type in struct field\n'
                           'Failed to parse field in struct X\n'
                           'Failed to parse l1.fcp\n'
                           'Failed to import <TMP>/err_unknown_in_optional_1/a/l1.fcp\n'
                           'Failed to parse main.fcp',
                           "  → Error: Type 'Nope' cannot be found.\n"
                           '  |\n'
                           '4 | struct X { a @0: Optional[[Nope]], }\n'
                           '  | ~~~~~~~~~~~~~~~~~~~~~~~~~~~~~~~~~~~~\n'
                           '  ↳ Error parsing dynamic array type\n'
                           '  ↳ Error parsing optional type\n'
                           '  ↳ Error parsing type in struct field\n'
                           '  ↳ Failed to parse field in struct X\n'
                           '  ↳ Failed to parse l1.fcp\n'
                           '  ↳ Failed to import <TMP>/err_unknown_in_optional_1/a/l1.fcp\n'
                           '  |\n'
                           '4 | mod a.l1;\n'
                           '  | ~~~~~~~~~\n'
                           '  ↳ Failed to parse main.fcp\n'],
 'unknown_in_optional@1:nodes': '[("Type \'Nope\' cannot be found.", (\'l1.fcp\', 4, 28)), (\'Error parsing '
                                "dynamic array type', None), ('Error parsing optional type', None), ('Error "
                                "parsing type in struct field', None), ('Failed to parse field in struct X', "
                                "None), ('Failed to parse l1.fcp', None), ('Failed to import "
                                "<TMP>/err_unknown_in_optional_1/a/l1.fcp', ('main.fcp', 4, 1)), ('Failed to "
                                "parse main.fcp', None)]",
 'unknown_in_optional@2': ["Type 'Nope' cannot be found.\n"
                           'Error parsing dynamic array type\n'
                           'Error parsing optional type\n'
                           'Error parsing type in struct field\n'
                           'Failed to parse field in struct X\n'
                           'Failed to parse l2.fcp\n'
                           'Failed to import <TMP>/err_unknown_in_optional_2/a/b/l2.fcp\n'
                           'Failed to parse l1.fcp\n'
                           'Failed to import <TMP>/err_unknown_in_optional_2/a/l1.fcp\n'
                           'Failed to parse main.fcp',
                           "  → Error: Type 'Nope' cannot be found.\n"
                           '  |\n'
                           '4 | struct X { a @0: Optional[[Nope]], }\n'
                           '  | ~~~~~~~~~~~~~~~~~~~~~~~~~~~~~~~~~~~~\n'
                           '  ↳ Error parsing dynamic array type\n'
                           '  ↳ Error parsing optional type\n'
                           '  ↳ Error parsing type in struct field\n'
                           '  ↳ Failed to parse field in struct X\n'
                           '  ↳ Failed to parse l2.fcp\n'
                           '  ↳ Failed to import <TMP>/err_unknown_in_optional_2/a/b/l2.fcp\n'
                           '  |\n'
                           '4 | mod b.l2;\n'
                           '  | ~~~~~~~~~\n'
                           '  ↳ Failed to parse l1.fcp\n'
                           '  ↳ Failed to import <TMP>/err_unknown_in_optional_2/a/l1.fcp\n'
                           '  |\n'
                           '4 | mod a.l1;\n'
                           '  | ~~~~~~~~~\n'
                           '  ↳ Failed to parse main.fcp\n'],
 'unknown_in_optional@2:nodes': '[("Type \'Nope\' cannot be found.", (\'l2.fcp\', 4, 28)), (\'Error parsing '
                                "dynamic array type', None), ('Error parsing optional type', None), ('Error "
                                "parsing type in struct field', None), ('Failed to parse field in struct X', "
                                "None), ('Failed to parse l2.fcp', None), ('Failed to import "
                                "<TMP>/err_unknown_in_optional_2/a/b/l2.fcp', ('l1.fcp', 4, 1)), ('Failed to "
                                "parse l1.fcp', None), ('Failed to import "
                                "<TMP>/err_unknown_in_optional_2/a/l1.fcp', ('main.fcp', 4, 1)), ('Failed to "
                                "parse main.fcp', None)]",
 'unknown_in_optional@3': ["Type 'Nope' cannot be found.\n"
                           'Error parsing dynamic array type\n'
                           'Error parsing optional type\n'
                           'Error parsing type in struct field\n'
                           'Failed to parse field in struct X\n'
                           'Failed to parse l3.fcp\n'
                           'Failed to import <TMP>/err_unknown_in_optional_3/a/b/c/l3.fcp\n'
                           'Failed to parse l2.fcp\n'
                           'Failed to import <TMP>/err_unknown_in_optional_3/a/b/l2.fcp\n'
                           'Failed to parse l1.fcp\n'
                           'Failed to import <TMP>/err_unknown_in_optional_3/a/l1.fcp\n'
                           'Failed to parse main.fcp',
                           "  → Error: Type 'Nope' cannot be found.\n"
                           '  |\n'
                           '4 | struct X { a @0: Optional[[Nope]], }\n'
                           '  | ~~~~~~~~~~~~~~~~~~~~~~~~~~~~~~~~~~~~\n'
                           '  ↳ Error parsing dynamic array type\n'
                           '  ↳ Error parsing optional type\n'
                           '  ↳ Error parsing type in struct field\n'
                           '  ↳ Failed to parse field in struct X\n'
                           '  ↳ Failed to parse l3.fcp\n'
                           '  ↳ Failed to import <TMP>/err_unknown_in_optional_3/a/b/c/l3.fcp\n'
                           '  |\n'
                           '4 | mod c.l3;\n'
                           '  | ~~~~~~~~~\n'
                           '  ↳ Failed to parse l2.fcp\n'
                           '  ↳ Failed to import <TMP>/err_unknown_in_optional_3/a/b/l2.fcp\n'
                           '  |\n'
                           '4 | mod b.l2;\n'
                           '  | ~~~~~~~~~\n'
                           '  ↳ Failed to parse l1.fcp\n'
                           '  ↳ Failed to import <TMP>/err_unknown_in_optional_3/a/l1.fcp\n'
                           '  |\n'
                           '4 | mod a.l1;\n'
                           '  | ~~~~~~~~~\n'
                           '  ↳ Failed to parse main.fcp\n'],
 'unknown_in_optional@3:nodes': '[("Type \'Nope\' cannot be found.", (\'l3.fcp\', 4, 28)), (\'Error parsing '
                                "dynamic array type', None), ('Error parsing optional type', None), ('Error "
                                "parsing type in struct field', None), ('Failed to parse field in struct X', "
                                "None), ('Failed to parse l3.fcp', None), ('Failed to import "
                                "<TMP>/err_unknown_in_optional_3/a/b/c/l3.fcp', ('l2.fcp', 4, 1)), ('Failed "
                                "to parse l2.fcp', None), ('Failed to import "
                                "<TMP>/err_unknown_in_optional_3/a/b/l2.fcp', ('l1.fcp', 4, 1)), ('Failed to "
                                "parse l1.fcp', None), ('Failed to import "
                                "<TMP>/err_unknown_in_optional_3/a/l1.fcp', ('main.fcp', 4, 1)), ('Failed to "
                                "parse main.fcp', None)]",
 'unknown_type@1': ["Type 'Nope' cannot be found.\n"
                    'Error parsing type in struct field\n'
                    'Failed to parse field in struct X\n'
                    'Failed to parse l1.fcp\n'
                    'Failed to import <TMP>/err_unknown_type_1/a/l1.fcp\n'
                    'Failed to parse main.fcp',
                    "  → Error: Type 'Nope' cannot be found.\n"
                    '  |\n'
                    '4 | struct X { a @0: Nope, }\n'
                    '  | ~~~~~~~~~~~~~~~~~~~~~~~~\n'
                    '  ↳ Error parsing type in struct field\n'
                    '  ↳ Failed to parse field in struct X\n'
                    '  ↳ Failed to parse l1.fcp\n'
                    '  ↳ Failed to import <TMP>/err_unknown_type_1/a/l1.fcp\n'
                    '  |\n'
                    '4 | mod a.l1;\n'
                    '  | ~~~~~~~~~\n'
                    '  ↳ Failed to parse main.fcp\n'],
 'unknown_type@1:nodes': '[("Type \'Nope\' cannot be found.", (\'l1.fcp\', 4, 18)), (\'Error parsing type in '
                         "struct field', None), ('Failed to parse field in struct X', None), ('Failed to "
                         "parse l1.fcp', None), ('Failed to import <TMP>/err_unknown_type_1/a/l1.fcp', "
                         "('main.fcp', 4, 1)), ('Failed to parse main.fcp', None)]",
 'unknown_type@2': ["Type 'Nope' cannot be found.\n"
                    'Error parsing type in struct field\n'
                    'Failed to parse field in struct X\n'
                    'Failed to parse l2.fcp\n'
                    'Failed to import <TMP>/err_unknown_type_2/a/b/l2.fcp\n'
                    'Failed to parse l1.fcp\n'
                    'Failed to import <TMP>/err_unknown_type_2/a/l1.fcp\n'
                    'Failed to parse main.fcp',
                    "  → Error: Type 'Nope' cannot be found.\n"
                    '  |\n'
                    '4 | struct X { a @0: Nope, }\n'
                    '  | ~~~~~~~~~~~~~~~~~~~~~~~~\n'
                    '  ↳ Error parsing type in struct field\n'
                    '  ↳ Failed to parse field in struct X\n'
                    '  ↳ Failed to parse l2.fcp\n'
                    '  ↳ Failed to import <TMP>/err_unknown_type_2/a/b/l2.fcp\n'
                    '  |\n'
                    '4 | mod b.l2;\n'
                    '  | ~~~~~~~~~\n'
                    '  ↳ Failed to parse l1.fcp\n'
                    '  ↳ Failed to import <TMP>/err_unknown_type_2/a/l1.fcp\n'
                    '  |\n'
                    '4 | mod a.l1;\n'
                    '  | ~~~~~~~~~\n'
                    '  ↳ Failed to parse main.fcp\n'],
 'unknown_type@2:nodes': '[("Type \'Nope\' cannot be found.", (\'l2.fcp\', 4, 18)), (\'Error parsing type in '
                         "struct field', None), ('Failed to parse field in struct X', None), ('Failed to "
                         "parse l2.fcp', None), ('Failed to import <TMP>/err_unknown_type_2/a/b/l2.fcp', "
                         "('l1.fcp', 4, 1)), ('Failed to parse l1.fcp', None), ('Failed to import "
                         "<TMP>/err_unknown_type_2/a/l1.fcp', ('main.fcp', 4, 1)), ('Failed to parse "
                         "main.fcp', None)]",
 'unknown_type@3': ["Type 'Nope' cannot be found.\n"
                    'Error parsing type in struct field\n'
                    'Failed to parse field in struct X\n'
                    'Failed to parse l3.fcp\n'
                    'Failed to import <TMP>/err_unknown_type_3/a/b/c/l3.fcp\n'
                    'Failed to parse l2.fcp\n'
                    'Failed to import <TMP>/err_unknown_type_3/a/b/l2.fcp\n'
                    'Failed to parse l1.fcp\n'
                    'Failed to import <TMP>/err_unknown_type_3/a/l1.fcp\n'
                    'Failed to parse main.fcp',
                    "  → Error: Type 'Nope' cannot be found.\n"
                    '  |\n'
                    '4 | struct X { a @0: Nope, }\n'
                    '  | ~~~~~~~~~~~~~~~~~~~~~~~~\n'
                    '  ↳ Error parsing type in struct field\n'
                    '  ↳ Failed to parse field in struct X\n'
                    '  ↳ Failed to parse l3.fcp\n'
                    '  ↳ Failed to import <TMP>/err_unknown_type_3/a/b/c/l3.fcp\n'
                    '  |\n'
                    '4 | mod c.l3;\n'
                    '  | ~~~~~~~~~\n'
                    '  ↳ Failed to parse l2.fcp\n'
                    '  ↳ Failed to import <TMP>/err_unknown_type_3/a/b/l2.fcp\n'
                    '  |\n'
                    '4 | mod b.l2;\n'
                    '  | ~~~~~~~~~\n'
                    '  ↳ Failed to parse l1.fcp\n'
                    '  ↳ Failed to import <TMP>/err_unknown_type_3/a/l1.fcp\n'
                    '  |\n'
                    '4 | mod a.l1;\n'
                    '  | ~~~~~~~~~\n'
                    '  ↳ Failed to parse main.fcp\n'],
 'unknown_type@3:nodes': '[("Type \'Nope\' cannot be found.", (\'l3.fcp\', 4, 18)), (\'Error parsing type in '
                         "struct field', None), ('Failed to parse field in struct X', None), ('Failed to "
                         "parse l3.fcp', None), ('Failed to import <TMP>/err_unknown_type_3/a/b/c/l3.fcp', "
                         "('l2.fcp', 4, 1)), ('Failed to parse l2.fcp', None), ('Failed to import "
                         "<TMP>/err_unknown_type_3/a/b/l2.fcp', ('l1.fcp', 4, 1)), ('Failed to parse "
                         "l1.fcp', None), ('Failed to import <TMP>/err_unknown_type_3/a/l1.fcp', "
                         "('main.fcp', 4, 1)), ('Failed to parse main.fcp', None)]",
 'version@1': ['Expected IDL version 3\n'
               'Failed to parse l1.fcp\n'
               'Failed to import <TMP>/err_version_1/a/l1.fcp\n'
               'Failed to parse main.fcp',
               '  → Error: Expected IDL version 3\n'
               '  |\n'
               '1 | version: "2"\n'
               '  | ~~~~~~~~~~~~\n'
               '  ↳ Failed to parse l1.fcp\n'
               '  ↳ Failed to import <TMP>/err_version_1/a/l1.fcp\n'
               '  |\n'
               '4 | mod a.l1;\n'
               '  | ~~~~~~~~~\n'
               '  ↳ Failed to parse main.fcp\n'],
 'version@1:nodes': "[('Expected IDL version 3', ('l1.fcp', 1, 1)), ('Failed to parse l1.fcp', None), "
                    "('Failed to import <TMP>/err_version_1/a/l1.fcp', ('main.fcp', 4, 1)), ('Failed to "
                    "parse main.fcp', None)]",
 'version@2': ['Expected IDL version 3\n'
               'Failed to parse l2.fcp\n'
               'Failed to import <TMP>/err_version_2/a/b/l2.fcp\n'
               'Failed to parse l1.fcp\n'
               'Failed to import <TMP>/err_version_2/a/l1.fcp\n'
               'Failed to parse main.fcp',
               '  → Error: Expected IDL version 3\n'
               '  |\n'
               '1 | version: "2"\n'
               '  | ~~~~~~~~~~~~\n'
               '  ↳ Failed to parse l2.fcp\n'
               '  ↳ Failed to import <TMP>/err_version_2/a/b/l2.fcp\n'
               '  |\n'
               '4 | mod b.l2;\n'
               '  | ~~~~~~~~~\n'
               '  ↳ Failed to parse l1.fcp\n'
               '  ↳ Failed to import <TMP>/err_version_2/a/l1.fcp\n'
               '  |\n'
               '4 | mod a.l1;\n'
               '  | ~~~~~~~~~\n'
               '  ↳ Failed to parse main.fcp\n'],
 'version@2:nodes': "[('Expected IDL version 3', ('l2.fcp', 1, 1)), ('Failed to parse l2.fcp', None), "
                    "('Failed to import <TMP>/err_version_2/a/b/l2.fcp', ('l1.fcp', 4, 1)), ('Failed to "
                    "parse l1.fcp', None), ('Failed to import <TMP>/err_version_2/a/l1.fcp', ('main.fcp', 4, "
                    "1)), ('Failed to parse main.fcp', None)]",
 'version@3': ['Expected IDL version 3\n'
               'Failed to parse l3.fcp\n'
               'Failed to import <TMP>/err_version_3/a/b/c/l3.fcp\n'
               'Failed to parse l2.fcp\n'
               'Failed to import <TMP>/err_version_3/a/b/l2.fcp\n'
               'Failed to parse l1.fcp\n'
               'Failed to import <TMP>/err_version_3/a/l1.fcp\n'
               'Failed to parse main.fcp',
               '  → Error: Expected IDL version 3\n'
               '  |\n'
               '1 | version: "2"\n'
               '  | ~~~~~~~~~~~~\n'
               '  ↳ Failed to parse l3.fcp\n'
               '  ↳ Failed to import <TMP>/err_version_3/a/b/c/l3.fcp\n'
               '  |\n'
               '4 | mod c.l3;\n'
               '  | ~~~~~~~~~\n'
               '  ↳ Failed to parse l2.fcp\n'
               '  ↳ Failed to import <TMP>/err_version_3/a/b/l2.fcp\n'
               '  |\n'
               '4 | mod b.l2;\n'
               '  | ~~~~~~~~~\n'
               '  ↳ Failed to parse l1.fcp\n'
               '  ↳ Failed to import <TMP>/err_version_3/a/l1.fcp\n'
               '  |\n'
               '4 | mod a.l1;\n'
               '  | ~~~~~~~~~\n'
               '  ↳ Failed to parse main.fcp\n'],
 'version@3:nodes': "[('Expected IDL version 3', ('l3.fcp', 1, 1)), ('Failed to parse l3.fcp', None), "
                    "('Failed to import <TMP>/err_version_3/a/b/c/l3.fcp', ('l2.fcp', 4, 1)), ('Failed to "
                    "parse l2.fcp', None), ('Failed to import <TMP>/err_version_3/a/b/l2.fcp', ('l1.fcp', 4, "
                    "1)), ('Failed to parse l1.fcp', None), ('Failed to import "
                    "<TMP>/err_version_3/a/l1.fcp', ('main.fcp', 4, 1)), ('Failed to parse main.fcp', None)]"}


def main():
    with tempfile.TemporaryDirectory(prefix="c20demo") as t:
        tmp = pathlib.Path(t)
        n = run_split_checks(tmp)
        run_fixed_tree(tmp)
        pinned = {k: (tuple(v) if isinstance(v, list) else v) for k, v in PINNED.items()}
        if "--show" in sys.argv:
            pprint.pprint(run_error_checks(tmp, None))
        else:
            run_error_checks(tmp, pinned)
    print(f"{CHECKS} checks, {n} multi-file splits, {len(PINNED)} pinned error observations")
    print("PASS")


if __name__ == "__main__":
    main()
