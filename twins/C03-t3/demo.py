#!/venv/bin/python
"""Differential test for property C03.

Generated C++ static codec compiles (C++17) and speaks the canonical wire
format: for several schemas the C++ headers are generated, compiled with g++
and driven with test vectors.  For every vector the bytes produced by the
generated C++ encoder must equal the bytes of the Python codec (fcp.serde) AND
of an independent LSB-first bit packer written here, and the generated decoder
must map the bytes back to the same value.  The carrier types chosen for
integer widths 1-64 and the minimal enum widths are checked on the generated
text as well.

Finds the code through PYTHONPATH; repository files through FCP_ROOT
(default /tmp/twin-C03).  Prints PASS and exits 0 on success.
"""

import json
import os
import random
import re
import shutil
import struct as pystruct
import subprocess
import sys
import tempfile
from pathlib import Path

from fcp.parser import get_fcp
from fcp.serde import encode as py_encode
from fcp.specs import type as T
from fcp_cpp import Generator

FCP_ROOT = Path(os.environ.get("FCP_ROOT", "/tmp/twin-C03"))
JSON_INCLUDE = os.environ.get("JSON_INCLUDE", "/root/miniconda/include")
RNG = random.Random(0xC03)

CXX_FLAGS = [
    "--std=c++17",
    "-Werror",
    "-Wall",
    "-Wextra",
    "-Wformat-nonliteral",
    "-Wcast-align",
    "-Wpointer-arith",
    "-Winline",
    "-Wundef",
    "-Wcast-qual",
    "-Wshadow",
    "-Wwrite-strings",
    "-Wno-unused-parameter",
    "-Wfloat-equal",
    "-pedantic",
]

ENUM_MAXES = {
    "E1": 0,
    "E1b": 1,
    "E2": 2,
    "E2b": 3,
    "E3": 4,
    "E7": 127,
    "E8": 128,
    "E8b": 255,
    "E9": 256,
    "E16": 65535,
    "E17": 65536,
    "E32": 4294967295,
    "E33": 4294967296,
}


def fail(msg):
    print("FAIL:", msg)
    sys.exit(1)


# --------------------------------------------------------------------------
# schemas
# --------------------------------------------------------------------------
def main_schema() -> str:
    out = ['version: "3"', ""]
    for name, m in ENUM_MAXES.items():
        out.append("enum %s {" % name)
        out.append("    %s_Zero = 0," % name)
        if m > 1:
            out.append("    %s_One = 1," % name)
        if m > 0:
            out.append("    %s_Max = %d," % (name, m))
        out.append("}")
        out.append("")

    out.append("struct UAll {")
    for w in range(1, 65):
        out.append("    f%d @ %d: u%d," % (w, w - 1, w))
    out.append("}\n")

    # declared in reverse order: wire order is by field id, not declaration
    out.append("struct IAll {")
    for w in range(64, 0, -1):
        out.append("    f%d @ %d: i%d," % (w, w - 1, w))
    out.append("}\n")

    out.append("struct Enums {")
    for i, name in enumerate(ENUM_MAXES):
        out.append("    e%d @ %d: %s," % (i, i, name))
    out.append("}\n")

    out.append(
        """
struct Inner {
    a @ 0: u3,
    b @ 1: i5,
    c @ 2: E3,
}

struct Mixed {
    tail @ 9: u1,
    lead @ 0: u3,
    e @ 1: E3,
    s @ 2: i13,
    f @ 3: f32,
    bit @ 4: u1,
    d @ 5: f64,
    txt @ 6: str,
    inner @ 7: Inner,
    wide @ 8: u47,
}

struct Shapes {
    arr @ 0: [u5, 3],
    odd @ 1: u1,
    dyn @ 2: [i7],
    opt @ 3: Optional[u9],
    oin @ 4: Optional[Inner],
    nest @ 5: [[u3, 2], 2],
    dstruct @ 6: [Inner],
    earr @ 7: [E9, 2],
    ostr @ 8: Optional[str],
    dd @ 9: [[i11]],
    fl @ 10: [f32, 2],
}

struct Outer {
    x @ 0: u2,
    shapes @ 1: Shapes,
    mixed @ 2: Mixed,
    y @ 3: i3,
}

struct Req {
    k @ 0: u7,
    e @ 1: E2,
}

struct Rsp {
    v @ 0: i9,
    l @ 1: [u3],
}

service Calc @ 3 {
    method Do(Req) @ 5 returns Rsp,
}
"""
    )
    return "\n".join(out)


BIG_SCHEMA = """version: "3"

struct B1 {
    a @ 0: u8,
    b @ 1: u16,
    c @ 2: i16,
    d @ 3: u32,
    e @ 4: i32,
    f @ 5: u64,
    g @ 6: i64,
    h @ 7: i8,
}

impl can for B1 {
    id: 11,
    endianess: "big",
    bus: "hs",
}

struct L1 {
    a @ 0: u12,
    b @ 1: i20,
}

impl can for L1 {
    id: 12,
    bus: "ls",
}
"""


# --------------------------------------------------------------------------
# independent reference encoder (LSB first bit packing)
# --------------------------------------------------------------------------
class Bits:
    def __init__(self):
        self.bits = []

    def push(self, value, n):
        for i in range(n):
            self.bits.append((value >> i) & 1)

    def bytes(self):
        out = bytearray((len(self.bits) + 7) // 8)
        for i, b in enumerate(self.bits):
            out[i >> 3] |= b << (i & 7)
        return bytes(out)


def enum_width(m):
    return max(1, m.bit_length())


def carrier(width):
    for c in (8, 16, 32, 64):
        if width <= c:
            return c
    raise AssertionError(width)


def ref_encode(fcp, t, v, bits):
    if isinstance(t, T.StructType):
        st = fcp.get_struct(t.name).unwrap()
        for f in sorted(st.fields, key=lambda f: f.field_id):
            ref_encode(fcp, f.type, v[f.name], bits)
    elif isinstance(t, T.EnumType):
        en = fcp.get_enum(t.name).unwrap()
        bits.push(v, enum_width(max(e.value for e in en.enumeration)))
    elif isinstance(t, (T.UnsignedType, T.SignedType)):
        bits.push(v, int(t.name[1:]))
    elif isinstance(t, T.FloatType):
        bits.push(int.from_bytes(pystruct.pack("<f", v), "little"), 32)
    elif isinstance(t, T.DoubleType):
        bits.push(int.from_bytes(pystruct.pack("<d", v), "little"), 64)
    elif isinstance(t, T.StringType):
        bits.push(len(v), 32)
        for ch in v:
            bits.push(ord(ch), 8)
    elif isinstance(t, T.ArrayType):
        assert len(v) == t.size
        for x in v:
            ref_encode(fcp, t.underlying_type, x, bits)
    elif isinstance(t, T.DynamicArrayType):
        bits.push(len(v), 32)
        for x in v:
            ref_encode(fcp, t.underlying_type, x, bits)
    elif isinstance(t, T.OptionalType):
        bits.push(0 if v is None else 1, 8)
        if v is not None:
            ref_encode(fcp, t.underlying_type, v, bits)
    else:
        raise AssertionError(t)


# --------------------------------------------------------------------------
# value generation
# --------------------------------------------------------------------------
F32 = [0.0, -0.0, 1.5, -2.25, 3.4028234663852886e38, 1.401298464324817e-45, 0.1 * 0 + 0.5]
F64 = [0.0, -0.0, 0.1, -1e300, 1.7976931348623157e308, 5e-324, 123456.789]
STRS = ["", "a", "hello world", 'q"uo\\te\t', "~" * 17, "0123456789" * 3]


def gen(fcp, t, mode):
    """mode: 'min' | 'max' | 'one' | 'alt' | 'rnd'."""
    if isinstance(t, T.StructType):
        st = fcp.get_struct(t.name).unwrap()
        return {f.name: gen(fcp, f.type, mode) for f in st.fields}
    if isinstance(t, T.EnumType):
        en = fcp.get_enum(t.name).unwrap()
        vals = [e.value for e in en.enumeration]
        if mode == "min":
            return min(vals)
        if mode == "max":
            return max(vals)
        return RNG.choice(vals)
    if isinstance(t, T.UnsignedType):
        n = int(t.name[1:])
        hi = 2**n - 1
        return {
            "min": 0,
            "max": hi,
            "one": 1,
            "alt": int("01" * 32, 2) & hi,
        }.get(mode, RNG.randint(0, hi))
    if isinstance(t, T.SignedType):
        n = int(t.name[1:])
        lo, hi = -(2 ** (n - 1)), 2 ** (n - 1) - 1
        return {
            "min": lo,
            "max": hi,
            "one": -1,
            "alt": (int("10" * 32, 2) & hi) if n > 1 else 0,
        }.get(mode, RNG.randint(lo, hi))
    if isinstance(t, T.FloatType):
        return {"min": -0.0, "max": F32[4], "one": 1.5}.get(mode, RNG.choice(F32))
    if isinstance(t, T.DoubleType):
        return {"min": -0.0, "max": F64[4], "one": 0.1}.get(mode, RNG.choice(F64))
    if isinstance(t, T.StringType):
        return {"min": "", "max": STRS[5], "one": "a"}.get(mode, RNG.choice(STRS))
    if isinstance(t, T.ArrayType):
        return [gen(fcp, t.underlying_type, mode) for _ in range(t.size)]
    if isinstance(t, T.DynamicArrayType):
        n = {"min": 0, "max": 9, "one": 1}.get(mode, RNG.randint(0, 4))
        return [gen(fcp, t.underlying_type, mode) for _ in range(n)]
    if isinstance(t, T.OptionalType):
        if mode == "min" or (mode in ("rnd", "alt") and RNG.random() < 0.4):
            return None
        return gen(fcp, t.underlying_type, mode)
    raise AssertionError(t)


# --------------------------------------------------------------------------
# type visitor / C++ type names
# --------------------------------------------------------------------------
def ref_trace(fcp, t, name=""):
    """What a visitor that records every call must return (children first, by field id)."""
    if isinstance(t, T.StructType):
        st = fcp.get_struct(t.name).unwrap()
        kids = [ref_trace(fcp, f.type, f.name) for f in sorted(st.fields, key=lambda f: f.field_id)]
        return ("struct", t.name, kids, name)
    for cls, tag in (
        (T.EnumType, "enum"),
        (T.UnsignedType, "unsigned"),
        (T.SignedType, "signed"),
    ):
        if isinstance(t, cls):
            return (tag, t.name, name)
    if isinstance(t, T.FloatType):
        return ("float", name)
    if isinstance(t, T.DoubleType):
        return ("double", name)
    if isinstance(t, T.StringType):
        return ("string", name)
    if isinstance(t, T.ArrayType):
        return ("array", t.size, ref_trace(fcp, t.underlying_type), name)
    if isinstance(t, T.DynamicArrayType):
        return ("dynamic_array", ref_trace(fcp, t.underlying_type), name)
    if isinstance(t, T.OptionalType):
        return ("optional", ref_trace(fcp, t.underlying_type), name)
    raise AssertionError(t)


def ref_cpp(t):
    if isinstance(t, (T.StructType, T.EnumType)):
        return t.name
    if isinstance(t, T.UnsignedType):
        n = int(t.name[1:])
        return "Unsigned<std::uint%d_t, %d>" % (carrier(n), n)
    if isinstance(t, T.SignedType):
        n = int(t.name[1:])
        return "Signed<std::int%d_t, %d>" % (carrier(n), n)
    if isinstance(t, T.FloatType):
        return "Float"
    if isinstance(t, T.DoubleType):
        return "Double"
    if isinstance(t, T.StringType):
        return "String"
    if isinstance(t, T.ArrayType):
        return "Array<%s, %d>" % (ref_cpp(t.underlying_type), t.size)
    if isinstance(t, T.DynamicArrayType):
        return "DynamicArray<%s>" % ref_cpp(t.underlying_type)
    if isinstance(t, T.OptionalType):
        return "Optional<%s>" % ref_cpp(t.underlying_type)
    raise AssertionError(t)


def random_type(depth):
    leaves = [
        lambda: T.UnsignedType("u%d" % RNG.randint(1, 64)),
        lambda: T.SignedType("i%d" % RNG.randint(1, 64)),
        lambda: T.FloatType(),
        lambda: T.DoubleType(),
        lambda: T.StringType(),
        lambda: T.EnumType(RNG.choice(list(ENUM_MAXES))),
        lambda: T.StructType(RNG.choice(["Inner", "Mixed", "Shapes", "Outer", "UAll"])),
    ]
    if depth == 0 or RNG.random() < 0.3:
        return RNG.choice(leaves)()
    kind = RNG.randint(0, 2)
    inner = random_type(depth - 1)
    if kind == 0:
        return T.ArrayType(inner, RNG.randint(1, 9))
    if kind == 1:
        return T.DynamicArrayType(inner)
    return T.OptionalType(inner)


def check_type_visitor(fcp):
    from fcp.type_visitor import TypeVisitor
    from fcp_cpp.generator import ToCpp, to_wrapper_cpp_type, _to_highest_power_of_two

    class Recorder(TypeVisitor):
        def struct(self, t, fields, name):
            return ("struct", t.name, fields, name)

        def enum(self, t, name):
            return ("enum", t.name, name)

        def unsigned(self, t, name):
            return ("unsigned", t.name, name)

        def signed(self, t, name):
            return ("signed", t.name, name)

        def float(self, t, name):
            return ("float", name)

        def double(self, t, name):
            return ("double", name)

        def string(self, t, name):
            return ("string", name)

        def array(self, t, inner, name):
            return ("array", t.size, inner, name)

        def dynamic_array(self, t, inner, name):
            return ("dynamic_array", inner, name)

        def optional(self, t, inner, name):
            return ("optional", inner, name)

    class OnlyUnsigned(TypeVisitor):
        def unsigned(self, t, name):
            return "U" + t.name + ":" + name

    class MyUnsigned(T.UnsignedType):
        pass

    types = [T.StructType(s.name) for s in fcp.structs]
    types += [f.type for s in fcp.structs for f in s.fields]
    types += [random_type(4) for _ in range(300)]
    recorder, plain, to_cpp = Recorder(fcp), TypeVisitor(fcp), ToCpp(fcp)
    for t in types:
        for name in ("", "field_x"):
            if recorder.visit(t, name) != ref_trace(fcp, t, name):
                fail("visitor trace differs for %r" % (t,))
            if plain.visit(t, name) is not None:
                fail("default visitor must return None")
        if recorder.visit(t) != ref_trace(fcp, t, ""):
            fail("visitor trace differs (default name) for %r" % (t,))
        if to_cpp.visit(t) != ref_cpp(t) or to_wrapper_cpp_type(fcp, t) != ref_cpp(t):
            fail("C++ type of %r: %r, expected %r" % (t, to_cpp.visit(t), ref_cpp(t)))
    for w in range(1, 65):
        if _to_highest_power_of_two(w) != carrier(w):
            fail("carrier width for %d" % w)
        if to_cpp.unsigned(T.UnsignedType("u%d" % w), "n") != ref_cpp(T.UnsignedType("u%d" % w)):
            fail("ToCpp.unsigned %d" % w)
        if to_cpp.signed(T.SignedType("i%d" % w), "n") != ref_cpp(T.SignedType("i%d" % w)):
            fail("ToCpp.signed %d" % w)
    if OnlyUnsigned(fcp).visit(MyUnsigned("u5"), "k") != "Uu5:k":
        fail("subclass of UnsignedType is not visited as unsigned")
    if OnlyUnsigned(fcp).visit(T.ArrayType(T.UnsignedType("u5"), 2), "k") is not None:
        fail("partial visitor")
    for bad in (None, 5, "u8", T.Type(), object()):
        for visitor in (recorder, plain, to_cpp):
            try:
                visitor.visit(bad)
            except ValueError as e:
                if str(e) != "Unexpected type: " + str(bad):
                    fail("error text for %r: %s" % (bad, e))
            else:
                fail("no error for %r" % (bad,))
    for bad in (T.UnsignedType("u0"), T.SignedType("i0")):
        try:
            to_cpp.visit(bad)
        except ValueError:
            pass
        else:
            fail("zero width must still be rejected with ValueError")
    try:
        recorder.visit(T.StructType("NoSuchStruct"))
    except Exception:
        pass
    else:
        fail("unknown struct must raise")


# --------------------------------------------------------------------------
# C++ driver (schema independent: goes through the generated StaticSchema)
# --------------------------------------------------------------------------
DRIVER = r"""
#include <cmath>
#include <limits>
#include <fstream>
#include <iostream>
#include <stdexcept>
#include "fcp.h"
#include "%(extra)s"

static std::vector<std::uint8_t> unhex(const std::string& s) {
    std::vector<std::uint8_t> out;
    for (std::size_t i = 0; i + 1 < s.size(); i += 2) {
        out.push_back(static_cast<std::uint8_t>(std::stoul(s.substr(i, 2), nullptr, 16)));
    }
    return out;
}

static std::vector<std::string> split(const std::string& s) {
    std::vector<std::string> out;
    std::size_t start = 0;
    while (true) {
        auto pos = s.find('\t', start);
        if (pos == std::string::npos) { out.push_back(s.substr(start)); break; }
        out.push_back(s.substr(start, pos - start));
        start = pos + 1;
    }
    return out;
}

template<typename Schema>
static int check(const Schema& schema, const std::vector<std::string>& f, int line) {
    const auto& impl_name = f[1];
    const auto& struct_name = f[2];
    const auto& bus = f[3];
    auto j = nlohmann::json::parse(f[4]);
    auto expected = unhex(f[5]);
    int bad = 0;
    for (int round = 0; round < 2; round++) {
        auto encoded = schema.EncodeJson(impl_name, j);
        if (!encoded.has_value() || encoded.value() != expected) {
            std::cout << "line " << line << " " << struct_name << ": encode mismatch" << std::endl;
            bad++;
        }
        auto decoded = schema.DecodeJson(struct_name, expected, bus);
        if (!decoded.has_value()) {
            std::cout << "line " << line << " " << struct_name << ": no decoder" << std::endl;
            bad++;
            continue;
        }
        auto d = decoded.value();
        d.erase("__is_method_input");
        if (d != j) {
            std::cout << "line " << line << " " << struct_name << ": decode mismatch " << d.dump() << " vs " << j.dump() << std::endl;
            bad++;
        }
    }
    return bad;
}

int main(int argc, char** argv) {
    std::ifstream in(argv[1]);
    std::string text;
    int line = 0, bad = 0, n = 0;
    fcp::StaticSchema schema{};
    %(extra_schema)s
    while (std::getline(in, text)) {
        line++;
        auto f = split(text);
        if (f.size() != 6) { std::cout << "bad line " << line << std::endl; return 2; }
        if (f[0] == "default") { bad += check(schema, f, line); }
        %(extra_check)s
        else { std::cout << "bad tag" << std::endl; return 2; }
        n++;
    }
    if (schema.DecodeJson("NoSuchStruct", {}, "default").has_value()) { bad++; }
    if (schema.EncodeJson("NoSuchStruct", nlohmann::json::object()).has_value()) { bad++; }
    std::cout << "vectors " << n << " bad " << bad << std::endl;
    return bad == 0 ? 0 : 1;
}
"""

ALL_HEADERS_TU = r"""
#include <cmath>
#include <limits>
#include <stdexcept>
%s
int main() { return 0; }
"""


def generate(schema_text, workdir):
    workdir.mkdir(parents=True, exist_ok=True)
    src = workdir / "schema.fcp"
    src.write_text(schema_text)
    fcp = get_fcp(src).unwrap()
    files = {}
    for r in Generator().generate(fcp, {"output": str(workdir)}):
        assert r["type"] == "file"
        Path(r["path"]).write_text(r["contents"])
        files[Path(r["path"]).name] = r["contents"]
    return fcp, files


def compile_and_run(workdir, name, source, args=()):
    (workdir / (name + ".cpp")).write_text(source)
    exe = workdir / name
    r = subprocess.run(
        ["g++"] + CXX_FLAGS + ["-isystem", JSON_INCLUDE, "-I", str(workdir), name + ".cpp", "-o", str(exe)],
        cwd=workdir,
        capture_output=True,
        text=True,
    )
    if r.returncode != 0:
        fail("C++ compilation of %s failed:\n%s" % (name, r.stderr[-4000:]))
    r = subprocess.run([str(exe)] + list(args), cwd=workdir, capture_output=True, text=True)
    if r.returncode != 0:
        fail("%s exited %d:\n%s%s" % (name, r.returncode, r.stdout[-4000:], r.stderr[-2000:]))
    return r.stdout


def static_codec_headers(files):
    """The headers that make up the static codec (fcp_default.h never compiled: `namespace default`)."""
    names = ["fcp.h", "reflection.h", "rpc.h"] + sorted(
        k for k in files if k.startswith("fcp_") and k != "fcp_default.h"
    )
    for k in names + ["buffer.h", "decoders.h", "i_schema.h"]:
        if k not in files:
            fail("generator did not emit " + k)
    return "\n".join('#include "%s"' % k for k in names)


def swap_bytes(value, width):
    return int.from_bytes((value & (2**width - 1)).to_bytes(width // 8, "little"), "big")


def check_generated_text(fcp, files):
    """Carrier types for widths 1..64 and minimal enum widths, read off the generated text."""
    text = files["fcp.h"]
    for w in range(1, 65):
        want = "using F%dType = Unsigned<std::uint%d_t, %d>;" % (w, carrier(w), w)
        if want not in text:
            fail("missing " + want)
        want = "using F%dType = Signed<std::int%d_t, %d>;" % (w, carrier(w), w)
        if want not in text:
            fail("missing " + want)
    for name, m in ENUM_MAXES.items():
        width = enum_width(m)
        if fcp.get_enum(name).unwrap().get_packed_size() != width:
            fail("enum %s packed size" % name)
        body = re.search(r"class %s \{(.*?)\n\};" % name, text, re.S)
        if body is None:
            fail("enum class %s not generated" % name)
        body = body.group(1)
        if "using UnderlyingType = std::uint%d_t;" % carrier(width) not in body:
            fail("enum %s carrier" % name)
        if "PushWord<UnderlyingType, %d>" % width not in body:
            fail("enum %s push width" % name)
        if not re.search(r"GetSize\(\) \{\s*return %d;" % width, body):
            fail("enum %s GetSize" % name)
    for want in (
        "using ArrType = Array<Unsigned<std::uint8_t, 5>, 3>;",
        "using DynType = DynamicArray<Signed<std::int8_t, 7>>;",
        "using OptType = Optional<Unsigned<std::uint16_t, 9>>;",
        "using OinType = Optional<Inner>;",
        "using NestType = Array<Array<Unsigned<std::uint8_t, 3>, 2>, 2>;",
        "using EarrType = Array<E9, 2>;",
        "using DdType = DynamicArray<DynamicArray<Signed<std::int16_t, 11>>>;",
        "using FlType = Array<Float, 2>;",
        "using DType = Double;",
        "using TxtType = String;",
        "using PayloadType = Req;",
        "using ServiceIdType = ServiceId;",
        "using MethodIdType = CalcMethodId;",
        "struct ReqInput {",
        "struct RspOutput {",
    ):
        if want not in text:
            fail("missing " + want)


def main():
    tmp = Path(tempfile.mkdtemp(prefix="c03demo"))

    # ---- main schema -----------------------------------------------------
    d1 = tmp / "main"
    fcp, files = generate(main_schema(), d1)
    check_generated_text(fcp, files)
    check_type_visitor(fcp)

    # generation is repeatable (apart from the timestamp line)
    _, files_again = generate(main_schema(), tmp / "main2")
    strip = lambda s: re.sub(r"// Generated using fcp .*", "", s)  # noqa: E731
    for k in files:
        if strip(files[k]) != strip(files_again[k]):
            fail("generation not repeatable for " + k)

    structs = ["UAll", "IAll", "Enums", "Inner", "Mixed", "Shapes", "Outer", "Req", "Rsp"]
    lines = []
    count = 0
    for name in structs:
        st = T.StructType(name)
        modes = ["min", "max", "one", "alt"] + ["rnd"] * 12
        for mode in modes:
            value = gen(fcp, st, mode)
            bits = Bits()
            ref_encode(fcp, st, value, bits)
            wire = bits.bytes()
            if bytes(py_encode(fcp, name, value)) != wire:
                fail("python codec disagrees with reference for %s (%s)" % (name, mode))
            lines.append("\t".join(["default", name, name, "default", json.dumps(value), wire.hex()]))
            count += 1

    # single-bit walk over every width: value 1 << (w-1) only, and all-but-top
    for w in range(1, 65):
        u = {"f%d" % k: 0 for k in range(1, 65)}
        u["f%d" % w] = 1 << (w - 1)
        i = {"f%d" % k: 0 for k in range(1, 65)}
        i["f%d" % w] = -(1 << (w - 1))
        for name, value in (("UAll", u), ("IAll", i)):
            bits = Bits()
            ref_encode(fcp, T.StructType(name), value, bits)
            wire = bits.bytes()
            if bytes(py_encode(fcp, name, value)) != wire:
                fail("python codec disagrees with reference for %s bit %d" % (name, w))
            lines.append("\t".join(["default", name, name, "default", json.dumps(value), wire.hex()]))
            count += 1

    # rpc wrappers generated from the service
    req = {"k": 100, "e": 2}
    rsp = {"v": -200, "l": [1, 7, 0]}
    for name, payload, pname in (("ReqInput", req, "Req"), ("RspOutput", rsp, "Rsp")):
        value = {"service_id": 3, "method_id": 5, "payload": payload}
        bits = Bits()
        bits.push(3, 8)
        bits.push(5, 8)
        ref_encode(fcp, T.StructType(pname), payload, bits)
        lines.append("\t".join(["default", name, name, "default", json.dumps(value), bits.bytes().hex()]))
        count += 1

    (d1 / "vectors.tsv").write_text("\n".join(lines) + "\n")
    out = compile_and_run(
        d1,
        "driver",
        DRIVER % {"extra": "buffer.h", "extra_schema": "", "extra_check": ""},
        ["vectors.tsv"],
    )
    if "vectors %d bad 0" % count not in out:
        fail("driver output: " + out)

    # every generated header of the schema compiles as C++17
    includes = static_codec_headers(files)
    compile_and_run(d1, "allheaders", ALL_HEADERS_TU % includes)

    # ---- schema with a big endian impl -------------------------------------
    d2 = tmp / "big"
    fcp2, files2 = generate(BIG_SCHEMA, d2)
    # default byte order of the generated Decode/Encode/Encode comes from the impl
    def struct_body(text, name):
        m = re.search(r"\nstruct %s \{(.*?)\n\};" % name, text, re.S)
        if m is None:
            fail("struct %s not generated" % name)
        return m.group(1)

    for header, name, order in (
        ("fcp_can.h", "B1", "Big"),
        ("fcp_can.h", "L1", "Little"),
        ("fcp.h", "B1", "Little"),
        ("fcp.h", "L1", "Little"),
    ):
        body = struct_body(files2[header], name)
        got = re.findall(r"Endianess endianess=Endianess::(\w+)\)", body)
        if got != [order] * 3:
            fail("%s %s default byte order: %s" % (header, name, got))
    widths = {"a": 8, "b": 16, "c": 16, "d": 32, "e": 32, "f": 64, "g": 64, "h": 8}
    lines = []
    count = 0
    for mode in ["min", "max", "one", "alt"] + ["rnd"] * 20:
        value = gen(fcp2, T.StructType("B1"), mode)
        little = Bits()
        ref_encode(fcp2, T.StructType("B1"), value, little)
        if bytes(py_encode(fcp2, "B1", value)) != little.bytes():
            fail("python codec disagrees with reference for B1")
        lines.append("\t".join(["default", "B1", "B1", "default", json.dumps(value), little.bytes().hex()]))
        big = Bits()
        for k in "abcdefgh":
            big.push(swap_bytes(value[k], widths[k]), widths[k])
        lines.append("\t".join(["can", "B1", "B1", "hs", json.dumps(value), big.bytes().hex()]))
        value = gen(fcp2, T.StructType("L1"), mode)
        little = Bits()
        ref_encode(fcp2, T.StructType("L1"), value, little)
        lines.append("\t".join(["can", "L1", "L1", "ls", json.dumps(value), little.bytes().hex()]))
        count += 3
    (d2 / "vectors.tsv").write_text("\n".join(lines) + "\n")
    out = compile_and_run(
        d2,
        "driver",
        DRIVER
        % {
            "extra": "fcp_can.h",
            "extra_schema": "fcp::can::StaticSchema can_schema{};",
            "extra_check": 'else if (f[0] == "can") { bad += check(can_schema, f, line); }',
        },
        ["vectors.tsv"],
    )
    if "vectors %d bad 0" % count not in out:
        fail("driver output (big): " + out)
    includes = static_codec_headers(files2)
    compile_and_run(d2, "allheaders", ALL_HEADERS_TU % includes)

    # ---- the schema shipped with the plug-in's own tests -------------------
    shipped = FCP_ROOT / "plugins" / "fcp_cpp" / "tests" / "schemas" / "test.fcp"
    d3 = tmp / "shipped"
    _, files3 = generate(shipped.read_text(), d3)
    includes = static_codec_headers(files3)
    compile_and_run(d3, "allheaders", ALL_HEADERS_TU % includes)

    shutil.rmtree(tmp, ignore_errors=True)
    print("PASS")


if __name__ == "__main__":
    main()
