#!/venv/bin/python
"""Differential test for property C19.

Generated C message scheduler honours periods over every call history.

For a spread of devices (1..4 messages, periods in {-1, 1..N}, different
payload shapes, several devices per schema, the implicit "global" device) the
C code is generated with the fcp_can_c plug-in found through PYTHONPATH,
compiled together with a generic driver and run.  The driver compares the
generated ``can_send_<dev>_msgs_scheduled`` against an independent reference
model of the property:

  * a message with period P is transmitted on a call exactly when the time
    stamp differs from the previous call's and at least P units (32-bit
    wrapping) have elapsed since its previous transmission (since 0 for the
    first one),
  * messages without a period are never transmitted,
  * every transmitted frame equals the encoding of the device's current
    value of that message, frames go out in message order.

Histories: every sequence (bounded length) over the time deltas
{0, 1, P-1, P, P+1, 2P, jump-to-wrap-around} from a fresh scheduler state
(each history runs in a forked child because the scheduler keeps its state in
function-local statics), random longer histories, and one long random walk
interleaving all the devices of the schema.

Exit code 0 and "PASS" when everything agrees.
"""

import os
import shutil
import subprocess
import sys
import tempfile

from fcp.parser import get_fcp_from_string
from fcp_can_c import Generator
from fcp_can_c.can_c_writer import pascal_to_snake, snake_to_pascal

CC = shutil.which("gcc") or shutil.which("clang") or "cc"
MAX_EXHAUSTIVE = int(os.environ.get("C19_MAX_HISTORIES", "6000"))


class Msg:
    def __init__(self, name, frame_id, period, fields, extra=""):
        self.name = name
        self.frame_id = frame_id
        self.period = period  # None: no period field at all (defaults to -1)
        self.fields = fields
        self.extra = extra

    @property
    def model_period(self):
        return -1 if self.period is None else self.period


class Dev:
    def __init__(self, name, msgs):
        self.name = name  # None: no device field (implicit "global")
        self.msgs = msgs

    @property
    def c_name(self):
        return "global" if self.name is None else self.name


PRELUDE = """version: "3"

enum Gear {
    Neutral = 0,
    Drive = 1,
    Reverse = 2,
}

struct Inner {
    lo @0: u4,
    mid @1: i12,
}
"""

CONFIGS = [
    (
        "repository test case",
        [
            Dev(
                "ecu",
                [
                    Msg("Pedals", 10, 15, "acc_pos @0: u8, brake_pos @1: u8"),
                    Msg("Shutdown", 11, 20, "error @0: u8"),
                    Msg("Button", 12, -1, "press @0: u8"),
                ],
            )
        ],
    ),
    ("single message, period 1", [Dev("solo", [Msg("Tick", 1, 1, "n @0: u32")])]),
    (
        "four messages, small periods, one unscheduled",
        [
            Dev(
                "quad_node",
                [
                    Msg("Alpha", 100, 1, "a @0: u8"),
                    Msg("BetaGamma", 101, 2, "b @0: u16, c @1: i8"),
                    Msg("Delta", 102, 3, "d @0: i12, e @1: u5, f @2: u16"),
                    Msg("Omega", 103, None, "o @0: u64"),
                ],
            )
        ],
    ),
    (
        "nothing scheduled",
        [
            Dev(
                "mute",
                [
                    Msg("Quiet", 7, -1, "q @0: u8"),
                    Msg("Silent", 8, None, "s @0: i32"),
                ],
            )
        ],
    ),
    (
        "equal and large periods, nested/enum/array/big-endian payloads",
        [
            Dev(
                "front_ecu",
                [
                    Msg("WheelSpeed", 200, 7, "fl @0: u16, fr @1: u16, gear @2: Gear"),
                    Msg(
                        "Status",
                        201,
                        1000,
                        "inner @0: Inner, arr @1: [u8, 2], flag @2: u1",
                    ),
                    Msg(
                        "Torque",
                        202,
                        7,
                        "val @0: i16, raw @1: u32",
                        extra="signal val { endianness: \"big\", },",
                    ),
                ],
            )
        ],
    ),
    (
        "two devices and the implicit global device in one schema",
        [
            Dev(
                "inverter",
                [
                    Msg("Current", 300, 4, "amps @0: i16"),
                    Msg("Voltage", 301, 5, "volts @0: u16, gear @1: Gear"),
                ],
            ),
            Dev(
                "bms",
                [
                    Msg("Cells", 310, 9, "c0 @0: u8, c1 @1: u8, c2 @2: u8"),
                    Msg("Alarm", 311, None, "code @0: u8"),
                    Msg("Temp", 312, 2, "t @0: i8"),
                ],
            ),
            Dev(None, [Msg("Heartbeat", 320, 6, "beat @0: u8"), Msg("Sync", 321, 1, "s @0: u8")]),
        ],
    ),
    (
        "period at the 31-bit boundary",
        [
            Dev(
                "slow",
                [
                    Msg("Daily", 400, 2147483647, "d @0: u8"),
                    Msg("Fast", 401, 1, "f @0: u8"),
                ],
            )
        ],
    ),
]


def schema_for(devs):
    out = [PRELUDE]
    for dev in devs:
        for m in dev.msgs:
            out.append("struct %s {\n    %s,\n}\n" % (m.name, ",\n    ".join(f.strip() for f in split_fields(m.fields))))
            lines = ["    id: %d," % m.frame_id]
            if dev.name is not None:
                lines.append('    device: "%s",' % dev.name)
            if m.period is not None:
                lines.append("    period: %d," % m.period)
            if m.extra:
                lines.append("    " + m.extra)
            out.append("impl can for %s {\n%s\n}\n" % (m.name, "\n".join(lines)))
    return "\n".join(out)


def split_fields(text):
    """Split "a @0: u8, arr @1: [u8, 2]" on the commas outside brackets."""
    parts, depth, cur = [], 0, ""
    for ch in text:
        if ch == "[":
            depth += 1
        elif ch == "]":
            depth -= 1
        if ch == "," and depth == 0:
            parts.append(cur)
            cur = ""
        else:
            cur += ch
    if cur.strip():
        parts.append(cur)
    return parts


def deltas_for(dev):
    ds = [0, 1]
    for m in dev.msgs:
        p = m.model_period
        if p == -1:
            continue
        for d in (p - 1, p, p + 1, 2 * p):
            if 0 <= d <= 0xFFFFFFFF and d not in ds:
                ds.append(d)
    return ds


def history_length(n_choices):
    length = 1
    while length < 6 and n_choices ** (length + 1) <= MAX_EXHAUSTIVE:
        length += 1
    return max(length, 3)


DRIVER_HEAD = r"""
#include <stdint.h>
#include <stdbool.h>
#include <stdio.h>
#include <stdlib.h>
#include <string.h>
#include <sys/types.h>
#include <sys/wait.h>
#include <unistd.h>
#include "can_frame.h"

#define MAXM 8
#define WRAP_CHOICE 0xFFFFFFFFFFFFFFFFull /* "jump to 0xFFFFFFFE, or by 2 when already there" */

typedef struct {
    const char *name;
    int n;
    const long long *macro_period;  /* CAN_MSG_PERIOD_* as seen by the C compiler */
    const long long *schema_period; /* what the schema said */
    const unsigned *id;
    const unsigned *schema_id;
    CanFrame (*const *enc)(void);
    void (*sched)(uint32_t, void (*)(const CanFrame *));
    void *value;
    size_t value_size;
    const unsigned long long *choices;
    int n_choices;
    int hist_len;
    /* reference model state */
    uint32_t m_last_call;
    uint32_t m_last_send[MAXM];
    /* independent "never twice within less than P" bookkeeping */
    bool seen[MAXM];
    uint32_t seen_at[MAXM];
    uint32_t now;
} Dev;

static int got_n;
static CanFrame got[MAXM + 1];
static void sink(const CanFrame *f) {
    if (got_n <= MAXM) got[got_n] = *f;
    got_n++;
}

static uint64_t rng_state = 0x9E3779B97F4A7C15ull;
static uint32_t rnd(void) {
    rng_state ^= rng_state << 13;
    rng_state ^= rng_state >> 7;
    rng_state ^= rng_state << 17;
    return (uint32_t)(rng_state >> 16);
}

static void mutate(Dev *d) {
    unsigned char *p = (unsigned char *)d->value;
    for (size_t i = 0; i < d->value_size; i++) p[i] = (unsigned char)rnd();
}

static bool same_frame(const CanFrame *a, const CanFrame *b) {
    return a->id == b->id && a->dlc == b->dlc && memcmp(a->data, b->data, 8) == 0;
}

/* One scheduler call at absolute time t; returns false (after printing) on a mismatch. */
static bool step(Dev *d, uint32_t t) {
    int exp_n = 0;
    int exp_idx[MAXM];
    CanFrame exp_frame[MAXM];

    mutate(d);

    if (t != d->m_last_call) {
        d->m_last_call = t;
        for (int i = 0; i < d->n; i++) {
            long long p = d->schema_period[i];
            if (p != -1 && (uint32_t)(t - d->m_last_send[i]) >= (uint32_t)p) {
                exp_idx[exp_n] = i;
                exp_frame[exp_n] = d->enc[i]();
                exp_n++;
                d->m_last_send[i] = t;
            }
        }
    }

    got_n = 0;
    d->sched(t, sink);

    if (got_n != exp_n) {
        printf("FAIL %s: t=%u expected %d frames, got %d\n", d->name, t, exp_n, got_n);
        return false;
    }
    for (int k = 0; k < exp_n; k++) {
        int i = exp_idx[k];
        if (got[k].id != d->schema_id[i] || !same_frame(&got[k], &exp_frame[k])) {
            printf("FAIL %s: t=%u frame %d: expected message %d (id %u), got id %u or wrong payload\n",
                   d->name, t, k, i, d->schema_id[i], (unsigned)got[k].id);
            return false;
        }
        if (d->schema_period[i] == -1) {
            printf("FAIL %s: message %d has no period but was sent\n", d->name, i);
            return false;
        }
        uint32_t since = d->seen[i] ? (uint32_t)(t - d->seen_at[i]) : t;
        if (since < (uint32_t)d->schema_period[i]) {
            printf("FAIL %s: message %d sent twice within %u < %lld\n", d->name, i, since,
                   d->schema_period[i]);
            return false;
        }
        d->seen[i] = true;
        d->seen_at[i] = t;
    }
    return true;
}

static uint32_t advance(Dev *d, unsigned long long choice) {
    if (choice == WRAP_CHOICE) {
        /* non-decreasing jump to just below the wrap, then across it */
        if (d->now < 0xFFFFFFFEu) d->now = 0xFFFFFFFEu;
        else d->now += 2u;
    } else {
        d->now += (uint32_t)choice;
    }
    return d->now;
}

static bool run_history(Dev *d, const int *idx, int len) {
    for (int k = 0; k < len; k++) {
        if (!step(d, advance(d, d->choices[idx[k]]))) {
            printf("  history:");
            for (int j = 0; j <= k; j++) {
                if (d->choices[idx[j]] == WRAP_CHOICE) printf(" WRAP");
                else printf(" +%llu", d->choices[idx[j]]);
            }
            printf("\n");
            return false;
        }
    }
    return true;
}

/* Run one history from a fresh scheduler state: the statics inside the generated
 * function cannot be reset, so every history gets its own forked child. */
static bool forked_history(Dev *d, const int *idx, int len) {
    fflush(stdout);
    pid_t pid = fork();
    if (pid < 0) { perror("fork"); exit(2); }
    if (pid == 0) {
        bool ok = run_history(d, idx, len);
        fflush(stdout);
        _exit(ok ? 0 : 1);
    }
    int status = 0;
    waitpid(pid, &status, 0);
    return WIFEXITED(status) && WEXITSTATUS(status) == 0;
}

static long check_device_histories(Dev *d, int random_histories, int random_len) {
    long count = 0;
    int idx[16] = {0};

    for (int i = 0; i < d->n; i++) {
        if (d->macro_period[i] != d->schema_period[i]) {
            printf("FAIL %s: CAN_MSG_PERIOD of message %d is %lld, schema says %lld\n", d->name, i,
                   d->macro_period[i], d->schema_period[i]);
            return -1;
        }
        if (d->id[i] != d->schema_id[i]) {
            printf("FAIL %s: CAN_MSG_ID of message %d is %u, schema says %u\n", d->name, i,
                   d->id[i], d->schema_id[i]);
            return -1;
        }
    }

    /* exhaustive, every prefix length 1..hist_len is covered by the longer ones */
    for (;;) {
        if (!forked_history(d, idx, d->hist_len)) return -1;
        count++;
        int k = d->hist_len - 1;
        while (k >= 0 && ++idx[k] == d->n_choices) idx[k--] = 0;
        if (k < 0) break;
    }
    for (int r = 0; r < random_histories; r++) {
        for (int k = 0; k < random_len; k++) idx[k] = (int)(rnd() % (uint32_t)d->n_choices);
        rnd();
        if (!forked_history(d, idx, random_len)) return -1;
        count++;
    }
    return count;
}
"""


def driver_for(devs):
    out = [DRIVER_HEAD]
    for dev in devs:
        snake = pascal_to_snake(dev.c_name)
        pascal = snake_to_pascal(dev.c_name)
        out.append('#include "%s_can.h"' % dev.c_name)
        # The header of the global device does not declare its scheduler.
        out.append(
            "void can_send_%s_msgs_scheduled(const CanDevice%s *dev, uint32_t time, "
            "void (*send_can_func)(const CanFrame *));" % (snake, pascal)
        )
        out.append("static CanDevice%s value_%s;" % (pascal, snake))
        out.append(
            "static void sched_%s(uint32_t t, void (*f)(const CanFrame *)) "
            "{ can_send_%s_msgs_scheduled(&value_%s, t, f); }" % (snake, snake, snake)
        )
        encs, macros, ids = [], [], []
        for k, m in enumerate(dev.msgs):
            ms = pascal_to_snake(m.name)
            out.append(
                "static CanFrame enc_%s_%d(void) { return can_encode_msg_%s(&value_%s.%s); }"
                % (snake, k, ms, snake, ms)
            )
            encs.append("enc_%s_%d" % (snake, k))
            macros.append("CAN_MSG_PERIOD_%s" % ms.upper())
            ids.append("CAN_MSG_ID_%s" % ms.upper())
        choices = ["%dull" % d for d in deltas_for(dev)] + ["WRAP_CHOICE"]
        out.append("static CanFrame (*const encs_%s[])(void) = {%s};" % (snake, ", ".join(encs)))
        out.append("static const long long macro_period_%s[] = {%s};" % (snake, ", ".join(macros)))
        out.append(
            "static const long long schema_period_%s[] = {%s};"
            % (snake, ", ".join("%dll" % m.model_period for m in dev.msgs))
        )
        out.append("static const unsigned id_%s[] = {%s};" % (snake, ", ".join(ids)))
        out.append(
            "static const unsigned schema_id_%s[] = {%s};"
            % (snake, ", ".join("%du" % m.frame_id for m in dev.msgs))
        )
        out.append("static const unsigned long long choices_%s[] = {%s};" % (snake, ", ".join(choices)))
    out.append("static Dev devs[] = {")
    for dev in devs:
        snake = pascal_to_snake(dev.c_name)
        n_choices = len(deltas_for(dev)) + 1
        out.append(
            '  {.name = "%s", .n = %d, .macro_period = macro_period_%s, .schema_period = schema_period_%s,'
            " .id = id_%s, .schema_id = schema_id_%s, .enc = encs_%s, .sched = sched_%s,"
            " .value = &value_%s, .value_size = sizeof(value_%s), .choices = choices_%s,"
            " .n_choices = %d, .hist_len = %d},"
            % (
                dev.c_name,
                len(dev.msgs),
                snake,
                snake,
                snake,
                snake,
                snake,
                snake,
                snake,
                snake,
                snake,
                n_choices,
                history_length(n_choices),
            )
        )
    out.append("};")
    out.append(
        r"""
int main(void) {
    const int n_devs = (int)(sizeof(devs) / sizeof(devs[0]));
    long total = 0;
    for (int i = 0; i < n_devs; i++) {
        long c = check_device_histories(&devs[i], 1500, 9);
        if (c < 0) return 1;
        total += c;
    }
    /* one long walk in this very process, all devices interleaved, each with its own clock */
    long steps = 0;
    for (long s = 0; s < 400000; s++) {
        Dev *d = &devs[rnd() % (uint32_t)n_devs];
        unsigned long long choice = d->choices[rnd() % (uint32_t)d->n_choices];
        if (choice == WRAP_CHOICE && (rnd() & 7u) != 0) choice = 1; /* wrap now and then */
        if (!step(d, advance(d, choice))) return 1;
        steps++;
    }
    printf("OK histories=%ld walk_steps=%ld\n", total, steps);
    return 0;
}
"""
    )
    return "\n".join(out)


def check_config(title, devs, workdir):
    fcp = get_fcp_from_string(schema_for(devs)).unwrap()
    gen_dir = os.path.join(workdir, "gen")
    os.makedirs(gen_dir)
    Generator().gen(fcp, None, None, gen_dir)

    expected = {"can_frame.h", "can_signal_parser.h", "can_signal_parser.c"}
    for dev in devs:
        expected.add("%s_can.h" % dev.c_name)
        expected.add("%s_can.c" % pascal_to_snake(dev.c_name))
    expected.add("global_can.h")  # the enum of the prelude lives on the global device
    present = set(os.listdir(gen_dir))
    if not expected <= present:
        print("FAIL %s: missing generated files %s" % (title, sorted(expected - present)))
        return False

    for dev in devs:
        with open(os.path.join(gen_dir, "%s_can.c" % pascal_to_snake(dev.c_name))) as f:
            source = f.read()
        name = "can_send_%s_msgs_scheduled(" % pascal_to_snake(dev.c_name)
        if source.count(name) != 1:
            print("FAIL %s: %s defined %d times" % (title, name, source.count(name)))
            return False

    with open(os.path.join(workdir, "driver.c"), "w") as f:
        f.write(driver_for(devs))
    sources = [os.path.join(workdir, "driver.c")] + sorted(
        os.path.join(gen_dir, n) for n in os.listdir(gen_dir) if n.endswith(".c")
    )
    exe = os.path.join(workdir, "driver")
    cc = subprocess.run(
        [CC, "-std=gnu11", "-O1", "-Wall", "-I", gen_dir, "-o", exe] + sources,
        capture_output=True,
        text=True,
    )
    if cc.returncode != 0:
        print("FAIL %s: generated code does not compile\n%s" % (title, cc.stderr[-3000:]))
        return False
    run = subprocess.run([exe], capture_output=True, text=True, timeout=1500)
    tail = run.stdout.strip().splitlines()[-6:]
    if run.returncode != 0 or not tail or not tail[-1].startswith("OK"):
        print("FAIL %s (exit %d)\n  %s" % (title, run.returncode, "\n  ".join(tail)))
        return False
    print("ok   %-70s %s" % (title, tail[-1]))
    return True


def main():
    ok = True
    for title, devs in CONFIGS:
        workdir = tempfile.mkdtemp(prefix="c19-demo-")
        try:
            ok = check_config(title, devs, workdir) and ok
        finally:
            shutil.rmtree(workdir, ignore_errors=True)
    print("PASS" if ok else "FAIL")
    return 0 if ok else 1


if __name__ == "__main__":
    sys.exit(main())
