#!/usr/bin/env python
"""Differential demo for property C07: parsing is the inverse of printing.

A small independent printer turns schema *descriptions* (plain python data)
into FCP text in many formatting variants (whitespace, comments, optional
separators).  Every variant must parse to exactly the description, in source
order, plus one default binding per struct.  Error inputs must keep producing
the same diagnostics.  The golden schemas shipped with the repository are
replayed as well.

Finds the `fcp` package through PYTHONPATH; FCP_ROOT (default /tmp/twin-C07)
is only used to locate the golden schema files.
"""

import json
import os
import pathlib
import random
import sys
import tempfile

from fcp.parser import get_fcp, get_fcp_from_string
from fcp.error import Logger
from fcp.specs.v2 import FcpV2
from fcp.specs.struct import Struct
from fcp.specs.struct_field import StructField
from fcp.specs.enum import Enum, Enumeration
from fcp.specs.impl import Impl
from fcp.specs.signal_block import SignalBlock
from fcp.specs.service import Service
from fcp.specs.method import Method
from fcp.specs.device import Device
from fcp.specs.metadata import MetaData
from fcp.specs.type import (
    ArrayType,
    DynamicArrayType,
    OptionalType,
    StructType,
    EnumType,
    UnsignedType,
    SignedType,
    FloatType,
    DoubleType,
    StringType,
)

ROOT = pathlib.Path(os.environ.get("FCP_ROOT", "/tmp/twin-C07"))

FAILURES = []
CHECKS = 0


def check(cond, what):
    global CHECKS
    CHECKS += 1
    if not cond:
        FAILURES.append(what)
        if len(FAILURES) <= 15:
            print("FAIL:", what)


# --------------------------------------------------------------------------
# description model
#
#   type  := ("u", n) | ("i", n) | ("f32",) | ("f64",) | ("str",)
#          | ("struct", name) | ("enum", name)
#          | ("array", type, n) | ("dyn", type) | ("opt", type)
#   value := int | float | ("id", name) | ("str", text) | [value, ...]
#   item  := ("struct", name, [(fname, id, type, unit|None, (lo, hi)|None)])
#          | ("enum", name, [(ename, int)])
#          | ("impl", protocol, type, alias|None, [entry])
#                entry := ("field", key, value) | ("signal", name, [(k, v)])
#          | ("service", name, id, [(mname, input, id, output)])
#          | ("device", name, [(key, value)])
# --------------------------------------------------------------------------


def type_dict(t):
    k = t[0]
    if k == "u":
        return {"name": "u%d" % t[1], "type": "unsigned"}
    if k == "i":
        return {"name": "i%d" % t[1], "type": "signed"}
    if k == "f32":
        return {"name": "f32", "type": "float"}
    if k == "f64":
        return {"name": "f64", "type": "double"}
    if k == "str":
        return {"type": "str"}
    if k == "struct":
        return {"name": t[1], "type": "Struct"}
    if k == "enum":
        return {"name": t[1], "type": "Enum"}
    if k == "array":
        return {"underlying_type": type_dict(t[1]), "size": t[2], "type": "Array"}
    if k == "dyn":
        return {"underlying_type": type_dict(t[1]), "type": "DynamicArray"}
    if k == "opt":
        return {"underlying_type": type_dict(t[1]), "type": "Optional"}
    raise AssertionError(t)


def value_plain(v):
    if isinstance(v, tuple):
        return v[1]
    if isinstance(v, list):
        return [value_plain(x) for x in v]
    return v


def expected_dict(items):
    """The tree a faithful parser must return for the description."""
    out = {
        "structs": [],
        "enums": [],
        "impls": [],
        "services": [],
        "devices": [],
        "version": "3.0",
    }
    for item in items:
        kind = item[0]
        if kind == "struct":
            _, name, fields = item
            fds = []
            for fname, fid, ftype, unit, rng in fields:
                d = {"name": fname, "field_id": fid, "type": type_dict(ftype)}
                if unit is not None:
                    d["unit"] = unit
                if rng is not None:
                    d["min_value"] = rng[0]
                    d["max_value"] = rng[1]
                fds.append(d)
            out["structs"].append({"name": name, "fields": fds})
            out["impls"].append(
                {
                    "name": name,
                    "protocol": "default",
                    "type": name,
                    "fields": {},
                    "signals": [],
                }
            )
        elif kind == "enum":
            _, name, members = item
            out["enums"].append(
                {
                    "name": name,
                    "enumeration": [{"name": n, "value": v} for n, v in members],
                }
            )
        elif kind == "impl":
            _, protocol, type_, alias, entries = item
            fields = {}
            signals = []
            for e in entries:
                if e[0] == "field":
                    # "meta" keys are stripped from the dictionary view
                    fields[e[1]] = value_plain(e[2])
                else:
                    sf = {}
                    for k, v in e[2]:
                        sf[k] = value_plain(v)
                    sf.pop("meta", None)
                    signals.append({"name": e[1], "fields": sf})
            fields.pop("meta", None)
            out["impls"].append(
                {
                    "name": alias if alias is not None else type_,
                    "protocol": protocol,
                    "type": type_,
                    "fields": fields,
                    "signals": signals,
                }
            )
        elif kind == "service":
            _, name, sid, methods = item
            out["services"].append(
                {
                    "name": name,
                    "id": sid,
                    "methods": [
                        {"name": m, "id": mid, "input": i, "output": o}
                        for m, i, mid, o in methods
                    ],
                }
            )
        elif kind == "device":
            _, name, kvs = item
            fields = {}
            for k, v in kvs:
                fields[k] = value_plain(v)
            fields.pop("meta", None)
            out["devices"].append({"name": name, "fields": fields})
        else:
            raise AssertionError(item)
    return out


# --------------------------------------------------------------------------
# printer with formatting variants
# --------------------------------------------------------------------------

COMMENTS = [
    "/* note */",
    "/* struct X { a @0: u8, } */",
    "/**/",
    "/* multi\n line */",
    "// trailing , | ( ) { }\n",
    "//\n",
]


class Style:
    """Formatting decisions; `rng=None` gives the canonical layout."""

    def __init__(self, rng=None, comments=True):
        self.rng = rng
        self.comments = comments

    def flip(self, default=False):
        if self.rng is None:
            return default
        return self.rng.random() < 0.5

    def ws(self, must=False):
        """Separator between two tokens."""
        if self.rng is None:
            return " "
        r = self.rng.random()
        if r < 0.35:
            s = " "
        elif r < 0.5:
            s = "\n"
        elif r < 0.6:
            s = "\t"
        elif r < 0.7:
            s = " \n\t  "
        elif r < 0.8 and self.comments:
            s = " " + self.rng.choice(COMMENTS) + " "
        elif must:
            s = "  "
        else:
            s = ""
        return s


def fmt_number(v):
    if isinstance(v, float):
        return repr(v)
    return str(v)


def fmt_value(v, st):
    if isinstance(v, tuple):
        if v[0] == "id":
            return v[1]
        return '"' + v[1] + '"'
    if isinstance(v, list):
        parts = [fmt_value(x, st) for x in v]
        sep = st.ws() + "," + st.ws()
        return "[" + st.ws() + sep.join(parts) + st.ws() + "]"
    return fmt_number(v)


def fmt_type(t, st):
    k = t[0]
    if k in ("u", "i"):
        return "%s%d" % (k, t[1])
    if k in ("f32", "f64", "str"):
        return k
    if k in ("struct", "enum"):
        return t[1]
    if k == "array":
        return (
            "["
            + st.ws()
            + fmt_type(t[1], st)
            + st.ws()
            + ","
            + st.ws()
            + str(t[2])
            + st.ws()
            + "]"
        )
    if k == "dyn":
        return "[" + st.ws() + fmt_type(t[1], st) + st.ws() + "]"
    if k == "opt":
        return "Optional" + st.ws() + "[" + st.ws() + fmt_type(t[1], st) + st.ws() + "]"
    raise AssertionError(t)


def fmt_params(unit, rng, st):
    params = []
    if unit is not None:
        params.append(("unit", ['"' + unit + '"']))
    if rng is not None:
        params.append(("range", [fmt_number(rng[0]), fmt_number(rng[1])]))
    if st.flip():
        params.reverse()
    if not params:
        return "|" + st.ws() if st.flip() else ""
    out = ""
    if st.flip(True):
        out += "|" + st.ws()
    for i, (name, args) in enumerate(params):
        last = i == len(params) - 1
        body = ""
        for j, a in enumerate(args):
            body += a
            if j < len(args) - 1:
                # the separator between arguments is optional
                body += (st.ws() + "," + st.ws()) if st.flip(True) else st.ws(True)
            elif st.flip():
                body += st.ws() + ","
        out += name + st.ws() + "(" + st.ws() + body + st.ws() + ")" + st.ws()
        if not last and st.flip():
            out += "|" + st.ws()
        elif last and st.flip():
            out += "|" + st.ws()
    return out


def fmt_item(item, st):
    w = st.ws
    W = lambda: st.ws(True)  # noqa: E731
    kind = item[0]
    if kind == "struct":
        _, name, fields = item
        s = "struct" + W() + name + w() + "{" + w()
        for fname, fid, ftype, unit, rng in fields:
            s += fname + w() + "@" + w() + str(fid) + w() + ":" + w()
            s += fmt_type(ftype, st) + W()
            s += fmt_params(unit, rng, st)
            s += "," + w()
        return s + "}"
    if kind == "enum":
        _, name, members = item
        s = "enum" + W() + name + w() + "{" + w()
        for n, v in members:
            s += n + w() + "=" + w() + str(v) + w() + "," + w()
        return s + "}"
    if kind == "impl":
        _, protocol, type_, alias, entries = item
        s = "impl" + W() + protocol + W() + "for" + W() + type_ + W()
        if alias is not None:
            # the "as" keyword is optional
            if st.flip(True):
                s += "as" + W()
            s += alias + w()
        s += "{" + w()
        for e in entries:
            if e[0] == "field":
                s += e[1] + w() + ":" + w() + fmt_value(e[2], st) + w() + "," + w()
            else:
                s += "signal" + W() + e[1] + w() + "{" + w()
                for k, v in e[2]:
                    s += k + w() + ":" + w() + fmt_value(v, st) + w() + "," + w()
                s += "}" + w() + "," + w()
        return s + "}"
    if kind == "service":
        _, name, sid, methods = item
        s = "service" + W() + name + w() + "@" + w() + str(sid) + w() + "{" + w()
        for m, i, mid, o in methods:
            s += "method" + W() + m + w() + "(" + w() + i + w() + ")" + w()
            s += "@" + w() + str(mid) + W() + "returns" + W() + o + w() + "," + w()
        return s + "}"
    if kind == "device":
        _, name, kvs = item
        s = "device" + W() + name + w() + "{" + w()
        for k, v in kvs:
            s += k + w() + ":" + w() + fmt_value(v, st) + w() + "," + w()
        return s + "}"
    raise AssertionError(item)


def print_schema(items, st):
    s = st.ws() + "version" + st.ws() + ":" + st.ws() + '"3"' + st.ws(True)
    for item in items:
        s += fmt_item(item, st) + st.ws(True)
    return s


# --------------------------------------------------------------------------
# random descriptions
# --------------------------------------------------------------------------

UNITS = ["V", "m/s", "m/s^2", "%", "deg C", "kg*m", "", "a,b|c(d)", "µs"]
STRINGS = ["", "x", "hello world", "a,b", "{curly}", "pipe|d", "1.5", "ümlaut", "tab\there"]
IDENTS = ["big_endian", "little", "Foo", "_x1", "CamelCase", "a", "Z9"]


def gen_value(rng, depth=0):
    r = rng.random()
    if r < 0.3:
        return rng.choice([0, 1, -1, 7, -128, 255, 65535, 2**31, -(2**31), 2**64, 10**20])
    if r < 0.45:
        return rng.choice([0.5, -0.25, 1.5, 1e3, -2.5e-3, 3.0, 123456.789, -0.0, 1e-05])
    if r < 0.6:
        return ("str", rng.choice(STRINGS))
    if r < 0.8 or depth >= 2:
        return ("id", rng.choice(IDENTS))
    return [gen_value(rng, depth + 1) for _ in range(rng.randint(1, 4))]


def gen_type(rng, structs, enums, depth):
    leaf = depth <= 0 or rng.random() < 0.35
    if leaf:
        r = rng.random()
        if r < 0.3:
            return ("u", rng.choice([1, 2, 7, 8, 9, 13, 16, 31, 32, 33, 63, 64]))
        if r < 0.5:
            return ("i", rng.choice([2, 5, 8, 12, 16, 24, 32, 48, 64]))
        if r < 0.6:
            return ("f32",)
        if r < 0.7:
            return ("f64",)
        if r < 0.78:
            return ("str",)
        if r < 0.9 and structs:
            return ("struct", rng.choice(structs))
        if enums:
            return ("enum", rng.choice(enums))
        return ("u", 8)
    r = rng.random()
    inner = gen_type(rng, structs, enums, depth - 1)
    if r < 0.4:
        return ("array", inner, rng.choice([1, 2, 3, 8, 16, 100]))
    if r < 0.7:
        return ("dyn", inner)
    return ("opt", inner)


def gen_schema(rng, depth):
    items = []
    structs, enums, services = [], [], []
    counter = [0]

    def fresh(prefix):
        counter[0] += 1
        return "%s%d" % (prefix, counter[0])

    n_items = rng.randint(1, 9)
    for _ in range(n_items):
        r = rng.random()
        if r < 0.35 or not structs:
            name = fresh(rng.choice(["Msg", "S_", "node"]))
            fields = []
            ids = list(range(12))
            rng.shuffle(ids)
            for k in range(rng.randint(1, 5)):
                unit = rng.choice(UNITS) if rng.random() < 0.4 else None
                span = None
                if rng.random() < 0.35:
                    span = rng.choice(
                        [(0.0, 1.0), (-1.5, 2e3), (-40.0, 125.5), (1e-3, 1e9), (-0.0, 0.0)]
                    )
                fields.append(
                    (
                        rng.choice(["f", "sig_", "value"]) + str(k),
                        ids[k],
                        gen_type(rng, structs, enums, depth),
                        unit,
                        span,
                    )
                )
            items.append(("struct", name, fields))
            structs.append(name)
        elif r < 0.5:
            name = fresh(rng.choice(["En", "Kind_"]))
            members = [
                ("V%d" % k, rng.choice([k, k * 3, 2**k, 255 - k]))
                for k in range(rng.randint(1, 5))
            ]
            items.append(("enum", name, members))
            enums.append(name)
        elif r < 0.75:
            type_ = rng.choice(structs)
            alias = fresh("Alias") if rng.random() < 0.5 else None
            entries = []
            for k in range(rng.randint(1, 5)):
                if rng.random() < 0.6:
                    key = rng.choice(["id", "bus", "period", "device", "k%d" % k, "meta"])
                    entries.append(("field", key, gen_value(rng)))
                else:
                    kvs = [
                        (
                            rng.choice(["bitstart", "bitlength", "endianess", "mux", "meta"]),
                            gen_value(rng),
                        )
                        for _ in range(rng.randint(1, 3))
                    ]
                    entries.append(("signal", rng.choice(["f0", "f1", "sig_2"]), kvs))
            items.append(("impl", rng.choice(["can", "udp", "default"]), type_, alias, entries))
        elif r < 0.9:
            name = fresh("Svc")
            methods = [
                (
                    "m%d" % k,
                    rng.choice(structs),
                    rng.choice([k, 10 + k, 255]),
                    rng.choice(structs),
                )
                for k in range(rng.randint(1, 3))
            ]
            items.append(("service", name, rng.randint(0, 300), methods))
            services.append(name)
        else:
            name = fresh("dev")
            kvs = [("id", rng.randint(0, 31))]
            if services:
                kvs.append(("services", [("id", s) for s in services]))
            if rng.random() < 0.5:
                kvs.append((rng.choice(["id", "tag", "meta"]), gen_value(rng)))
            items.append(("device", name, kvs))
    return items


# --------------------------------------------------------------------------
# checks
# --------------------------------------------------------------------------


def parse(src):
    logger = Logger({}, enable_file_paths=False)
    res = get_fcp_from_string(src, logger)
    return res, logger


def parse_error_text(src):
    res, logger = parse(src)
    if res.is_ok():
        return "OK"
    return logger.error(res.err())


def check_roundtrip(items, label, variants, seed):
    want = expected_dict(items)
    texts = [print_schema(items, Style(None))]
    for v in range(variants):
        texts.append(print_schema(items, Style(random.Random(seed * 1000 + v))))
    first_tree = None
    for n, text in enumerate(texts):
        res, logger = parse(text)
        if res.is_err():
            check(False, "%s variant %d: parse error %r\n%s" % (label, n, res.err(), text))
            continue
        tree = res.unwrap()
        got = tree.to_dict()
        check(got == want, "%s variant %d: tree differs\n%s\n got %s\nwant %s" % (label, n, text, got, want))
        # key order is part of "in source order"
        check(
            json.dumps(got) == json.dumps(want) or got != want,
            "%s variant %d: ordering differs" % (label, n),
        )
        check_tree_invariants(tree, text, items, "%s variant %d" % (label, n))
        if first_tree is None:
            first_tree = got
        import serde

        check(got == reference_view(serde.to_dict(tree)), "%s variant %d: view spec" % (label, n))
        # calling the view twice does not change it, nor the tree
        check(tree.to_dict() == got, "%s variant %d: to_dict not repeatable" % (label, n))
    return want


def check_tree_invariants(tree, text, items, label):
    """Positions stored on the nodes point back into the source text."""
    structs = [i for i in items if i[0] == "struct"]
    check(len(tree.structs) == len(structs), label + ": struct count")
    defaults = [i for i in tree.impls if i.protocol == "default" and not i.fields and not i.signals and i.meta is not None and text[i.meta.start_pos:].startswith("struct")]
    check(len(defaults) == len(structs), label + ": one default binding per struct")
    for s in tree.structs:
        chunk = text[s.meta.start_pos : s.meta.end_pos]
        check(chunk.startswith("struct") and chunk.endswith("}"), label + ": struct span")
        twins = [
            i
            for i in tree.impls
            if i.meta is not None
            and i.meta.start_pos == s.meta.start_pos
            and i.meta.end_pos == s.meta.end_pos
        ]
        check(len(twins) == 1, label + ": default binding shares the struct position")
        if twins:
            d = twins[0]
            check(
                (d.name, d.protocol, d.type, d.fields, d.signals)
                == (s.name, "default", s.name, {}, []),
                label + ": default binding contents",
            )
            check(d.meta.reflection() == s.meta.reflection(), label + ": default meta")
        for f in s.fields:
            chunk = text[f.meta.start_pos : f.meta.end_pos]
            check(chunk.startswith(f.name) and chunk.endswith(","), label + ": field span")
            check(type(f.field_id) is int, label + ": field id type")
            check(
                (f.min_value is None) == (f.max_value is None), label + ": range pairing"
            )
    for i in tree.impls:
        chunk = text[i.meta.start_pos : i.meta.end_pos]
        if not chunk.startswith("struct"):
            check(chunk.startswith("impl") and chunk.endswith("}"), label + ": impl span")
        check(isinstance(i.fields, dict) and isinstance(i.signals, list), label + ": impl shapes")
        for sb in i.signals:
            check(isinstance(sb, SignalBlock), label + ": signal block type")
            chunk = text[sb.meta.start_pos : sb.meta.end_pos]
            check(chunk.startswith("signal") and chunk.endswith(","), label + ": signal span")
    for e in tree.enums:
        chunk = text[e.meta.start_pos : e.meta.end_pos]
        check(chunk.startswith("enum") and chunk.endswith("}"), label + ": enum span")
    for s in tree.services:
        chunk = text[s.meta.start_pos : s.meta.end_pos]
        check(chunk.startswith("service") and chunk.endswith("}"), label + ": service span")
        for m in s.methods:
            chunk = text[m.meta.start_pos : m.meta.end_pos]
            check(chunk.startswith("method") and chunk.endswith(","), label + ": method span")
    for d in tree.devices:
        chunk = text[d.meta.start_pos : d.meta.end_pos]
        check(chunk.startswith("device") and chunk.endswith("}"), label + ": device span")
    # reflection walks the same tree, in the same order
    refl = tree.reflection()
    check([s["name"] for s in refl["structs"]] == [s.name for s in tree.structs], label + ": reflection structs")
    check([i["name"] for i in refl["impls"]] == [i.name for i in tree.impls], label + ": reflection impls")
    for ri, i in zip(refl["impls"], tree.impls):
        check(
            ri["fields"] == [{"name": k, "value": str(v)} for k, v in i.fields.items()],
            label + ": reflection impl fields",
        )


HAND_WRITTEN = [
    # every production once, all value forms
    [
        ("enum", "Mode", [("Off", 0), ("On", 1), ("Auto", 200)]),
        ("struct", "Inner", [("x", 0, ("u", 3), None, None), ("m", 1, ("enum", "Mode"), None, None)]),
        (
            "struct",
            "Outer",
            [
                ("a", 0, ("array", ("struct", "Inner"), 4), "V", (0.0, 5.0)),
                ("b", 7, ("opt", ("dyn", ("array", ("opt", ("i", 64)), 2))), None, (-1.5, 2000.0)),
                ("c", 2, ("dyn", ("dyn", ("str",))), "m/s^2", None),
                ("d", 3, ("f64",), "", None),
                ("e", 11, ("array", ("array", ("enum", "Mode"), 3), 2), None, None),
            ],
        ),
        (
            "impl",
            "can",
            "Outer",
            "Renamed",
            [
                ("field", "id", -5),
                ("signal", "a", [("bitstart", 0), ("endianess", ("id", "big")), ("scale", 0.1)]),
                ("field", "bus", ("str", "main bus")),
                ("field", "list", [1, -2, [3.5, ("str", "x"), ("id", "y")]]),
                ("signal", "b", [("mux", ("id", "a")), ("mux", ("id", "b"))]),
                ("signal", "a", [("again", 1)]),
                ("field", "id", 7),
                ("field", "meta", ("id", "hidden")),
            ],
        ),
        ("impl", "can", "Outer", None, [("signal", "only", [("k", [("id", "Outer")])])]),
        ("impl", "default", "Inner", None, [("field", "id", 1)]),
        ("service", "Svc", 3, [("Get", "Inner", 0, "Outer"), ("Set", "Outer", -2, "Inner")]),
        (
            "device",
            "ecu",
            [("services", [("id", "Svc")]), ("id", 1), ("id", 2), ("ratio", -0.5)],
        ),
        ("struct", "Last", [("only", 5, ("struct", "Outer"), None, None)]),
    ],
    # a name declared both as struct and enum resolves to the struct
    [
        ("enum", "Both", [("A", 0)]),
        ("struct", "Both", [("v", 0, ("u", 8), None, None)]),
        ("struct", "User", [("b", 0, ("struct", "Both"), None, None)]),
    ],
    # binding whose alias is absent and whose body starts with a signal block
    [
        ("struct", "P", [("v", 0, ("u", 8), None, None)]),
        ("impl", "udp", "P", None, [("signal", "v", [("k", 1)]), ("field", "z", 0)]),
        ("impl", "udp", "P", "P2", [("signal", "v", [("k", 1)])]),
    ],
    # interleaved declarations keep per-category source order
    [
        ("struct", "A1", [("v", 0, ("u", 8), None, None)]),
        ("impl", "can", "A1", None, [("field", "id", 1)]),
        ("enum", "E1", [("X", 1)]),
        ("struct", "A2", [("v", 0, ("enum", "E1"), None, None)]),
        ("impl", "can", "A2", "Z", [("field", "id", 2)]),
        ("struct", "A3", [("v", 1, ("struct", "A2"), "u", (0.0, 1.0))]),
        ("impl", "can", "A1", "Y", [("field", "id", 3)]),
    ],
]


ERROR_CASES = [
    (
        'version: "3"\nstruct S { a @0: u8 | foo(1), }',
        "  → Error: Invalid definition in main.fcp: 'foo'\n",
    ),
    (
        'version: "3"\nstruct S { a @0: u8 | unit(), }',
        "  → Error: Invalid definition in main.fcp: list index out of range\n",
    ),
    (
        'version: "3"\nstruct S { a @0: u8 | range(1.0), }',
        "  → Error: Invalid definition in main.fcp: list index out of range\n",
    ),
    (
        'version: "3"\nstruct S { a @0: u8 | range(1.0) foo(2), }',
        "  → Error: Invalid definition in main.fcp: list index out of range\n",
    ),
    (
        'version: "3"\nstruct S { a @0: u8 | foo(2) range(1.0), }',
        "  → Error: Invalid definition in main.fcp: 'foo'\n",
    ),
    (
        'version: "3"\nstruct S { a @0: u8 | min_value(2.0), }',
        "  → Error: Invalid definition in main.fcp: 'min_value'\n",
    ),
    (
        'version: "3"\nstruct S { a @0: u8 | unit(3), }',
        "  → Error: Invalid definition in main.fcp: Method "
        "fcp.specs.struct_field.StructField.__init__() parameter unit=3 violates type "
        'hint typing.Optional[str], as int 3 not str or <class "builtins.NoneType">.\n',
    ),
    (
        'version: "3"\nstruct S { a @0: u8 | range(0, 10), }',
        "  → Error: Invalid definition in main.fcp: Method "
        "fcp.specs.struct_field.StructField.__init__() parameter min_value=0 violates "
        'type hint typing.Optional[float], as int 0 not float or <class "builtins.NoneType">.\n',
    ),
    (
        'version: "3"\nenum E {}',
        "  → Error: Invalid definition in main.fcp: Enum E as no values\n",
    ),
    (
        'version: "3"\nstruct S { a @0: T, }',
        "  → Error: Type 'T' cannot be found.\n  |\n2 | struct S { a @0: T, }\n"
        "  | ~~~~~~~~~~~~~~~~~~~~~\n  ↳ Error parsing type in struct field\n"
        "  ↳ Failed to parse field in struct S\n  ↳ Failed to parse main.fcp\n",
    ),
    (
        'version: "3"\nstruct S { a @0: [Optional[[T]], 4], }',
        "  → Error: Type 'T' cannot be found.\n  |\n2 | struct S { a @0: [Optional[[T]], 4], }\n"
        "  | ~~~~~~~~~~~~~~~~~~~~~~~~~~~~~~~~~~~~~~\n  ↳ Error parsing dynamic array type\n"
        "  ↳ Error parsing optional type\n  ↳ Error parsing array type\n"
        "  ↳ Error parsing type in struct field\n  ↳ Failed to parse field in struct S\n"
        "  ↳ Failed to parse main.fcp\n",
    ),
    (
        'version: "2"\nstruct S { a @0: u8, }',
        '  → Error: Expected IDL version 3\n  |\n1 | version: "2"\n  | ~~~~~~~~~~~~\n'
        "  ↳ Failed to parse main.fcp\n",
    ),
    # a struct may not use a type declared after it
    (
        'version: "3"\nstruct S { a @0: Later, }\nstruct Later { a @0: u8, }',
        "  → Error: Type 'Later' cannot be found.\n  |\n2 | struct S { a @0: Later, }\n"
        "  | ~~~~~~~~~~~~~~~~~~~~~~~~~\n  ↳ Error parsing type in struct field\n"
        "  ↳ Failed to parse field in struct S\n  ↳ Failed to parse main.fcp\n",
    ),
]


def strip_colors(s):
    import re

    return re.sub(r"\x1b\[[0-9;]*m", "", s)


def check_errors():
    for src, want in ERROR_CASES:
        for _ in range(2):  # repeated calls give the same diagnostics
            got = strip_colors(parse_error_text(src))
            check(got == want, "error case %r:\n got %r\nwant %r" % (src, got, want))
    # syntax errors are errors, whatever the text
    for src in [
        "",
        'version: "3"\nstruct {',
        'version: "3"\nstruct S { a @0: u8 }',
        'version: "3"\nimpl can for { id: 1, }',
        'version: "3"\nstruct S { a @0: u8, }\nimpl can for S { }',
        'version: "3"\ndevice d { }',
    ]:
        res, _ = parse(src)
        check(res.is_err(), "syntax error not reported for %r" % src)


def check_golden():
    """Replay the parser tests that ship with the repository."""
    base = ROOT / "tests" / "schemas"
    names = sorted(p.stem for p in (base / "syntax").glob("*.fcp"))
    check(len(names) >= 11, "golden syntax schemas found")
    for name in names:
        tree = get_fcp(base / "syntax" / (name + ".fcp")).unwrap()
        with open(base / "syntax" / (name + ".json")) as f:
            want = json.load(f)
        check(tree.to_dict() == want, "golden syntax %s" % name)
    names = sorted(p.stem for p in (base / "error").glob("*.fcp"))
    check(len(names) >= 13, "golden error schemas found")
    for name in names:
        logger = Logger({}, enable_file_paths=False)
        res = get_fcp(base / "error" / (name + ".fcp"), logger)
        with open(base / "error" / (name + ".txt")) as f:
            want = f.read()
        check(res.is_err() and logger.error(res.err()) == want, "golden error %s" % name)


def check_modules():
    """`mod a.b;` splices the imported declarations in at that position."""
    with tempfile.TemporaryDirectory() as tmp:
        tmp = pathlib.Path(tmp)
        (tmp / "sub").mkdir()
        (tmp / "sub" / "defs.fcp").write_text(
            'version: "3"\nenum Col { R = 0, G = 1, }\n'
            'struct Px { c @0: Col | unit("rgb"), }\n'
            "impl can for Px as PxCan { id: 9, signal c { bitstart: 3, }, }\n"
        )
        (tmp / "main.fcp").write_text(
            'version: "3"\nstruct Before { v @0: u8, }\nmod sub.defs;\n'
            "struct After { p @0: [Px, 2], q @1: Optional[Col], }\n"
            "impl can for After { id: 10, }\n"
        )
        tree = get_fcp(tmp / "main.fcp").unwrap()
        got = tree.to_dict()
        check([s["name"] for s in got["structs"]] == ["Before", "Px", "After"], "mod: struct order")
        check(
            [(i["name"], i["protocol"]) for i in got["impls"]]
            == [
                ("Before", "default"),
                ("Px", "default"),
                ("PxCan", "can"),
                ("After", "default"),
                ("After", "can"),
            ],
            "mod: impl order %s" % got["impls"],
        )
        check(got["impls"][2]["signals"] == [{"name": "c", "fields": {"bitstart": 3}}], "mod: signals")
        check(got["structs"][1]["fields"][0]["unit"] == "rgb", "mod: unit")
        check(
            got["structs"][2]["fields"][0]["type"]
            == {"underlying_type": {"name": "Px", "type": "Struct"}, "size": 2, "type": "Array"},
            "mod: imported struct type",
        )
        check(
            got["structs"][2]["fields"][1]["type"]
            == {"underlying_type": {"name": "Col", "type": "Enum"}, "type": "Optional"},
            "mod: imported enum type",
        )
        (tmp / "broken.fcp").write_text('version: "3"\nmod sub.nothing;\n')
        logger = Logger({}, enable_file_paths=False)
        res = get_fcp(tmp / "broken.fcp", logger)
        check(
            res.is_err()
            and strip_colors(logger.error(res.err()))
            == "  → Error: File not found: nothing.fcp\n  ↳ Failed to parse broken.fcp\n",
            "mod: missing file diagnostic",
        )


def reference_view(raw):
    """Specification of the dictionary view: drop unset entries, then drop
    every "meta" entry, at any depth of dicts and lists."""

    def walk(tree, keep):
        if isinstance(tree, dict):
            return {k: walk(v, keep) for k, v in tree.items() if keep(k, v)}
        if isinstance(tree, list):
            return [walk(x, keep) for x in tree]
        return tree

    return walk(walk(raw, lambda k, v: v is not None), lambda k, v: k != "meta")


def gen_blob(rng, depth=0):
    r = rng.random()
    if depth >= 4 or r < 0.35:
        return rng.choice([None, 0, 1, -7, 2.5, "", "meta", "x", True, (1, None), ("meta",)])
    if r < 0.7:
        keys = rng.sample(["meta", "a", "b", "none", "Meta", "meta_", "k", 3], rng.randint(0, 5))
        return {k: gen_blob(rng, depth + 1) for k in keys}
    return [gen_blob(rng, depth + 1) for _ in range(rng.randint(0, 4))]


def check_random_views():
    import serde

    rng = random.Random(77)
    meta = MetaData(1, 1, 1, 2, 0, 1, "m.fcp")
    for n in range(200):
        tree = FcpV2(
            structs=[Struct("S", [StructField("a", n, UnsignedType("u8"), meta=meta)], meta)],
            impls=[
                Impl("S", "default", "S", {}, [], meta),
                Impl(
                    "S",
                    "can",
                    "S",
                    {"k%d" % i: gen_blob(rng) for i in range(rng.randint(0, 4))},
                    [SignalBlock("a", {"meta": gen_blob(rng), "v": gen_blob(rng)}, meta)],
                    meta if rng.random() < 0.5 else None,
                ),
            ],
            devices=[Device("d", {"blob": gen_blob(rng), "meta": gen_blob(rng)}, meta)],
        )
        raw = serde.to_dict(tree)
        want = reference_view(raw)
        got = tree.to_dict()
        check(got == want, "random view %d\n got %s\nwant %s" % (n, got, want))
        check(repr(got) == repr(want), "random view %d ordering/types" % n)
        check(serde.to_dict(tree) == raw, "random view %d: tree untouched" % n)


def check_handbuilt_views():
    """The dictionary view of trees that were built by hand, not parsed."""
    meta = MetaData(1, 2, 3, 4, 5, 6, "x.fcp")
    tree = FcpV2(
        structs=[
            Struct(
                "S",
                [
                    StructField("a", 0, UnsignedType("u8")),
                    StructField("b", 1, ArrayType(OptionalType(SignedType("i7")), 3), unit="V", meta=meta),
                    StructField("c", 2, DynamicArrayType(StructType("S")), min_value=-1.0, max_value=1.0),
                    StructField("d", 3, EnumType("E"), max_value=2.0),
                    StructField("e", 4, FloatType(), unit=""),
                    StructField("f", 5, DoubleType()),
                    StructField("g", 6, StringType()),
                ],
                meta,
            )
        ],
        enums=[Enum("E", [Enumeration("A", 0), Enumeration("B", 5, meta)], meta)],
        impls=[
            Impl("S", "default", "S", {}, [], meta),
            Impl(
                "T",
                "can",
                "S",
                {"id": 1, "none": None, "meta": 5, "nested": {"meta": 1, "x": None, "y": [{"meta": 2, "z": 0}, None]}},
                [SignalBlock("a", {"k": [1, None], "meta": "m", "n": None}, meta)],
                None,
            ),
        ],
        services=[Service("Sv", 1, [Method("m", 0, "S", "S", meta)], None)],
        devices=[Device("d", {"id": 0, "meta": [1], "opt": None}, meta)],
    )
    want = {
        "structs": [
            {
                "name": "S",
                "fields": [
                    {"name": "a", "field_id": 0, "type": {"name": "u8", "type": "unsigned"}},
                    {
                        "name": "b",
                        "field_id": 1,
                        "type": {
                            "underlying_type": {
                                "underlying_type": {"name": "i7", "type": "signed"},
                                "type": "Optional",
                            },
                            "size": 3,
                            "type": "Array",
                        },
                        "unit": "V",
                    },
                    {
                        "name": "c",
                        "field_id": 2,
                        "type": {
                            "underlying_type": {"name": "S", "type": "Struct"},
                            "type": "DynamicArray",
                        },
                        "min_value": -1.0,
                        "max_value": 1.0,
                    },
                    {"name": "d", "field_id": 3, "type": {"name": "E", "type": "Enum"}, "max_value": 2.0},
                    {"name": "e", "field_id": 4, "type": {"name": "f32", "type": "float"}, "unit": ""},
                    {"name": "f", "field_id": 5, "type": {"name": "f64", "type": "double"}},
                    {"name": "g", "field_id": 6, "type": {"type": "str"}},
                ],
            }
        ],
        "enums": [
            {"name": "E", "enumeration": [{"name": "A", "value": 0}, {"name": "B", "value": 5}]}
        ],
        "impls": [
            {"name": "S", "protocol": "default", "type": "S", "fields": {}, "signals": []},
            {
                "name": "T",
                "protocol": "can",
                "type": "S",
                "fields": {"id": 1, "nested": {"y": [{"z": 0}, None]}},
                "signals": [{"name": "a", "fields": {"k": [1, None]}}],
            },
        ],
        "services": [
            {"name": "Sv", "id": 1, "methods": [{"name": "m", "id": 0, "input": "S", "output": "S"}]}
        ],
        "devices": [{"name": "d", "fields": {"id": 0}}],
        "version": "3.0",
    }
    got = tree.to_dict()
    check(got == want, "hand-built view\n got %s\nwant %s" % (got, want))
    check(json.dumps(got) == json.dumps(want), "hand-built view ordering")
    check(tree.to_dict() == want, "hand-built view repeatable")
    check(tree.impls[1].fields["none"] is None and "meta" in tree.impls[1].fields, "view leaves the tree alone")
    check(FcpV2().to_dict() == {"structs": [], "enums": [], "impls": [], "services": [], "devices": [], "version": "3.0"}, "empty view")
    # lookups used while resolving composed types
    check(tree.get_struct("S").is_some() and tree.get_struct("S").unwrap() is tree.structs[0], "get_struct")
    check(tree.get_struct("E").is_nothing() and tree.get_enum("S").is_nothing(), "lookups by kind")
    check(tree.get_enum("E").unwrap() is tree.enums[0], "get_enum")


def main():
    check_handbuilt_views()
    check_random_views()
    check_golden()
    check_errors()
    check_modules()

    for n, items in enumerate(HAND_WRITTEN):
        check_roundtrip(items, "hand-written %d" % n, variants=12, seed=900 + n)

    rng = random.Random(20241007)
    n_random = int(os.environ.get("C07_CASES", "60"))
    for n in range(n_random):
        items = gen_schema(rng, depth=rng.randint(0, 4))
        check_roundtrip(items, "random %d" % n, variants=3, seed=n)

    # formatting without comments, and the same text parsed twice
    items = HAND_WRITTEN[0]
    text = print_schema(items, Style(random.Random(5), comments=False))
    a = parse(text)[0].unwrap().to_dict()
    b = parse(text)[0].unwrap().to_dict()
    check(a == b == expected_dict(items), "repeated parse of the same text")

    print("checks: %d, failures: %d" % (CHECKS, len(FAILURES)))
    if FAILURES:
        print("FAIL")
        return 1
    print("PASS")
    return 0


if __name__ == "__main__":
    sys.exit(main())
