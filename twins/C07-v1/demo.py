#!/venv/bin/python
"""C07 demo 1: a renamed protocol binding must keep its struct and its own name.

`impl can for Frame as FrameFast { ... }` declares a binding called
`FrameFast` of the struct `Frame`.  The parsed tree must say exactly that,
however the rename is written (`as` is an optional separator) and next to an
unrenamed binding of the same struct.
"""
import sys

from fcp.parser import get_fcp_from_string

SCHEMA = """version: "3"

struct Frame {
    speed @0: u16 | unit("km/h"),
    gear @1: i8,
}

impl can for Frame {
    id: 16,
}

impl can for Frame as FrameFast {
    id: 17,
    period: 0.5,
    signal speed {
        scale: 0.1,
        offset: -40,
    },
}

impl can for Frame FrameSlow {
    id: 18,
    tags: [slow, "rare"],
}
"""

EXPECTED = [
    # (name, protocol, type, fields, signals)
    ("Frame", "default", "Frame", {}, []),
    ("Frame", "can", "Frame", {"id": 16}, []),
    (
        "FrameFast",
        "can",
        "Frame",
        {"id": 17, "period": 0.5},
        [("speed", {"scale": 0.1, "offset": -40})],
    ),
    ("FrameSlow", "can", "Frame", {"id": 18, "tags": ["slow", "rare"]}, []),
]


def main() -> int:
    result = get_fcp_from_string(SCHEMA)
    if result.is_err():
        print("FAIL: schema rejected:", result.err())
        return 1
    fcp = result.unwrap()

    got = [
        (
            i.name,
            i.protocol,
            i.type,
            dict(i.fields),
            [(s.name, dict(s.fields)) for s in i.signals],
        )
        for i in fcp.impls
    ]

    ok = True
    if len(got) != len(EXPECTED):
        print(f"FAIL: expected {len(EXPECTED)} bindings, found {len(got)}")
        ok = False
    for want, have in zip(EXPECTED, got):
        if want != have:
            print("FAIL: binding differs from the source")
            print("   declared:", want)
            print("   parsed  :", have)
            ok = False

    # every binding must point at a declared struct
    names = {s.name for s in fcp.structs}
    for i in fcp.impls:
        if i.type not in names:
            print(f"FAIL: binding {i.name!r} is bound to unknown struct {i.type!r}")
            ok = False

    if not ok:
        return 1
    print("PASS")
    return 0


if __name__ == "__main__":
    sys.exit(main())
