#!/venv/bin/python
"""C15 demo 3: the packed CAN layout and the DBC must not depend on the declaration order.

The same message is written twice: fields declared in ascending id, and the same
fields (same ids) declared in another order, also inside the nested struct. The
packed encoder has to hand out the same list of pieces (ascending field id, the
order its consumers rely on) and the DBC plug-in has to produce the same file.

Prints PASS / exits 0 when that holds, prints FAIL / exits 1 otherwise.
"""

import sys

from fcp.parser import get_fcp_from_string
from fcp.encoding import make_encoder, PackedEncoderContext
from fcp_dbc.dbc_writer import write_dbc

ASCENDING = """version: "3"

struct Inner {
    a @0: u8,
    b @1: u16,
}

struct Foo {
    s1 @0: u8,
    s2 @1: Inner,
    s3 @2: [u4, 2],
    s4 @3: u16,
}

impl can for Foo {
    id: 10,
}
"""

PERMUTED = """version: "3"

struct Inner {
    b @1: u16,
    a @0: u8,
}

struct Foo {
    s4 @3: u16,
    s3 @2: [u4, 2],
    s1 @0: u8,
    s2 @1: Inner,
}

impl can for Foo {
    id: 10,
}
"""

# (name, bitstart, bitlength), fields in ascending field id
EXPECTED = [
    ("s1", 0, 8),
    ("s2::a", 8, 8),
    ("s2::b", 16, 16),
    ("s3_0", 32, 4),
    ("s3_1", 36, 4),
    ("s4", 40, 16),
]


def layout(source):
    fcp = get_fcp_from_string(source).unwrap()
    encoder = make_encoder(
        "packed", fcp, PackedEncoderContext().with_unroll_arrays(True)
    )
    (impl,) = list(fcp.get_matching_impls("can"))
    return [(v.name, v.bitstart, v.bitlength) for v in encoder.generate(impl)]


def dbc(source):
    fcp = get_fcp_from_string(source).unwrap()
    try:
        result = write_dbc(fcp)
        if result.is_err():
            return "error: " + str(result)
        return repr(result.unwrap())
    except Exception as e:  # noqa: BLE001
        return "exception: " + type(e).__name__ + ": " + str(e)


def main() -> int:
    failures = []

    for spelling, source in (("ascending", ASCENDING), ("permuted", PERMUTED)):
        pieces = layout(source)
        if pieces != EXPECTED:
            failures.append(f"{spelling}: packed layout is {pieces}")

    reference = dbc(ASCENDING)
    if "BO_ 10 Foo: 7 " not in reference:
        failures.append("ascending: unexpected dbc " + reference[-300:])
    permuted = dbc(PERMUTED)
    if permuted != reference:
        failures.append("permuted: dbc differs from the ascending one: " + permuted[-200:])

    if failures:
        print("FAIL")
        for failure in failures:
            print("  ", failure)
        return 1

    print("PASS")
    return 0


if __name__ == "__main__":
    sys.exit(main())
