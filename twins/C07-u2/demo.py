#!/venv/bin/python
"""Differential demo for property C07: parsing is the inverse of printing.

Random schema descriptions are printed to FCP text in several formatting
variants (whitespace, comments, optional separators), parsed with the parser
found through PYTHONPATH and compared with the description they were printed
from.  A set of ill-formed inputs is checked against the exact error text the
parser reports for them.  Prints PASS and exits 0 when everything agrees.
"""

import os
import re
import sys
import random
import pathlib
import tempfile

os.environ["NO_COLOR"] = "1"
os.environ.pop("FORCE_COLOR", None)

from fcp.parser import get_fcp, get_fcp_from_string  # noqa: E402
from fcp.error import Logger  # noqa: E402

FAILURES = []


def check(cond, what):
    if not cond:
        FAILURES.append(what)
        if len(FAILURES) <= 10:
            print("FAIL:", what)


# --------------------------------------------------------------------------
# description -> expected tree (the shape FcpV2.to_dict() produces)
# --------------------------------------------------------------------------


def type_dict(t):
    kind = t[0]
    if kind == "u":
        return {"name": "u%d" % t[1], "type": "unsigned"}
    if kind == "i":
        return {"name": "i%d" % t[1], "type": "signed"}
    if kind == "f32":
        return {"name": "f32", "type": "float"}
    if kind == "f64":
        return {"name": "f64", "type": "double"}
    if kind == "str":
        return {"type": "str"}
    if kind == "struct":
        return {"name": t[1], "type": "Struct"}
    if kind == "enum":
        return {"name": t[1], "type": "Enum"}
    if kind == "array":
        return {"underlying_type": type_dict(t[1]), "size": t[2], "type": "Array"}
    if kind == "dyn":
        return {"underlying_type": type_dict(t[1]), "type": "DynamicArray"}
    if kind == "opt":
        return {"underlying_type": type_dict(t[1]), "type": "Optional"}
    raise AssertionError(kind)


def value_py(v):
    kind = v[0]
    if kind in ("int", "float", "str", "ident"):
        return v[1]
    if kind == "array":
        return [value_py(x) for x in v[1]]
    raise AssertionError(kind)


def expected_tree(desc):
    structs, enums, impls, services, devices = [], [], [], [], []
    for item in desc:
        kind = item[0]
        if kind == "struct":
            _, name, fields = item
            out = []
            for fname, fid, ftype, unit, rng in fields:
                d = {"name": fname, "field_id": fid, "type": type_dict(ftype)}
                if unit is not None:
                    d["unit"] = unit
                if rng is not None:
                    d["min_value"] = value_py(rng[0])
                    d["max_value"] = value_py(rng[1])
                out.append(d)
            structs.append({"name": name, "fields": out})
            impls.append(
                {
                    "name": name,
                    "protocol": "default",
                    "type": name,
                    "fields": {},
                    "signals": [],
                }
            )
        elif kind == "enum":
            _, name, members = item
            enums.append(
                {
                    "name": name,
                    "enumeration": [{"name": n, "value": v} for n, v in members],
                }
            )
        elif kind == "impl":
            _, protocol, typ, rename, body = item
            fields, signals = {}, []
            for entry in body:
                if entry[0] == "ext":
                    fields[entry[1]] = value_py(entry[2])
                else:
                    signals.append(
                        {
                            "name": entry[1],
                            "fields": {k: value_py(v) for k, v in entry[2]},
                        }
                    )
            impls.append(
                {
                    "name": rename if rename is not None else typ,
                    "protocol": protocol,
                    "type": typ,
                    "fields": fields,
                    "signals": signals,
                }
            )
        elif kind == "service":
            _, name, sid, methods = item
            services.append(
                {
                    "name": name,
                    "id": sid,
                    "methods": [
                        {"name": n, "id": i, "input": a, "output": b}
                        for n, a, i, b in methods
                    ],
                }
            )
        elif kind == "device":
            _, name, fields = item
            devices.append({"name": name, "fields": {k: value_py(v) for k, v in fields}})
        else:
            raise AssertionError(kind)
    return {
        "structs": structs,
        "enums": enums,
        "impls": impls,
        "services": services,
        "devices": devices,
        "version": "3.0",
    }


def ordered(x):
    """Order-sensitive image of a tree: dicts keep their key order as a list."""
    if isinstance(x, dict):
        return ("dict", [(k, ordered(v)) for k, v in x.items()])
    if isinstance(x, list):
        return ("list", [ordered(v) for v in x])
    return (type(x).__name__, x)


def ext_field_orders(tree):
    """Key order of every extension-field mapping (source order matters)."""
    out = []
    for impl in tree["impls"]:
        out.append(list(impl["fields"].keys()))
        for sig in impl["signals"]:
            out.append(list(sig["fields"].keys()))
    for dev in tree["devices"]:
        out.append(list(dev["fields"].keys()))
    return out


def typed(x):
    """Tree with the python type of each scalar made explicit (1 != 1.0)."""
    if isinstance(x, dict):
        return {k: typed(v) for k, v in x.items()}
    if isinstance(x, list):
        return [typed(v) for v in x]
    return (type(x).__name__, x)


# --------------------------------------------------------------------------
# description -> token list -> text in a formatting variant
# --------------------------------------------------------------------------

PUNCT = set("{}[]():,@=|;.")


class Style:
    def __init__(self, rng, mode):
        self.rng = rng
        self.mode = mode  # canonical | dense | airy | comments | random

    def opt(self):
        """Whether to print an optional separator."""
        if self.mode == "canonical":
            return True
        if self.mode == "dense":
            return False
        return self.rng.random() < 0.5

    def sep(self, left, right):
        words = left not in PUNCT and right not in PUNCT
        if self.mode == "canonical":
            if right in (",", ":", ")", "]", "(", ";", ".") or left in ("(", "[", "@", "."):
                return ""
            if left in ("{", ",", ";"):
                return "\n"
            return " "
        if self.mode == "dense":
            return " " if words else ""
        if self.mode == "airy":
            return self.rng.choice([" ", "  ", "\n", "\t", " \n\t "])
        choices = [" ", "\n", "\t", " /* c */ ", " // c\n", "/**/", "\n\n"]
        if not words:
            choices.append("")
        if self.mode == "comments":
            return self.rng.choice([" /* struct enum { */ ", " // impl x for y {\n", "/* , */"])
        return self.rng.choice(choices)


def value_tokens(v, st):
    kind = v[0]
    if kind == "int":
        return [str(v[1])]
    if kind == "float":
        return [repr(v[1])]
    if kind == "str":
        return ['"%s"' % v[1]]
    if kind == "ident":
        return [v[1]]
    toks = ["["]
    for i, x in enumerate(v[1]):
        if i:
            toks.append(",")
        toks += value_tokens(x, st)
    return toks + ["]"]


def type_tokens(t):
    kind = t[0]
    if kind in ("u", "i"):
        return ["%s%d" % (kind, t[1])]
    if kind in ("f32", "f64", "str"):
        return [kind]
    if kind in ("struct", "enum"):
        return [t[1]]
    if kind == "array":
        return ["["] + type_tokens(t[1]) + [",", str(t[2]), "]"]
    if kind == "dyn":
        return ["["] + type_tokens(t[1]) + ["]"]
    if kind == "opt":
        return ["Optional", "["] + type_tokens(t[1]) + ["]"]
    raise AssertionError(kind)


def ext_tokens(name, v, st):
    return [name, ":"] + value_tokens(v, st) + [","]


def tokens(desc, st):
    toks = ["version", ":", '"3"']
    for item in desc:
        kind = item[0]
        if kind == "struct":
            _, name, fields = item
            toks += ["struct", name, "{"]
            for fname, fid, ftype, unit, rng in fields:
                toks += [fname, "@", str(fid), ":"] + type_tokens(ftype)
                params = []
                if unit is not None:
                    params.append(("unit", [("str", unit)]))
                if rng is not None:
                    params.append(("range", list(rng)))
                if st.rng.random() < 0.5:
                    params.reverse()
                if st.opt() or not params and st.rng.random() < 0.3:
                    toks.append("|")
                for pname, pargs in params:
                    # the parentheses stay: without them the next parameter
                    # name could be read as one more identifier argument
                    toks += [pname, "("]
                    for i, a in enumerate(pargs):
                        toks += value_tokens(a, st)
                        if i + 1 < len(pargs):
                            toks.append(",") if st.opt() else None
                        elif st.mode == "random" and st.opt():
                            toks.append(",")
                    toks.append(")")
                    if st.opt():
                        toks.append("|")
                toks.append(",")
            toks.append("}")
        elif kind == "enum":
            _, name, members = item
            toks += ["enum", name, "{"]
            for n, v in members:
                toks += [n, "=", str(v), ","]
            toks.append("}")
        elif kind == "impl":
            _, protocol, typ, rename, body = item
            toks += ["impl", protocol, "for", typ]
            if rename is not None:
                if st.opt():
                    toks.append("as")
                toks.append(rename)
            toks.append("{")
            for entry in body:
                if entry[0] == "ext":
                    toks += ext_tokens(entry[1], entry[2], st)
                else:
                    toks += ["signal", entry[1], "{"]
                    for k, v in entry[2]:
                        toks += ext_tokens(k, v, st)
                    toks += ["}", ","]
            toks.append("}")
        elif kind == "service":
            _, name, sid, methods = item
            toks += ["service", name, "@", str(sid), "{"]
            for n, a, i, b in methods:
                toks += ["method", n, "(", a, ")", "@", str(i), "returns", b, ","]
            toks.append("}")
        elif kind == "device":
            _, name, fields = item
            toks += ["device", name, "{"]
            for k, v in fields:
                toks += ext_tokens(k, v, st)
            toks.append("}")
    return toks


def render(desc, st):
    toks = tokens(desc, st)
    out = [toks[0]]
    for left, right in zip(toks, toks[1:]):
        out.append(st.sep(left, right))
        out.append(right)
    lead = "" if st.mode in ("canonical", "dense") else st.sep("{", "{")
    return lead + "".join(out) + ("\n" if st.mode != "dense" else "")


# --------------------------------------------------------------------------
# random descriptions
# --------------------------------------------------------------------------


def gen_value(rng, depth=0):
    r = rng.random()
    if r < 0.3:
        return ("int", rng.choice([0, 1, -1, 7, -128, 255, 2**31, -(2**63), 2**64 - 1, rng.randrange(-999, 999)]))
    if r < 0.45:
        return ("float", rng.choice([0.5, -0.5, 1.0, -273.15, 1e-3, 2.5e10, 100.25, rng.randrange(-999, 999) / 8]))
    if r < 0.6:
        return ("str", rng.choice(["", "m/s", "deg C", "a b  c", "x=1; y=2", "%", "[1,2]", "impl x for y", "it's"]))
    if r < 0.8 or depth >= 2:
        return ("ident", rng.choice(["big", "little", "true", "Node", "sensor_1", "_x", "A1"]))
    return ("array", [gen_value(rng, depth + 1) for _ in range(rng.randrange(1, 4))])


def gen_type(rng, structs, enums, depth):
    r = rng.random()
    if depth > 0 and r < 0.45:
        k = rng.choice(["array", "dyn", "opt"])
        inner = gen_type(rng, structs, enums, depth - 1)
        if k == "array":
            return ("array", inner, rng.choice([1, 2, 3, 8, 16, 255]))
        return (k, inner)
    r = rng.random()
    if r < 0.25:
        return ("u", rng.choice([1, 7, 8, 9, 16, 32, 63, 64]))
    if r < 0.45:
        return ("i", rng.choice([2, 8, 13, 16, 32, 64]))
    if r < 0.55:
        return (rng.choice(["f32", "f64", "str"]),)
    if r < 0.8 and structs:
        return ("struct", rng.choice(structs))
    if enums:
        return ("enum", rng.choice(enums))
    return ("u", 8)


def gen_desc(rng, depth):
    desc, structs, enums = [], [], []
    counter = [0]

    def fresh(prefix):
        counter[0] += 1
        return "%s%d" % (prefix, counter[0])

    def ext_list(n):
        return [(fresh(rng.choice(["id", "key", "bitstart", "endianness"])), gen_value(rng)) for _ in range(n)]

    for _ in range(rng.randrange(1, 9)):
        r = rng.random()
        if not structs:
            r = r * 0.6  # nothing to bind or call yet: declare a type
        if r < 0.4:
            name = fresh(rng.choice(["Msg", "Packet", "S"]))
            fields = []
            ids = list(range(12))
            rng.shuffle(ids)
            for k in range(rng.randrange(1, 6)):
                unit = rng.choice([None, None, "m", "km/h", "deg C", ""])
                rg = None
                if rng.random() < 0.3:
                    rg = (
                        # bounds are floats: the field constructor refuses ints
                        rng.choice([("float", -5.0), ("float", -1.5), ("float", 0.0), ("float", 0.125)]),
                        rng.choice([("float", 10.0), ("float", 65535.0), ("float", 99.75), ("float", 1e6)]),
                    )
                fields.append((fresh("f"), ids[k], gen_type(rng, structs, enums, depth), unit, rg))
            desc.append(("struct", name, fields))
            structs.append(name)
        elif r < 0.6:
            name = fresh(rng.choice(["E", "Mode", "State"]))
            members = [(fresh("V"), rng.choice([k, k * 3, 255 - k, 2**16 + k])) for k in range(rng.randrange(1, 5))]
            desc.append(("enum", name, members))
            enums.append(name)
        elif r < 0.8:
            typ = rng.choice(structs)
            rename = rng.choice([None, None, fresh("Alias")])
            body = []
            for _ in range(rng.randrange(1, 5)):
                if rng.random() < 0.6:
                    body += [("ext",) + e for e in ext_list(1)]
                else:
                    body.append(("signal", fresh("sig"), ext_list(rng.randrange(1, 4))))
            desc.append(("impl", rng.choice(["can", "uds", "proto_2"]), typ, rename, body))
        elif r < 0.9:
            methods = [
                (fresh("Call"), rng.choice(structs), k * 2, rng.choice(structs))
                for k in range(rng.randrange(1, 4))
            ]
            desc.append(("service", fresh("Srv"), rng.randrange(0, 300), methods))
        else:
            desc.append(("device", fresh("ecu"), ext_list(rng.randrange(1, 4))))
    return desc


def parse_text(text):
    return get_fcp_from_string(text, Logger({}, enable_file_paths=False))


def run_roundtrips():
    rng = random.Random(20240707)
    n = 0
    for case in range(60):
        desc = gen_desc(rng, depth=case % 4)
        want = expected_tree(desc)
        for mode in ("canonical", "dense", "airy", "comments", "random", "random"):
            text = render(desc, Style(rng, mode))
            res = parse_text(text)
            if not res.is_ok():
                check(False, "case %d/%s does not parse: %r\n%s" % (case, mode, res, text))
                continue
            got = res.unwrap().to_dict()
            check(typed(got) == typed(want), "case %d/%s: tree differs\n%s\n got %r\nwant %r" % (case, mode, text, got, want))
            check(ext_field_orders(got) == ext_field_orders(want), "case %d/%s: extension field order differs" % (case, mode))
            n += 1
            if mode == "canonical":
                # repeated calls give equal, independent trees
                again = parse_text(text).unwrap()
                check(again.to_dict() == got, "case %d: second parse differs" % case)
                check(again is not res.unwrap() and again.structs is not res.unwrap().structs, "case %d: shared state" % case)
    return n


# --------------------------------------------------------------------------
# hand-written texts: lookups, shadowing, order of declarations
# --------------------------------------------------------------------------

FIXED = {
    "struct wins over enum of the same name": (
        'version: "3"\nenum T { A = 0, }\nstruct T { a @0: u8, }\nstruct U { t @0: T, o @1: Optional[[T, 2]], }\n',
        lambda d: d["structs"][1]["fields"][0]["type"] == {"name": "T", "type": "Struct"}
        and d["structs"][1]["fields"][1]["type"]["underlying_type"]["underlying_type"] == {"name": "T", "type": "Struct"},
    ),
    "enum before struct of the same name is an enum until the struct exists": (
        'version: "3"\nenum T { A = 0, }\nstruct U { t @0: T, }\nstruct T { a @0: u8, }\nstruct W { t @0: T, }\n',
        lambda d: d["structs"][0]["fields"][0]["type"] == {"name": "T", "type": "Enum"}
        and d["structs"][2]["fields"][0]["type"] == {"name": "T", "type": "Struct"},
    ),
    "self reference is not yet declared": (
        'version: "3"\nstruct A { a @0: u8, }\nstruct A { b @0: A, c @1: [A], }\n',
        lambda d: [s["name"] for s in d["structs"]] == ["A", "A"]
        and d["structs"][1]["fields"][0]["type"] == {"name": "A", "type": "Struct"}
        and [i["name"] for i in d["impls"]] == ["A", "A"],
    ),
    "impl with and without as, fields and signals interleaved": (
        'version: "3"\nstruct A { a @0: u8, }\n'
        'impl can for A as B { id: 1, signal a { bitstart: 0, }, dlc: [1, [2, x], "s"], signal a { k: -1.5, }, id: 2, }\n'
        "impl can for A C { signal s { z: z, }, }\nimpl can for A { x: impl, }\n",
        lambda d: d["impls"][1]
        == {
            "name": "B",
            "protocol": "can",
            "type": "A",
            "fields": {"id": 2, "dlc": [1, [2, "x"], "s"]},
            "signals": [{"name": "a", "fields": {"bitstart": 0}}, {"name": "a", "fields": {"k": -1.5}}],
        }
        and list(d["impls"][1]["fields"]) == ["id", "dlc"]
        and d["impls"][2] == {"name": "C", "protocol": "can", "type": "A", "fields": {}, "signals": [{"name": "s", "fields": {"z": "z"}}]}
        and d["impls"][3] == {"name": "A", "protocol": "can", "type": "A", "fields": {"x": "impl"}, "signals": []},
    ),
    "device keeps last duplicate and first position": (
        'version: "3"\ndevice d { a: 1, b: 2, a: [3], }\n',
        lambda d: d["devices"] == [{"name": "d", "fields": {"a": [3], "b": 2}}] and list(d["devices"][0]["fields"]) == ["a", "b"],
    ),
    "numbers": (
        'version: "3"\ndevice d { a: -0, b: +7, c: 1e3, d: -2.50, e: 18446744073709551616, f: 1E-2, g: 007, }\n',
        lambda d: typed(d["devices"][0]["fields"])
        == typed({"a": 0, "b": 7, "c": 1000.0, "d": -2.5, "e": 18446744073709551616, "f": 0.01, "g": 7}),
    ),
    "duplicate parameter keeps the last": (
        'version: "3"\nstruct A { a @0: u8 | unit("x") range(1.0, 2.5) unit("y"), }\n',
        lambda d: d["structs"][0]["fields"][0] == {"name": "a", "field_id": 0, "type": {"name": "u8", "type": "unsigned"}, "unit": "y", "min_value": 1.0, "max_value": 2.5},
    ),
    "only a preamble": (
        'version: "3"',
        lambda d: d == {"structs": [], "enums": [], "impls": [], "services": [], "devices": [], "version": "3.0"},
    ),
}


def run_fixed():
    for name, (text, pred) in FIXED.items():
        res = parse_text(text)
        if not res.is_ok():
            check(False, "%s: does not parse: %r" % (name, res))
            continue
        d = res.unwrap().to_dict()
        check(pred(d), "%s: unexpected tree %r" % (name, d))
    # positions recorded in the tree
    res = parse_text('version: "3"\n\nstruct A {\n  a @0: u8,\n  b @1: [A2, 3],\n}\nenum A2 { X = 1, }\n')
    check(res.is_err(), "forward reference accepted")
    fcp = parse_text('version: "3"\n\nenum A2 { X = 1, }\nstruct A {\n  a @0: u8,\n  b @1: [A2, 3],\n}\nimpl can for A { signal a { k: 1, }, }').unwrap()
    s = fcp.structs[0]
    check((s.meta.line, s.meta.end_line, s.meta.column) == (4, 7, 1), "struct meta")
    check((s.fields[1].meta.line, s.fields[1].meta.column) == (6, 3), "field meta")
    check(fcp.impls[0].meta is s.meta or fcp.impls[0].meta == s.meta, "default impl meta")
    check(fcp.impls[1].signals[0].meta.line == 8, "signal meta")
    check(fcp.enums[0].enumeration[0].meta.line == 3, "enumeration meta")
    check(s.meta.filename == "main.fcp", "meta filename")


# --------------------------------------------------------------------------
# ill-formed inputs: exact error text
# --------------------------------------------------------------------------

ERRORS = {
    "unknown type": 'version: "3"\nstruct A { a @0: Missing, }\n',
    "unknown type in array": 'version: "3"\nstruct A { a @0: [Missing, 3], }\n',
    "unknown type in dynamic array": 'version: "3"\nstruct A { a @0: [Missing], }\n',
    "unknown type in optional": 'version: "3"\nstruct A { a @0: Optional[Missing], }\n',
    "unknown type nested": 'version: "3"\nstruct A { a @0: Optional[[[Missing, 2]]], }\n',
    "forward reference": 'version: "3"\nstruct A { a @0: B, }\nstruct B { b @0: u8, }\n',
    "self reference": 'version: "3"\nstruct A { a @0: A, }\n',
    "failed struct is not declared": 'version: "3"\nstruct A { a @0: Nope, }\nstruct B { a @0: A, }\n',
    "wrong version": 'version: "2"\nstruct A { a @0: u8, }\n',
    "missing version": "struct A { a @0: u8, }\n",
    "missing struct name": 'version: "3"\nstruct { a @0: u8, }\n',
    "missing field id": 'version: "3"\nstruct A { a: u8, }\n',
    "empty struct": 'version: "3"\nstruct A { }\n',
    "empty enum": 'version: "3"\nenum E { }\n',
    "unknown parameter": 'version: "3"\nstruct A { a @0: u8 | scale(2), }\n',
    "unit without argument": 'version: "3"\nstruct A { a @0: u8 | unit(), }\n',
    "range with one argument": 'version: "3"\nstruct A { a @0: u8 | range(1), }\n',
    "range with integer bounds": 'version: "3"\nstruct A { a @0: u8 | range(0, 10), }\n',
    "range one argument then unknown": 'version: "3"\nstruct A { a @0: u8 | range(1) bogus() range(1, 2), }\n',
    "float field id": 'version: "3"\nstruct A { a @1.5: u8, }\n',
    "float array size": 'version: "3"\nstruct A { a @1: [u8, 2.5], }\n',
    "unterminated": 'version: "3"\nstruct A { a @0: u8,',
    "empty impl": 'version: "3"\nstruct A { a @0: u8, }\nimpl can for A { }\n',
    "impl without protocol": 'version: "3"\nstruct A { a @0: u8, }\nimpl for A { id: 1, }\n',
    "empty signal": 'version: "3"\nstruct A { a @0: u8, }\nimpl can for A { signal a { }, }\n',
    "service without methods": 'version: "3"\nservice S @0 { }\n',
    "device without fields": 'version: "3"\ndevice d { }\n',
    "stray character": 'version: "3"\nstruct A { a @0: u8, } $\n',
    "empty": "",
    "two errors report the first": 'version: "3"\nstruct A { a @0: X, }\nstruct B { b @0: Y, }\n',
}

EXPECTED_ERRORS = {}  # filled below


def _sort_expected(m):
    # the logger prints a set in hash order; the order carries no meaning
    return "expected one of: [" + ", ".join(sorted(m.group(1).split(", "))) + "]"


def describe(res, logger, tmp=None):
    if res.is_ok():
        return "OK " + repr(res.unwrap().to_dict())
    text = logger.error(res.err())
    text = re.sub(r"expected one of: \[([^\]]*)\]", _sort_expected, text)
    if tmp is not None:
        text = text.replace(str(tmp), "<TMP>")
    return text


def run_errors(record=False):
    got = {}
    for name, text in ERRORS.items():
        logger = Logger({}, enable_file_paths=False)
        try:
            res = get_fcp_from_string(text, logger)
            got[name] = describe(res, logger)
        except Exception as e:  # what escapes is part of the behaviour too
            got[name] = "RAISES %s: %s" % (type(e).__name__, e)
    if record:
        return got
    for name in ERRORS:
        check(got[name] == EXPECTED_ERRORS.get(name), "error case %r: got\n%s\nwant\n%s" % (name, got[name], EXPECTED_ERRORS.get(name)))
    return got


# --------------------------------------------------------------------------
# modules: imported declarations are visible to the importer
# --------------------------------------------------------------------------

MODULE_FILES = {
    "main.fcp": 'version: "3"\nenum Local { A = 1, }\nmod sub.types;\nmod other;\n'
    "struct Top { p @0: Point, c @1: Colour, l @2: Local, q @3: [Pair, 2], s @4: Shadow, }\n"
    "impl can for Point as P2 { id: 5, }\n",
    "sub/types.fcp": 'version: "3"\nenum Colour { Red = 0, Green = 1, }\nstruct Point { x @0: i16 | unit("mm"), y @1: i16, c @2: Colour, }\n',
    "other.fcp": 'version: "3"\nmod sub.types;\nstruct Pair { a @0: Point, b @1: Point, }\nenum Shadow { Z = 0, }\nstruct Shadow { z @0: u1, }\n',
    "bad_import.fcp": 'version: "3"\nmod broken;\nstruct A { a @0: u8, }\n',
    "broken.fcp": 'version: "3"\nstruct B { b @0: Nowhere, }\n',
    "syntax_import.fcp": 'version: "3"\nmod syntax;\n',
    "syntax.fcp": 'version: "3"\nstruct B { b @0 u8, }\n',
    "eof_import.fcp": 'version: "3"\nmod eof;\n',
    "eof.fcp": 'version: "3"\nstruct B {',
    "missing_import.fcp": 'version: "3"\nmod not.there;\n',
    "private.fcp": 'version: "3"\nmod other;\nstruct A { a @0: Pair, b @1: Point, }\n',
    "not_visible.fcp": 'version: "3"\nstruct A { a @0: Point, }\nmod sub.types;\n',
    "assert_import.fcp": 'version: "3"\nmod emptyenum;\n',
    "emptyenum.fcp": 'version: "3"\nenum E { }\n',
}

EXPECTED_MODULES = {}  # filled below


def run_modules(record=False):
    got = {}
    with tempfile.TemporaryDirectory() as tmp:
        tmp = pathlib.Path(tmp).resolve()
        for rel, text in MODULE_FILES.items():
            p = tmp / rel
            p.parent.mkdir(parents=True, exist_ok=True)
            p.write_text(text)
        for top in ("main", "bad_import", "syntax_import", "eof_import", "missing_import", "private", "not_visible", "assert_import"):
            logger = Logger({}, enable_file_paths=False)
            try:
                res = get_fcp(tmp / (top + ".fcp"), logger)
                got[top] = describe(res, logger, tmp)
            except Exception as e:
                got[top] = ("RAISES %s: %s" % (type(e).__name__, e)).replace(str(tmp), "<TMP>")
    if record:
        return got
    for top, text in got.items():
        check(text == EXPECTED_MODULES.get(top), "module case %r: got\n%s\nwant\n%s" % (top, text, EXPECTED_MODULES.get(top)))
    return got


# recorded from the unchanged tree (file paths disabled, set order normalised)
# fmt: off
EXPECTED_ERRORS = {'device without fields': "  → Error: Unexpected character '}', expected one of: ['identifier']\n  |\n2 | device d { }\n  | ~~~~~~~~~~~~\n",
 'empty': '  → Error: Unexpected EOF in main.fcp\n',
 'empty enum': '  → Error: Invalid definition in main.fcp: Enum E as no values\n',
 'empty impl': "  → Error: Unexpected character '}', expected one of: ['identifier', 'signal_block']\n"
               '  |\n'
               '3 | impl can for A { }\n'
               '  | ~~~~~~~~~~~~~~~~~~\n',
 'empty signal': "  → Error: Unexpected character '}', expected one of: ['identifier']\n"
                 '  |\n'
                 '3 | impl can for A { signal a { }, }\n'
                 '  | ~~~~~~~~~~~~~~~~~~~~~~~~~~~~~~~~\n',
 'empty struct': "  → Error: Unexpected character '}', expected one of: ['identifier']\n  |\n2 | struct A { }\n  | ~~~~~~~~~~~~\n",
 'failed struct is not declared': "  → Error: Type 'Nope' cannot be found.\n"
                                  '  |\n'
                                  '2 | struct A { a @0: Nope, }\n'
                                  '  | ~~~~~~~~~~~~~~~~~~~~~~~~\n'
                                  '  ↳ Error parsing type in struct field\n'
                                  '  ↳ Failed to parse field in struct A\n'
                                  '  ↳ Failed to parse main.fcp\n',
 'float array size': "OK {'structs': [{'name': 'A', 'fields': [{'name': 'a', 'field_id': 1, 'type': {'underlying_type': {'name': 'u8', 'type': "
                     "'unsigned'}, 'size': 2, 'type': 'Array'}}]}], 'enums': [], 'impls': [{'name': 'A', 'protocol': 'default', 'type': 'A', "
                     "'fields': {}, 'signals': []}], 'services': [], 'devices': [], 'version': '3.0'}",
 'float field id': '  → Error: Invalid definition in main.fcp: Method fcp.specs.struct_field.StructField.__init__() parameter field_id=1.5 violates '
                   "type hint <class 'int'>, as float 1.5 not instance of int.\n",
 'forward reference': "  → Error: Type 'B' cannot be found.\n"
                      '  |\n'
                      '2 | struct A { a @0: B, }\n'
                      '  | ~~~~~~~~~~~~~~~~~~~~~\n'
                      '  ↳ Error parsing type in struct field\n'
                      '  ↳ Failed to parse field in struct A\n'
                      '  ↳ Failed to parse main.fcp\n',
 'impl without protocol': "  → Error: Unexpected character 'A', expected one of: ['impl']\n"
                          '  |\n'
                          '3 | impl for A { id: 1, }\n'
                          '  | ~~~~~~~~~~~~~~~~~~~~~\n',
 'missing field id': "  → Error: Unexpected character ':', expected one of: ['struct_field']\n"
                     '  |\n'
                     '2 | struct A { a: u8, }\n'
                     '  | ~~~~~~~~~~~~~~~~~~~\n',
 'missing struct name': "  → Error: Unexpected character '{', expected one of: ['identifier']\n"
                        '  |\n'
                        '2 | struct { a @0: u8, }\n'
                        '  | ~~~~~~~~~~~~~~~~~~~~\n',
 'missing version': "  → Error: Unexpected character 's', expected one of: ['preamble']\n"
                    '  |\n'
                    '1 | struct A { a @0: u8, }\n'
                    '  | ~~~~~~~~~~~~~~~~~~~~~~\n',
 'range one argument then unknown': "  → Error: Invalid definition in main.fcp: 'bogus'\n",
 'range with integer bounds': '  → Error: Invalid definition in main.fcp: Method fcp.specs.struct_field.StructField.__init__() parameter min_value=0 '
                              'violates type hint typing.Optional[float], as int 0 not float or <class "builtins.NoneType">.\n',
 'range with one argument': '  → Error: Invalid definition in main.fcp: list index out of range\n',
 'self reference': "  → Error: Type 'A' cannot be found.\n"
                   '  |\n'
                   '2 | struct A { a @0: A, }\n'
                   '  | ~~~~~~~~~~~~~~~~~~~~~\n'
                   '  ↳ Error parsing type in struct field\n'
                   '  ↳ Failed to parse field in struct A\n'
                   '  ↳ Failed to parse main.fcp\n',
 'service without methods': "  → Error: Unexpected character '}', expected one of: ['method']\n  |\n2 | service S @0 { }\n  | ~~~~~~~~~~~~~~~~\n",
 'stray character': "  → Error: Unexpected character '$', expected one of: ['device', 'enum', 'impl', 'mod_expr', 'service', 'struct']\n"
                    '  |\n'
                    '2 | struct A { a @0: u8, } $\n'
                    '  | ~~~~~~~~~~~~~~~~~~~~~~~~\n',
 'two errors report the first': "  → Error: Type 'X' cannot be found.\n"
                                '  |\n'
                                '2 | struct A { a @0: X, }\n'
                                '  | ~~~~~~~~~~~~~~~~~~~~~\n'
                                '  ↳ Error parsing type in struct field\n'
                                '  ↳ Failed to parse field in struct A\n'
                                '  ↳ Failed to parse main.fcp\n',
 'unit without argument': '  → Error: Invalid definition in main.fcp: list index out of range\n',
 'unknown parameter': "  → Error: Invalid definition in main.fcp: 'scale'\n",
 'unknown type': "  → Error: Type 'Missing' cannot be found.\n"
                 '  |\n'
                 '2 | struct A { a @0: Missing, }\n'
                 '  | ~~~~~~~~~~~~~~~~~~~~~~~~~~~\n'
                 '  ↳ Error parsing type in struct field\n'
                 '  ↳ Failed to parse field in struct A\n'
                 '  ↳ Failed to parse main.fcp\n',
 'unknown type in array': "  → Error: Type 'Missing' cannot be found.\n"
                          '  |\n'
                          '2 | struct A { a @0: [Missing, 3], }\n'
                          '  | ~~~~~~~~~~~~~~~~~~~~~~~~~~~~~~~~\n'
                          '  ↳ Error parsing array type\n'
                          '  ↳ Error parsing type in struct field\n'
                          '  ↳ Failed to parse field in struct A\n'
                          '  ↳ Failed to parse main.fcp\n',
 'unknown type in dynamic array': "  → Error: Type 'Missing' cannot be found.\n"
                                  '  |\n'
                                  '2 | struct A { a @0: [Missing], }\n'
                                  '  | ~~~~~~~~~~~~~~~~~~~~~~~~~~~~~\n'
                                  '  ↳ Error parsing dynamic array type\n'
                                  '  ↳ Error parsing type in struct field\n'
                                  '  ↳ Failed to parse field in struct A\n'
                                  '  ↳ Failed to parse main.fcp\n',
 'unknown type in optional': "  → Error: Type 'Missing' cannot be found.\n"
                             '  |\n'
                             '2 | struct A { a @0: Optional[Missing], }\n'
                             '  | ~~~~~~~~~~~~~~~~~~~~~~~~~~~~~~~~~~~~~\n'
                             '  ↳ Error parsing optional type\n'
                             '  ↳ Error parsing type in struct field\n'
                             '  ↳ Failed to parse field in struct A\n'
                             '  ↳ Failed to parse main.fcp\n',
 'unknown type nested': "  → Error: Type 'Missing' cannot be found.\n"
                        '  |\n'
                        '2 | struct A { a @0: Optional[[[Missing, 2]]], }\n'
                        '  | ~~~~~~~~~~~~~~~~~~~~~~~~~~~~~~~~~~~~~~~~~~~~\n'
                        '  ↳ Error parsing array type\n'
                        '  ↳ Error parsing dynamic array type\n'
                        '  ↳ Error parsing optional type\n'
                        '  ↳ Error parsing type in struct field\n'
                        '  ↳ Failed to parse field in struct A\n'
                        '  ↳ Failed to parse main.fcp\n',
 'unterminated': '  → Error: Unexpected EOF in main.fcp\n',
 'wrong version': '  → Error: Expected IDL version 3\n  |\n1 | version: "2"\n  | ~~~~~~~~~~~~\n  ↳ Failed to parse main.fcp\n'}
EXPECTED_MODULES = {'assert_import': '  → Error: Invalid definition in emptyenum.fcp: Enum E as no values\n'
                  '  |\n'
                  '2 | mod emptyenum;\n'
                  '  | ~~~~~~~~~~~~~~\n'
                  '  ↳ Failed to parse assert_import.fcp\n',
 'bad_import': "  → Error: Type 'Nowhere' cannot be found.\n"
               '  |\n'
               '2 | struct B { b @0: Nowhere, }\n'
               '  | ~~~~~~~~~~~~~~~~~~~~~~~~~~~\n'
               '  ↳ Error parsing type in struct field\n'
               '  ↳ Failed to parse field in struct B\n'
               '  ↳ Failed to parse broken.fcp\n'
               '  ↳ Failed to import <TMP>/broken.fcp\n'
               '  |\n'
               '2 | mod broken;\n'
               '  | ~~~~~~~~~~~\n'
               '  ↳ Failed to parse bad_import.fcp\n',
 'eof_import': '  → Error: Unexpected EOF in eof.fcp\n  |\n2 | mod eof;\n  | ~~~~~~~~\n  ↳ Failed to parse eof_import.fcp\n',
 'main': "OK {'structs': [{'name': 'Point', 'fields': [{'name': 'x', 'field_id': 0, 'type': {'name': 'i16', 'type': 'signed'}, 'unit': 'mm'}, "
         "{'name': 'y', 'field_id': 1, 'type': {'name': 'i16', 'type': 'signed'}}, {'name': 'c', 'field_id': 2, 'type': {'name': 'Colour', 'type': "
         "'Enum'}}]}, {'name': 'Point', 'fields': [{'name': 'x', 'field_id': 0, 'type': {'name': 'i16', 'type': 'signed'}, 'unit': 'mm'}, {'name': "
         "'y', 'field_id': 1, 'type': {'name': 'i16', 'type': 'signed'}}, {'name': 'c', 'field_id': 2, 'type': {'name': 'Colour', 'type': "
         "'Enum'}}]}, {'name': 'Pair', 'fields': [{'name': 'a', 'field_id': 0, 'type': {'name': 'Point', 'type': 'Struct'}}, {'name': 'b', "
         "'field_id': 1, 'type': {'name': 'Point', 'type': 'Struct'}}]}, {'name': 'Shadow', 'fields': [{'name': 'z', 'field_id': 0, 'type': {'name': "
         "'u1', 'type': 'unsigned'}}]}, {'name': 'Top', 'fields': [{'name': 'p', 'field_id': 0, 'type': {'name': 'Point', 'type': 'Struct'}}, "
         "{'name': 'c', 'field_id': 1, 'type': {'name': 'Colour', 'type': 'Enum'}}, {'name': 'l', 'field_id': 2, 'type': {'name': 'Local', 'type': "
         "'Enum'}}, {'name': 'q', 'field_id': 3, 'type': {'underlying_type': {'name': 'Pair', 'type': 'Struct'}, 'size': 2, 'type': 'Array'}}, "
         "{'name': 's', 'field_id': 4, 'type': {'name': 'Shadow', 'type': 'Struct'}}]}], 'enums': [{'name': 'Local', 'enumeration': [{'name': 'A', "
         "'value': 1}]}, {'name': 'Colour', 'enumeration': [{'name': 'Red', 'value': 0}, {'name': 'Green', 'value': 1}]}, {'name': 'Colour', "
         "'enumeration': [{'name': 'Red', 'value': 0}, {'name': 'Green', 'value': 1}]}, {'name': 'Shadow', 'enumeration': [{'name': 'Z', 'value': "
         "0}]}], 'impls': [{'name': 'Point', 'protocol': 'default', 'type': 'Point', 'fields': {}, 'signals': []}, {'name': 'Point', 'protocol': "
         "'default', 'type': 'Point', 'fields': {}, 'signals': []}, {'name': 'Pair', 'protocol': 'default', 'type': 'Pair', 'fields': {}, 'signals': "
         "[]}, {'name': 'Shadow', 'protocol': 'default', 'type': 'Shadow', 'fields': {}, 'signals': []}, {'name': 'Top', 'protocol': 'default', "
         "'type': 'Top', 'fields': {}, 'signals': []}, {'name': 'P2', 'protocol': 'can', 'type': 'Point', 'fields': {'id': 5}, 'signals': []}], "
         "'services': [], 'devices': [], 'version': '3.0'}",
 'missing_import': '  → Error: File not found: there.fcp\n  ↳ Failed to parse missing_import.fcp\n',
 'not_visible': "  → Error: Type 'Point' cannot be found.\n"
                '  |\n'
                '2 | struct A { a @0: Point, }\n'
                '  | ~~~~~~~~~~~~~~~~~~~~~~~~~\n'
                '  ↳ Error parsing type in struct field\n'
                '  ↳ Failed to parse field in struct A\n'
                '  ↳ Failed to parse not_visible.fcp\n',
 'private': "OK {'structs': [{'name': 'Point', 'fields': [{'name': 'x', 'field_id': 0, 'type': {'name': 'i16', 'type': 'signed'}, 'unit': 'mm'}, "
            "{'name': 'y', 'field_id': 1, 'type': {'name': 'i16', 'type': 'signed'}}, {'name': 'c', 'field_id': 2, 'type': {'name': 'Colour', "
            "'type': 'Enum'}}]}, {'name': 'Pair', 'fields': [{'name': 'a', 'field_id': 0, 'type': {'name': 'Point', 'type': 'Struct'}}, {'name': "
            "'b', 'field_id': 1, 'type': {'name': 'Point', 'type': 'Struct'}}]}, {'name': 'Shadow', 'fields': [{'name': 'z', 'field_id': 0, 'type': "
            "{'name': 'u1', 'type': 'unsigned'}}]}, {'name': 'A', 'fields': [{'name': 'a', 'field_id': 0, 'type': {'name': 'Pair', 'type': "
            "'Struct'}}, {'name': 'b', 'field_id': 1, 'type': {'name': 'Point', 'type': 'Struct'}}]}], 'enums': [{'name': 'Colour', 'enumeration': "
            "[{'name': 'Red', 'value': 0}, {'name': 'Green', 'value': 1}]}, {'name': 'Shadow', 'enumeration': [{'name': 'Z', 'value': 0}]}], "
            "'impls': [{'name': 'Point', 'protocol': 'default', 'type': 'Point', 'fields': {}, 'signals': []}, {'name': 'Pair', 'protocol': "
            "'default', 'type': 'Pair', 'fields': {}, 'signals': []}, {'name': 'Shadow', 'protocol': 'default', 'type': 'Shadow', 'fields': {}, "
            "'signals': []}, {'name': 'A', 'protocol': 'default', 'type': 'A', 'fields': {}, 'signals': []}], 'services': [], 'devices': [], "
            "'version': '3.0'}",
 'syntax_import': "  → Error: Unexpected character 'u', expected one of: ['struct_field']\n"
                  '  |\n'
                  '2 | struct B { b @0 u8, }\n'
                  '  | ~~~~~~~~~~~~~~~~~~~~~\n'
                  '  ↳ Failed to parse syntax_import.fcp\n'}
# fmt: on


# --------------------------------------------------------------------------
# focus of this change: extension fields of impls, signal blocks and devices
# --------------------------------------------------------------------------


def run_focus():
    # keys that are attribute or method names of tuples, values that look like pairs
    text = (
        'version: "3"\n'
        "struct A { a @0: u8, }\n"
        "impl can for A as name {\n"
        "  name: value, value: name, count: [k, 1], index: [[a, 1], [b, 2]], _fields: [x, y],\n"
        "  signal name { name: name, value: [name, value], count: 0, },\n"
        "  signal value { index: -1, },\n"
        "  name: [name, 2],\n"
        "}\n"
        "impl can for A value { signal A { A: A, }, A: A, }\n"
        "device name { name: name, value: [value, value], count: [], }\n"
    )
    res = parse_text(text)
    check(res.is_err(), "empty array accepted")  # "[]" is not a value
    res = parse_text(text.replace("count: [], ", "count: [c], "))
    check(res.is_ok(), "pair-like values do not parse: %r" % (res,))
    if not res.is_ok():
        return
    fcp = res.unwrap()
    d = fcp.to_dict()
    check(
        d["impls"][1]
        == {
            "name": "name",
            "protocol": "can",
            "type": "A",
            "fields": {
                "name": ["name", 2],
                "value": "name",
                "count": ["k", 1],
                "index": [["a", 1], ["b", 2]],
                "_fields": ["x", "y"],
            },
            "signals": [
                {"name": "name", "fields": {"name": "name", "value": ["name", "value"], "count": 0}},
                {"name": "value", "fields": {"index": -1}},
            ],
        },
        "impl with tuple-like keys: %r" % (d["impls"][1],),
    )
    check(list(d["impls"][1]["fields"]) == ["name", "value", "count", "index", "_fields"], "impl key order")
    check(
        d["impls"][2] == {"name": "value", "protocol": "can", "type": "A", "fields": {"A": "A"}, "signals": [{"name": "A", "fields": {"A": "A"}}]},
        "impl renamed to 'value': %r" % (d["impls"][2],),
    )
    check(d["devices"] == [{"name": "name", "fields": {"name": "name", "value": ["value", "value"], "count": ["c"]}}], "device: %r" % (d["devices"],))
    # what is stored are plain dicts, lists and scalars
    def plain(x):
        if type(x) is dict:
            return all(type(k) is str and plain(v) for k, v in x.items())
        if type(x) is list:
            return all(plain(v) for v in x)
        return type(x) in (int, float, str)

    for impl in fcp.impls:
        check(plain(impl.fields), "impl fields are not plain: %r" % (impl.fields,))
        for sig in impl.signals:
            check(plain(sig.fields), "signal fields are not plain: %r" % (sig.fields,))
    for dev in fcp.devices:
        check(plain(dev.fields), "device fields are not plain: %r" % (dev.fields,))


def main():
    if "--record" in sys.argv:
        import pprint

        print("EXPECTED_ERRORS = " + pprint.pformat(run_errors(True), width=150))
        print("EXPECTED_MODULES = " + pprint.pformat(run_modules(True), width=150))
        return 0
    n = run_roundtrips()
    run_fixed()
    run_errors()
    run_modules()
    extra = globals().get("run_focus")
    if extra is not None:
        extra()
    if FAILURES:
        print("FAIL (%d problems)" % len(FAILURES))
        return 1
    print("PASS (%d round trips, %d fixed texts, %d error texts, %d module cases)" % (n, len(FIXED), len(ERRORS), len(EXPECTED_MODULES)))
    return 0


if __name__ == "__main__":
    sys.exit(main())
