#!/usr/bin/env python
"""C15 differential demo: field ids, not declaration order, fix the wire order.

Focus of this demo: the generated C++ (plugins/fcp_cpp/fcp_cpp/fcp.h.j2, which
also produces reflection.h used by dynamic.h), cross-checked against the
Python codec.

One schema holds K copies S0..S(K-1) of the same struct (and of the struct
nested in it), each copy declaring the same fields - same names, same ids - in
another order.  The C++ generated for that schema is compiled (g++ -std=c++17,
the project's warning flags, -Werror) and run.  For every copy and every value:

  * the bytes of Sk::Encode() are the same for all k and are the bytes of
    fcp.serde.encode for Sk,
  * Sk::Decode(bytes) compares equal to the encoded object, its JSON is the
    original value and fcp.serde.decode gives the same value,
  * the protocol specific header (fcp_can.h, big endian default) encodes the
    same bytes for every k,
  * DynamicSchema (dynamic.h + reflection.h, loaded from the binary reflection
    of the schema) decodes those bytes to the same value for every k,
  * in the generated text, Encode and Decode visit the fields in ascending id.

Run with PYTHONPATH pointing at the worktree, e.g.
  PYTHONPATH=$R/src:$R/plugins/fcp_dbc:$R/plugins/fcp_can_c:$R/plugins/fcp_cpp:$R/plugins/fcp_nop \
      python demo.py
Exits 0 and prints PASS when the property holds.  Needs g++ and nlohmann/json
(default: -isystem /root/miniconda/include, override with JSON_INCLUDE).
"""

import json
import os
import re
import shutil
import subprocess
import sys
import tempfile
from pathlib import Path

from fcp.parser import get_fcp_from_string
from fcp.serde import encode, decode
from fcp.reflection import get_reflection_schema
from fcp.utils import to_pascal_case
from fcp_cpp import Generator

JSON_INCLUDE = os.environ.get("JSON_INCLUDE", "/root/miniconda/include")
FAILURES = []


def check(cond, what):
    if not cond:
        FAILURES.append(what)
        print("FAIL:", what)


ENUM = "enum E { A = 0, B = 1, C = 5, }\n"

INNER = ["x @0: u3", "y @1: i5", "z @2: E"]
OUTER = [
    "a @0: u7",
    "b @1: Inner%(k)d",
    "c @3: [u4, 3]",
    "e @4: E",
    "s @17: str",
    "o @18: Optional[u9]",
    "d @19: [i12]",
    "f @20: f32",
    "g @21: f64",
    "ia @200: [Inner%(k)d, 2]",
    "oi @201: Optional[Inner%(k)d]",
    "t @1000: i3",
]
BE = ["w @1: u16", "v @0: u8", "q @2: i32"]

INNER_ORDERS = [(0, 1, 2), (2, 1, 0), (1, 2, 0), (2, 0, 1), (1, 0, 2)]
OUTER_ORDERS = [
    tuple(range(12)),
    tuple(reversed(range(12))),
    (5, 11, 0, 7, 2, 9, 4, 1, 10, 3, 8, 6),
    (1, 0, 3, 2, 5, 4, 7, 6, 9, 8, 11, 10),
    (6, 7, 8, 9, 10, 11, 0, 1, 2, 3, 4, 5),
]
BE_ORDERS = [(0, 1, 2), (1, 0, 2), (2, 1, 0), (2, 0, 1), (0, 2, 1)]
K = len(OUTER_ORDERS)


def make_source():
    out = ['version: "3"', ENUM]
    for k in range(K):
        out.append("struct Inner%d {" % k)
        out += ["    %s," % INNER[i] for i in INNER_ORDERS[k]]
        out.append("}")
        out.append("struct S%d {" % k)
        out += ["    %s," % (OUTER[i] % {"k": k}) for i in OUTER_ORDERS[k]]
        out.append("}")
        out.append("struct Be%d {" % k)
        out += ["    %s," % BE[i] for i in BE_ORDERS[k]]
        out.append("}")
        out.append('impl can for Be%d { id: %d, device: "ecu", endianess: "big", }' % (k, 10 + k))
    return "\n".join(out) + "\n"


def inner(x, y, z):
    return {"x": x, "y": y, "z": z}


VALUES = [
    dict(a=0, b=inner(0, 0, 0), c=[0, 0, 0], e=0, s="", o=None, d=[], f=0.0, g=0.0,
         ia=[inner(0, 0, 0), inner(0, 0, 0)], oi=None, t=0),
    dict(a=127, b=inner(7, -15, 5), c=[15, 0, 15], e=5, s="hello, wire", o=511,
         d=[-2047, 2047, -1, 0, 1], f=1.5, g=-2.25,
         ia=[inner(1, -1, 1), inner(6, 15, 5)], oi=inner(5, -8, 1), t=-3),
    dict(a=85, b=inner(2, 9, 1), c=[1, 2, 4], e=1, s="x", o=0, d=[7], f=-1024.0, g=1e-300,
         ia=[inner(7, 7, 0), inner(0, -15, 5)], oi=inner(0, 0, 0), t=3),
]
BE_VALUES = [dict(w=0x1234, v=0xAB, q=-2), dict(w=1, v=0, q=0x01020304)]


MAIN = r"""
#include "fcp.h"
#include "fcp_can.h"
#include "dynamic.h"

#include <fstream>
#include <iostream>

using json = nlohmann::json;

template <typename T>
json Run(const json& value, const fcp::dynamic::DynamicSchema& schema) {
    auto object = T::FromJson(value);
    auto bytes = object.Encode().GetData();
    auto decoded = T::Decode(bytes.begin(), bytes.end());
    fcp::Buffer again{bytes.begin(), bytes.end()};
    auto decoded_again = T::Decode(again);

    json out{};
    out["bytes"] = bytes;
    out["equal"] = (decoded == object) && !(decoded != object) && (decoded_again == decoded);
    out["json"] = decoded.DecodeJson();
    auto dynamic = schema.DecodeJson(T::GetTypeName(), bytes);
    out["dynamic"] = dynamic.has_value() ? dynamic.value() : json{};
    return out;
}

template <typename T>
json RunBe(const json& value) {
    auto object = T::FromJson(value);
    json out{};
    out["default"] = object.Encode().GetData();
    out["big"] = object.Encode(fcp::Endianess::Big).GetData();
    out["little"] = object.Encode(fcp::Endianess::Little).GetData();
    auto bytes = object.Encode().GetData();
    fcp::Buffer buffer{bytes.begin(), bytes.end()};
    auto decoded = T::Decode(buffer);
    out["equal"] = decoded == object;
    out["json"] = decoded.DecodeJson();
    return out;
}

int main() {
    std::ifstream in("cases.json");
    json cases = json::parse(in);

    fcp::dynamic::DynamicSchema schema{};
    schema.LoadBinarySchemaFromFile("schema.bin");

    json out{};
%(calls)s
    std::cout << out.dump() << std::endl;
    return 0;
}
"""

FLAGS = [
    "-std=c++17", "-Werror", "-Wall", "-Wextra", "-Wformat-nonliteral", "-Wcast-align",
    "-Wpointer-arith", "-Winline", "-Wundef", "-Wcast-qual", "-Wshadow", "-Wwrite-strings",
    "-Wno-unused-parameter", "-Wfloat-equal", "-pedantic",
]


def wire_names(decls):
    ids = []
    for d in decls:
        m = re.match(r"(\w+) @(-?\d+):", d)
        ids.append((int(m.group(2)), m.group(1)))
    return [name for _, name in sorted(ids)]


def check_generated_text(text, struct_name, decls):
    """Encode/Decode bodies of a struct visit the fields in ascending id."""
    m = re.search(r"\nstruct %s \{(.*?)\n\};" % struct_name, text, re.S)
    check(m is not None, "struct %s not generated" % struct_name)
    body = m.group(1)
    expected = wire_names(decls)

    enc = re.search(r"void Encode\(Buffer& buffer[^\n]*\n(.*?)\n    \}", body, re.S).group(1)
    check(re.findall(r"(\w+)_\.Encode\(buffer, endianess\);", enc) == expected,
          "%s::Encode order: %s" % (struct_name, enc))

    dec = re.search(r"static %s Decode\(Buffer& buffer[^\n]*\n(.*?)\n    \}" % struct_name, body, re.S).group(1)
    got = re.findall(r"(\w+)Type::Decode\(buffer, endianess\);", dec)
    check(got == [to_pascal_case(n) for n in expected], "%s::Decode order: %s" % (struct_name, dec))


def main():
    source = make_source()
    fcp = get_fcp_from_string(source).unwrap()
    reflection = get_reflection_schema().unwrap()

    workdir = Path(tempfile.mkdtemp(prefix="c15-cpp-"))
    generated = {}
    for item in Generator().generate(fcp, {"output": str(workdir)}):
        Path(item["path"]).write_text(item["contents"])
        generated[Path(item["path"]).name] = item["contents"]

    for k in range(K):
        check_generated_text(generated["fcp.h"], "Inner%d" % k, INNER)
        check_generated_text(generated["fcp.h"], "S%d" % k, OUTER)
        check_generated_text(generated["fcp_can.h"], "Be%d" % k, BE)
        check_generated_text(generated["fcp_can.h"], "S%d" % k, OUTER)
    check_generated_text(generated["reflection.h"], "StructField",
                         ["name @0:", "field_id @1:", "type @2:", "unit @3:", "min_value @4:",
                          "max_value @5:", "meta @6:"])
    check(generated["fcp_can.h"].count("Endianess endianess=Endianess::Big") == 3 * K,
          "big endian default of the can impls")
    check("Endianess::Big" not in generated["fcp.h"].replace("Endianess::Big)", ""),
          "default protocol is little endian")

    (workdir / "schema.bin").write_bytes(bytes(encode(reflection, "Fcp", fcp.reflection())))
    (workdir / "cases.json").write_text(json.dumps({"s": VALUES, "be": BE_VALUES}))

    calls = []
    for k in range(K):
        for i in range(len(VALUES)):
            calls.append('    out["S%d"][%d] = Run<fcp::S%d>(cases["s"][%d], schema);' % (k, i, k, i))
        for i in range(len(BE_VALUES)):
            calls.append('    out["Be%d"][%d] = RunBe<fcp::can::Be%d>(cases["be"][%d]);' % (k, i, k, i))
    (workdir / "main.cpp").write_text(MAIN % {"calls": "\n".join(calls)})

    build = subprocess.run(
        ["g++"] + FLAGS + ["-isystem", JSON_INCLUDE, "main.cpp", "-o", "main"],
        cwd=workdir, capture_output=True, text=True,
    )
    if build.returncode != 0:
        print(build.stderr[-4000:])
        print("FAIL: generated C++ does not compile (%s)" % workdir)
        return 1
    run = subprocess.run(["./main"], cwd=workdir, capture_output=True, text=True)
    if run.returncode != 0:
        print(run.stdout[-2000:], run.stderr[-2000:])
        print("FAIL: generated C++ crashed (%s)" % workdir)
        return 1
    out = json.loads(run.stdout)

    for i, value in enumerate(VALUES):
        reference = out["S0"][i]
        for k in range(K):
            got = out["S%d" % k][i]
            py = list(encode(fcp, "S%d" % k, value))
            check(got["bytes"] == py, "S%d value %d: C++ %r != python %r" % (k, i, got["bytes"], py))
            check(got["bytes"] == reference["bytes"], "S%d value %d: bytes differ from S0" % (k, i))
            check(got["equal"] is True, "S%d value %d: decoded object differs" % (k, i))
            check(got["json"] == value, "S%d value %d: decoded json %r" % (k, i, got["json"]))
            check(decode(fcp, "S%d" % k, bytearray(got["bytes"])) == value,
                  "S%d value %d: python decode of the C++ bytes" % (k, i))
            check(got["dynamic"] == reference["dynamic"] and got["dynamic"] is not None,
                  "S%d value %d: dynamic schema %r" % (k, i, got["dynamic"]))
        # the dynamic schema names enum values, everything else is the value itself
        dyn = dict(reference["dynamic"])
        names = {0: "A", 1: "B", 5: "C"}
        check(dyn["e"] == names[value["e"]] and dyn["b"]["z"] == names[value["b"]["z"]],
              "dynamic enum names %r" % dyn)
        check(all(dyn[key] == value[key] for key in ("a", "c", "s", "o", "d", "f", "g", "t")),
              "dynamic schema value %r" % dyn)

    for i, value in enumerate(BE_VALUES):
        reference = out["Be0"][i]
        check(reference["default"] == reference["big"], "can impl defaults to big endian")
        check(reference["default"] != reference["little"], "big endian is not little endian")
        check(reference["little"] == list(encode(fcp, "Be0", value)), "little endian is the python codec")
        for k in range(K):
            got = out["Be%d" % k][i]
            check(got == reference, "Be%d value %d: %r != %r" % (k, i, got, reference))
            check(got["equal"] is True and got["json"] == value, "Be%d value %d round trip" % (k, i))

    if FAILURES:
        print("%d check(s) failed (build directory %s)" % (len(FAILURES), workdir))
        return 1
    shutil.rmtree(workdir, ignore_errors=True)
    print("checked %d declaration orders x %d values" % (K, len(VALUES)))
    print("PASS")
    return 0


if __name__ == "__main__":
    sys.exit(main())
