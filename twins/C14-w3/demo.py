#!/venv/bin/python
"""C14 differential test: CAN messages that do not fit a frame are rejected, never truncated.

The script builds many FCP schemas from a small description language, computes
the expected packed layout with an INDEPENDENT reference model and checks that

  * every CAN binding of at most 64 bits is described in the generated DBC and
    C sources exactly as the reference layout says (no signal past the end of
    its message, no overlap between non multiplexed signals, matching DLC);
  * every CAN binding of more than 64 bits, and every binding whose struct
    holds a variable size field (str, dynamic array, Optional) anywhere, makes
    DBC generation raise and makes the `fcp generate can_c` command path
    (GeneratorManager.generate) fail, with nothing written to the output
    directory -- also when other, well formed, bindings live in the same schema;
  * generators, verifiers and encoders can be reused across schemas without
    one call leaking into the next one.

The code under test is located through PYTHONPATH. Exit code 0 and a final
"PASS" line mean that the property holds on all the generated inputs.
"""

import os
import random
import re
import shutil
import sys
import tempfile
from copy import deepcopy

import cantools

from fcp.parser import get_fcp_from_string
from fcp.verifier import make_general_verifier
from fcp.codegen import GeneratorManager
from fcp.encoding import make_encoder, PackedEncoderContext
from fcp.specs.struct_field import StructField
from fcp.specs.type import StructType
import fcp_dbc
import fcp_can_c

FCP_ROOT = os.environ.get("FCP_ROOT", "/tmp/twin3-C14")

CHECKS = 0
FAILURES = []


def check(cond, msg):
    global CHECKS
    CHECKS += 1
    if not cond:
        FAILURES.append(msg)
        if len(FAILURES) <= 25:
            print("FAIL:", msg)


# --------------------------------------------------------------------------
# schema description language + reference layout model
# --------------------------------------------------------------------------
# type descriptions:
#   ("u", n) ("i", n) ("f32",) ("f64",)
#   ("enum", name, max_value)
#   ("struct", name, [(field_name, field_id, type), ...])
#   ("arr", type, n)
#   ("str",) ("dyn", type) ("opt", type)


def type_text(t):
    k = t[0]
    if k == "u" or k == "i":
        return f"{k}{t[1]}"
    if k in ("f32", "f64", "str"):
        return k
    if k in ("enum", "struct"):
        return t[1]
    if k == "arr":
        return f"[{type_text(t[1])}, {t[2]}]"
    if k == "dyn":
        return f"[{type_text(t[1])}]"
    if k == "opt":
        return f"Optional[{type_text(t[1])}]"
    raise AssertionError(t)


def collect_decls(t, out):
    """Declarations in dependency order (used types first)."""
    k = t[0]
    if k == "enum":
        text = f"enum {t[1]} {{\n    Lo = 0,\n    Hi = {t[2]},\n}}\n" if t[2] else f"enum {t[1]} {{\n    Lo = 0,\n}}\n"
        if (t[1], text) not in out:
            out.append((t[1], text))
    elif k == "struct":
        for _, _, ft in t[2]:
            collect_decls(ft, out)
        body = "".join(
            f"    {fname} @{fid}: {type_text(ft)},\n" for fname, fid, ft in t[2]
        )
        text = f"struct {t[1]} {{\n{body}}}\n"
        if (t[1], text) not in out:
            out.append((t[1], text))
    elif k in ("arr", "dyn", "opt"):
        collect_decls(t[1], out)


def is_variable(t):
    k = t[0]
    if k in ("str", "dyn", "opt"):
        return True
    if k == "arr":
        return is_variable(t[1])
    if k == "struct":
        return any(is_variable(ft) for _, _, ft in t[2])
    return False


def enum_bits(m):
    return 1 if m in (0, 1) else m.bit_length()


def ref_layout(t, name, prefix, out):
    """Reference unrolled packed layout: appends (name, length, signed, float)."""
    k = t[0]
    if k == "struct":
        for fname, _, ft in sorted(t[2], key=lambda f: f[1]):
            if ft[0] == "struct":
                ref_layout(ft, None, prefix + fname + "::", out)
            else:
                ref_layout(ft, fname, prefix, out)
    elif k == "arr":
        for i in range(t[2]):
            el = t[1]
            if el[0] == "struct":
                ref_layout(el, None, prefix + f"{name}_{i}" + "::", out)
            else:
                ref_layout(el, f"{name}_{i}", prefix, out)
    elif k == "u":
        out.append((prefix + name, t[1], False, False))
    elif k == "i":
        out.append((prefix + name, t[1], True, False))
    elif k == "f32":
        out.append((prefix + name, 32, False, True))
    elif k == "f64":
        out.append((prefix + name, 64, False, True))
    elif k == "enum":
        out.append((prefix + name, enum_bits(t[2]), False, False))
    else:
        raise AssertionError(t)


def reference(struct):
    """[(name, bitstart, bitlength, signed, float)], total bits."""
    flat = []
    ref_layout(struct, None, "", flat)
    res = []
    pos = 0
    for name, length, signed, flt in flat:
        res.append((name, pos, length, signed, flt))
        pos += length
    return res, pos


class Binding:
    def __init__(self, struct, frame_id, name=None, bus=None, device="ecu", signals=None):
        self.struct = struct
        self.frame_id = frame_id
        self.name = name or struct[1]
        self.bus = bus
        self.device = device
        self.signals = signals or {}  # field name -> {key: value text}

    def text(self):
        alias = f" as {self.name}" if self.name != self.struct[1] else ""
        s = f"impl can for {self.struct[1]}{alias} {{\n    id: {self.frame_id},\n"
        if self.device is not None:
            s += f'    device: "{self.device}",\n'
        if self.bus is not None:
            s += f'    bus: "{self.bus}",\n'
        for sig, kv in self.signals.items():
            s += f"    signal {sig} {{\n"
            for k, v in kv.items():
                s += f"        {k}: {v},\n"
            s += "    },\n"
        return s + "}\n"


def schema_text(bindings):
    decls = []
    for b in bindings:
        collect_decls(b.struct, decls)
    names = [n for n, _ in decls]
    assert len(names) == len(set(names)), names
    return 'version: "3"\n\n' + "\n".join(t for _, t in decls) + "\n" + "\n".join(
        b.text() for b in bindings
    )


# --------------------------------------------------------------------------
# drivers for the code under test
# --------------------------------------------------------------------------


def parse(text):
    res = get_fcp_from_string(text)
    assert res.is_ok(), (text, res)
    return res.unwrap()


def run_dbc(fcp, generator=None):
    """('ok', {bus: dbc text}) or ('exc', exception)."""
    generator = generator or fcp_dbc.Generator()
    try:
        out = generator.generate(fcp, {"output": "out"})
    except Exception as e:  # noqa
        return "exc", e
    return "ok", {o["bus"]: o["contents"] for o in out}


def run_command(name, fcp, manager=None):
    """Command path: verifier then generator. ('ok'|'err'|'exc', info, {file: text})."""
    d = tempfile.mkdtemp(prefix="c14_")
    out = os.path.join(d, "out")
    os.mkdir(out)
    try:
        manager = manager or GeneratorManager(make_general_verifier())
        try:
            res = manager.generate(name, None, None, fcp, out)
            status, info = ("ok", "") if res.is_ok() else ("err", str(res))
        except Exception as e:  # noqa
            status, info = "exc", e
        files = {}
        for root, _, names in os.walk(d):
            for n in names:
                with open(os.path.join(root, n), newline="") as f:
                    files[n] = f.read()
        return status, info, files
    finally:
        shutil.rmtree(d, ignore_errors=True)


SG_RE = re.compile(r"^ SG_ (\S+) (?:(M|m\d+) )?: (\d+)\|(\d+)@([01])([+-]) ", re.M)
BO_RE = re.compile(r"^BO_ (\d+) (\S+): (\d+) ", re.M)


def dbc_messages(text):
    """{message name: (frame id, dlc, [(signal, mux, start, length, order, sign)])}."""
    text = text.replace("\r\n", "\n")
    msgs = {}
    cur = None
    for line in text.split("\n"):
        m = BO_RE.match(line)
        if m:
            cur = (int(m.group(1)), int(m.group(3)), [])
            msgs[m.group(2)] = cur
            continue
        m = SG_RE.match(line)
        if m and cur is not None:
            cur[2].append(
                (m.group(1), m.group(2), int(m.group(3)), int(m.group(4)), m.group(5), m.group(6))
            )
    return msgs


C_SIG_RE = re.compile(
    r"#define can_decode_signal_(\w+?)\(msg\) \\\n\s+can_decode_signal_as_(\w+)\(\(msg\), (\d+), (\d+), "
)
C_ENC_RE = re.compile(
    r"#define can_encode_signal_(\w+?)\(signal\) \\\n\s+can_encode_signal_from_(\w+)\(\(signal\), (\d+), (\d+), "
)
C_DLC_RE = re.compile(r"CanFrame can_encode_msg_(\w+)\(.*\n\s*CanFrame message = \{\.id = (\d+), \.dlc = (\d+)\};")


def pascal_to_snake(s):
    return "".join(["_" + c.lower() if c.isupper() else c for c in s]).lstrip("_")


def check_geometry(tag, sigs, dlc):
    """sigs: [(name, start, length, muxed)] little endian. No overflow, no overlap."""
    check(dlc <= 8, f"{tag}: dlc {dlc} > 8")
    used = {}
    for name, start, length, muxed in sigs:
        check(length >= 1, f"{tag}: {name} has length {length}")
        check(start + length <= 8 * dlc, f"{tag}: {name} [{start},{start + length}) extends beyond {8 * dlc} bits")
        check(start + length <= 64, f"{tag}: {name} extends beyond 64 bits")
        if muxed:
            continue
        for bit in range(start, start + length):
            if bit in used:
                check(False, f"{tag}: {name} overlaps {used[bit]} at bit {bit}")
                break
            used[bit] = name


def check_accepted(tag, bindings, fcp, dbc_generator=None, managers=None):
    """All bindings fit: outputs must describe exactly the reference layout."""
    managers = managers or {}
    status, buses = run_dbc(fcp, dbc_generator)
    check(status == "ok", f"{tag}: dbc generation failed on fitting schema: {buses!r}")
    cstatus, cinfo, cfiles = run_command("can_c", fcp, managers.get("can_c"))
    check(cstatus == "ok", f"{tag}: can_c command failed on fitting schema: {cinfo}")
    dstatus, dinfo, dfiles = run_command("dbc", fcp, managers.get("dbc"))
    check(dstatus == "ok", f"{tag}: dbc command failed on fitting schema: {dinfo}")
    if status != "ok" or cstatus != "ok" or dstatus != "ok":
        return

    check(
        sorted(buses) == sorted({b.bus or "default" for b in bindings}),
        f"{tag}: buses {sorted(buses)}",
    )
    # the command wrote the same text that generate() returned
    for bus, text in buses.items():
        check(dfiles.get(bus + ".fcp") == text, f"{tag}: dbc command output differs for bus {bus}")

    for b in bindings:
        ref, total = reference(b.struct)
        assert total <= 64
        exp_dlc = (total + 7) // 8
        text = buses[b.bus or "default"]
        msgs = dbc_messages(text)
        check(b.name in msgs, f"{tag}: message {b.name} missing from dbc")
        if b.name not in msgs:
            continue
        frame_id, dlc, sigs = msgs[b.name]
        check(frame_id == b.frame_id, f"{tag}: {b.name} frame id {frame_id}")
        check(dlc == exp_dlc, f"{tag}: {b.name} dlc {dlc} expected {exp_dlc}")
        mux_children = {s for s, kv in b.signals.items() if "mux_signal" in kv}
        big = {s for s, kv in b.signals.items() if kv.get("endianess") == '"big"'}
        exp = []
        for name, start, length, signed, flt in ref:
            flat = name.replace("::", "_")
            exp.append(
                (
                    flat,
                    start + 7 if name in big else start,
                    length,
                    "0" if name in big else "1",
                    "-" if signed else "+",
                )
            )
        got = [(s, st, ln, order, sign) for s, _, st, ln, order, sign in sigs]
        check(sorted(got) == sorted(exp), f"{tag}: {b.name} dbc signals {got} expected {exp}")
        check_geometry(
            f"{tag}/dbc/{b.name}",
            [(n, st, ln, n in mux_children) for n, st, ln, _, _ in ref if n not in big]
            and [
                (s, st - 7 if s in big else st, ln, s in mux_children)
                for s, _, st, ln, _, _ in sigs
            ],
            dlc,
        )

        # C sources
        src = cfiles.get(f"{pascal_to_snake(b.device)}_can.c", "")
        hdr = cfiles.get(f"{b.device}_can.h", "")
        check(src != "" and hdr != "", f"{tag}: missing C files for {b.device}: {sorted(cfiles)}")
        snake = pascal_to_snake(b.name)
        for regex, what in ((C_SIG_RE, "decode"), (C_ENC_RE, "encode")):
            got_c = [
                (m.group(1)[len(snake) + 1:], int(m.group(3)), int(m.group(4)))
                for m in regex.finditer(src)
                if m.group(1).startswith(snake + "_")
                and m.group(1)[len(snake) + 1:] in {n.replace("::", "_") for n, *_ in ref}
            ]
            exp_c = [(n.replace("::", "_"), st, ln) for n, st, ln, _, _ in ref]
            check(got_c == exp_c, f"{tag}: {b.name} C {what} macros {got_c} expected {exp_c}")
            check_geometry(
                f"{tag}/c-{what}/{b.name}",
                [(n, st, ln, n in mux_children) for n, st, ln in got_c],
                exp_dlc,
            )
        dlcs = [(m.group(1), int(m.group(2)), int(m.group(3))) for m in C_DLC_RE.finditer(src) if m.group(1) == snake]
        check(dlcs == [(snake, b.frame_id, exp_dlc)], f"{tag}: {b.name} C frame {dlcs} expected dlc {exp_dlc}")

    # independent check by cantools: strict mode refuses overlapping signals and
    # signals that do not fit in their message
    for bus, text in buses.items():
        try:
            cantools.database.load_string(text, database_format="dbc", strict=True)
        except Exception as e:  # noqa
            check(False, f"{tag}: cantools rejects generated dbc for bus {bus}: {e}")
        else:
            check(True, "")


def check_rejected(tag, bindings, fcp, reason, dbc_generator=None, managers=None, first_bad=None):
    """Some binding does not fit / is not packable: everything must fail, nothing emitted."""
    managers = managers or {}
    status, info = run_dbc(fcp, dbc_generator)
    check(status == "exc", f"{tag}: dbc generation accepted an unfit schema ({reason})")
    if status == "exc":
        check(isinstance(info, ValueError), f"{tag}: dbc raised {type(info).__name__}: {info}")
        if first_bad is not None:
            _, total = (None, None) if is_variable(first_bad.struct) else reference(first_bad.struct)
            if total is not None:
                check(
                    str(info) == f"Message {first_bad.struct[1]} too big. Current length: {total}",
                    f"{tag}: dbc message {info!s}",
                )
            else:
                check(
                    str(info).startswith("Error computing type length for type "),
                    f"{tag}: dbc message {info!s}",
                )
    dstatus, dinfo, dfiles = run_command("dbc", fcp, managers.get("dbc"))
    check(dstatus in ("err", "exc"), f"{tag}: dbc command accepted an unfit schema ({reason})")
    check(dfiles == {}, f"{tag}: dbc command wrote {sorted(dfiles)} for an unfit schema")
    cstatus, cinfo, cfiles = run_command("can_c", fcp, managers.get("can_c"))
    check(cstatus == "err", f"{tag}: can_c command did not fail cleanly ({cstatus}: {cinfo}) on ({reason})")
    check(cfiles == {}, f"{tag}: can_c command wrote {sorted(cfiles)} for an unfit schema")
    if cstatus == "err" and first_bad is not None:
        if is_variable(first_bad.struct):
            check(
                f"Impl {first_bad.name} cannot be packed into a CAN frame: Error computing type length for type " in cinfo,
                f"{tag}: can_c message {cinfo}",
            )
        else:
            _, total = reference(first_bad.struct)
            check(
                f"Impl {first_bad.name} is way too big at {total} bits" in cinfo,
                f"{tag}: can_c message {cinfo}",
            )


def run_case(tag, bindings, **kw):
    fcp = parse(schema_text(bindings))
    bad = [
        b for b in bindings if is_variable(b.struct) or reference(b.struct)[1] > 64
    ]
    if bad:
        check_rejected(tag, bindings, fcp, f"{bad[0].name}", first_bad=bad[0], **kw)
    else:
        check_accepted(tag, bindings, fcp, **kw)
    return fcp


# --------------------------------------------------------------------------
# schema builders
# --------------------------------------------------------------------------


def scalar_chunks(n, rng):
    """Scalar types whose lengths add up to n (n >= 1)."""
    out = []
    while n > 0:
        w = min(n, rng.choice([1, 3, 5, 7, 8, 11, 13, 16, 24, 31, 32, 33, 48, 63, 64]))
        if w == 32 and rng.random() < 0.4:
            out.append(("f32",))
        elif w == 64 and rng.random() < 0.4:
            out.append(("f64",))
        elif w >= 2 and rng.random() < 0.4:
            out.append(("i", w))
        elif w <= 20 and rng.random() < 0.3:
            # enum of exactly w bits
            out.append(("enum", None, rng.choice([(1 << w) - 1, 1 << (w - 1)]) if w > 1 else rng.choice([0, 1])))
        else:
            out.append(("u", w))
        n -= w
    return out


class Namer:
    def __init__(self):
        self.n = 0

    def __call__(self, stem):
        self.n += 1
        return f"{stem}{self.n}"


def name_enums(types, namer):
    return [("enum", namer("En"), t[2]) if t[0] == "enum" and t[1] is None else t for t in types]


def fields_of(types, namer, rng=None, shuffle=False):
    """Give names and ids to a list of types; optionally declare in another order than the ids."""
    fields = [(namer("f"), i, t) for i, t in enumerate(types)]
    if shuffle and rng is not None:
        rng.shuffle(fields)
    return fields


def build_sized(total, placement, rng, namer, sname):
    """A struct of exactly `total` bits whose bulk lives in the given construct."""
    head = [("u", 8), ("i", 5)]  # 13 bits, makes everything after it unaligned
    rest = total - 13
    assert rest >= 1
    shuffle = rng.random() < 0.5
    if placement == "flat_last":
        types = head + name_enums(scalar_chunks(rest, rng), namer)
    elif placement == "flat_first":
        types = name_enums(scalar_chunks(rest, rng), namer) + head
    elif placement == "nested":
        inner = ("struct", namer("In"), fields_of(name_enums(scalar_chunks(rest, rng), namer), namer, rng, shuffle))
        types = [head[0], inner, head[1]]
    elif placement == "nested2":
        a = rest // 2 or 1
        b = rest - a
        inner2 = ("struct", namer("Deep"), fields_of(name_enums(scalar_chunks(a, rng), namer), namer, rng, shuffle))
        mid_types = [inner2] + (name_enums(scalar_chunks(b, rng), namer) if b else [])
        inner = ("struct", namer("Mid"), fields_of(mid_types, namer, rng, shuffle))
        types = head + [inner]
    elif placement == "array_scalar":
        w = rng.choice([w for w in (1, 3, 7, 8, 12, 16, 21, 32) if w <= rest])
        k = rest // w
        el = rng.choice([("u", w), ("i", w)] if w > 1 else [("u", 1)])
        types = head + [("arr", el, k)]
        if rest - k * w:
            types += [("u", rest - k * w)]
    elif placement == "array_struct":
        w = rng.choice([w for w in (2, 9, 12, 17, 24, 40) if w <= rest] or [rest])
        k = rest // w
        el = ("struct", namer("El"), fields_of(name_enums(scalar_chunks(w, rng), namer), namer, rng, shuffle))
        types = [head[0], ("arr", el, k), head[1]]
        if rest - k * w:
            types += [("u", rest - k * w)]
    elif placement == "array_nested":
        # array of arrays of struct holding an array
        w = rng.choice([w for w in (4, 6, 10) if 4 * w <= rest] or [1])
        if w == 1:
            return build_sized(total, "array_scalar", rng, namer, sname)
        k = rest // (4 * w)
        el = ("struct", namer("Cell"), fields_of([("arr", ("u", w // 2), 2)], namer))
        types = head + [("arr", ("arr", el, 2), 2 * k)]
        if rest - 4 * w * k:
            types += [("i", rest - 4 * w * k)] if rest - 4 * w * k > 1 else [("u", 1)]
    elif placement == "enum_tail":
        e = min(rest, 20)
        types = head + (name_enums(scalar_chunks(rest - e, rng), namer) if rest - e else []) + [
            ("enum", namer("Tail"), (1 << e) - 1 if e > 1 else 1)
        ]
    else:
        raise AssertionError(placement)
    struct = ("struct", sname, fields_of(types, namer, rng, shuffle))
    assert reference(struct)[1] == total, (placement, total, reference(struct)[1])
    return struct


PLACEMENTS = [
    "flat_last",
    "flat_first",
    "nested",
    "nested2",
    "array_scalar",
    "array_struct",
    "array_nested",
    "enum_tail",
]


def variable_types(namer):
    small = ("struct", namer("Small"), [("p", 0, ("u", 4))])
    withstr = ("struct", namer("WithStr"), [("p", 0, ("u", 4)), ("s", 1, ("str",))])
    return [
        ("str",),
        ("dyn", ("u", 8)),
        ("dyn", small),
        ("dyn", ("str",)),
        ("opt", ("u", 8)),
        ("opt", small),
        ("opt", ("f32",)),
        ("arr", ("str",), 2),
        ("arr", ("opt", ("u", 1)), 3),
        ("arr", ("dyn", ("u", 8)), 1),
        ("arr", withstr, 2),
        ("dyn", ("dyn", ("u", 8))),
        ("opt", ("arr", ("u", 8), 2)),
    ]


def build_variable(vt, position, pad_bits, rng, namer, sname):
    pads = lambda n: name_enums(scalar_chunks(n, rng), namer) if n else []  # noqa
    if position == "only":
        types = [vt]
    elif position == "first":
        types = [vt] + pads(pad_bits or 8)
    elif position == "last":
        types = pads(pad_bits or 8) + [vt]
    elif position == "middle":
        types = pads(5) + [vt] + pads(pad_bits or 3)
    elif position == "nested":
        inner = ("struct", namer("Box"), fields_of(pads(3) + [vt], namer))
        types = pads(pad_bits or 9) + [inner]
    elif position == "nested2":
        inner2 = ("struct", namer("Core"), fields_of([vt] + pads(2), namer))
        inner = ("struct", namer("Shell"), fields_of([("u", 1), inner2], namer))
        types = [inner] + pads(pad_bits or 6)
    elif position == "array_of_struct":
        el = ("struct", namer("Item"), fields_of([("u", 2), vt], namer))
        types = pads(pad_bits or 4) + [("arr", el, 2)]
    else:
        raise AssertionError(position)
    return ("struct", sname, fields_of(types, namer, rng, rng.random() < 0.5))


POSITIONS = ["only", "first", "last", "middle", "nested", "nested2", "array_of_struct"]


# --------------------------------------------------------------------------
# sections
# --------------------------------------------------------------------------


def section_boundary_sweep():
    """Every total size 57..200 with the bulk of the bits in every kind of construct."""
    rng = random.Random(1401)
    n = 0
    for total in range(57, 201):
        for placement in PLACEMENTS:
            # full pipeline for every size close to the limit, sampled further away
            if not (57 <= total <= 80 or (total + PLACEMENTS.index(placement)) % 8 == 0):
                continue
            namer = Namer()
            struct = build_sized(total, placement, rng, namer, "Msg")
            run_case(f"sweep/{placement}/{total}", [Binding(struct, 100 + total)])
            n += 1
    return n


def section_encoder_sweep():
    """All sizes x all placements directly against the encoder and the dbc writer (cheap)."""
    from fcp_dbc.dbc_writer import write_dbc  # noqa
    from fcp_can_c.generator import Generator as CGen  # noqa

    rng = random.Random(77)
    n = 0
    for total in range(57, 201):
        for placement in PLACEMENTS:
            namer = Namer()
            struct = build_sized(total, placement, rng, namer, "Msg")
            b = Binding(struct, 7)
            fcp = parse(schema_text([b]))
            ref, tot = reference(struct)
            for unroll in (True,):
                enc = make_encoder("packed", fcp, PackedEncoderContext().with_unroll_arrays(unroll))
                impl = list(fcp.get_matching_impls("can"))[0]
                pieces = enc.generate(impl)
                got = [(p.name, p.bitstart, p.bitlength) for p in pieces]
                check(got == [(nm, st, ln) for nm, st, ln, _, _ in ref], f"enc/{placement}/{total}: {got}")
            status, info = run_dbc(fcp)
            if total > 64:
                check(
                    status == "exc"
                    and isinstance(info, ValueError)
                    and str(info) == f"Message Msg too big. Current length: {total}",
                    f"encsweep/{placement}/{total}: dbc {status} {info!r}",
                )
            else:
                check(status == "ok", f"encsweep/{placement}/{total}: dbc {status} {info!r}")
                if status == "ok":
                    _, dlc, sigs = dbc_messages(info["default"])["Msg"]
                    check(dlc == (total + 7) // 8, f"encsweep/{placement}/{total}: dlc {dlc}")
                    check_geometry(
                        f"encsweep/{placement}/{total}",
                        [(s, st, ln, False) for s, _, st, ln, _, _ in sigs],
                        dlc,
                    )
            # the size check that guards the C generation command
            verifier = make_general_verifier()
            CGen().register_checks(verifier)
            res = verifier.verify(fcp)
            if total > 64:
                check(
                    res.is_err() and f"Impl Msg is way too big at {total} bits" in str(res),
                    f"encsweep/{placement}/{total}: verifier {res}",
                )
            else:
                check(res.is_ok(), f"encsweep/{placement}/{total}: verifier {res}")
            n += 1
    return n


def section_variable_size():
    rng = random.Random(5)
    n = 0
    for vi in range(len(variable_types(Namer()))):
        for position in POSITIONS:
            for pad in (0, 40, 70):
                if pad == 70 and (vi + POSITIONS.index(position)) % 3:
                    continue
                namer = Namer()
                vt = variable_types(namer)[vi]
                struct = build_variable(vt, position, pad, rng, namer, "Var")
                # a perfectly fine second binding must not survive either
                ok = ("struct", "Fine", [("a", 0, ("u", 8)), ("b", 1, ("i", 16))])
                first = vi % 2 == 0
                bindings = [Binding(struct, 20), Binding(ok, 21, bus="other")]
                if not first:
                    bindings.reverse()
                fcp = parse(schema_text(bindings))
                check_rejected(
                    f"var/{vi}/{position}/{pad}",
                    bindings,
                    fcp,
                    "variable size field",
                    first_bad=bindings[0] if first else None,
                )
                if not first:
                    st, info = run_dbc(fcp)
                    check(
                        st == "exc" and isinstance(info, ValueError),
                        f"var/{vi}/{position}/{pad}: {st} {info!r}",
                    )
                n += 1
    return n


def section_random_multi():
    """Several bindings per schema on several buses/devices with annotations."""
    rng = random.Random(2024)
    n = 0
    for round_ in range(60):
        namer = Namer()
        bindings = []
        count = rng.randint(2, 4)
        bad_index = rng.randrange(count) if round_ % 2 else None
        for i in range(count):
            if i == bad_index:
                total = rng.randint(65, 200)
            else:
                total = rng.randint(14, 64)
            placement = rng.choice(PLACEMENTS)
            struct = build_sized(total, placement, rng, namer, f"Msg{i}x{round_}")
            signals = {}
            first_name, _, first_type = sorted(struct[2], key=lambda f: f[1])[0]
            if first_type == ("u", 8) and rng.random() < 0.6:
                # byte aligned 8 bit signal: big endian annotation for both plug-ins
                signals[first_name] = {"endianess": '"big"', "endianness": '"big"'}
            bindings.append(
                Binding(
                    struct,
                    300 + i,
                    name=rng.choice([None, f"Alias{i}x{round_}"]),
                    bus=rng.choice([None, "chassis", "pt"]),
                    device=rng.choice(["ecu", "bms", "dash"]),
                    signals=signals,
                )
            )
        run_case(f"multi/{round_}", bindings)
        n += 1

    # multiplexed signals: the overlap rule only concerns non multiplexed ones
    mux = ("struct", "Muxed", [("sel", 0, ("u", 8)), ("val", 1, ("u", 16)), ("tail", 2, ("u", 40))])
    run_case(
        "mux/fit",
        [Binding(mux, 50, signals={"val": {"mux_count": "4", "mux_signal": '"sel"'}})],
    )
    muxbig = ("struct", "MuxedBig", [("sel", 0, ("u", 8)), ("val", 1, ("u", 16)), ("tail", 2, ("u", 41))])
    run_case(
        "mux/big",
        [Binding(muxbig, 51, signals={"val": {"mux_count": "4", "mux_signal": '"sel"'}})],
    )
    return n + 2


def section_reuse():
    """Generator, manager, verifier and encoder objects reused across schemas."""
    rng = random.Random(99)
    dbc_gen = fcp_dbc.Generator()
    managers = {
        "can_c": GeneratorManager(make_general_verifier()),
        "dbc": GeneratorManager(make_general_verifier()),
    }
    # one verifier with the can_c checks registered once, fed alternating schemas
    verifier = make_general_verifier()
    fcp_can_c.Generator().register_checks(verifier)
    seq = [60, 64, 65, 64, 130, 57, 66, 64, 200, 63]
    fcps = []
    for i, total in enumerate(seq):
        namer = Namer()
        struct = build_sized(total, PLACEMENTS[i % len(PLACEMENTS)], rng, namer, f"R{i}")
        bindings = [Binding(struct, 400 + i)]
        fcp = run_case(f"reuse/{i}/{total}", bindings, dbc_generator=dbc_gen, managers=managers)
        fcps.append((fcp, total))
        res = verifier.verify(fcp)
        check(res.is_ok() == (total <= 64), f"reuse/{i}: shared verifier says {res} for {total} bits")
    # go through them again, interleaved, each schema several times
    for _ in range(2):
        for i, (fcp, total) in enumerate(fcps):
            res = verifier.verify(fcp)
            check(res.is_ok() == (total <= 64), f"reuse2/{i}: shared verifier says {res} for {total} bits")
            if total > 64:
                check(f"way too big at {total} bits" in str(res), f"reuse2/{i}: {res}")

    # same schema object mutated between two verifications: no stale answer
    namer = Namer()
    struct = build_sized(64, "flat_last", rng, namer, "Grow")
    fcp = parse(schema_text([Binding(struct, 9)]))
    check(verifier.verify(fcp).is_ok(), "grow: 64 bits accepted")
    target = fcp.get_struct("Grow").unwrap()
    extra = deepcopy(target.fields[0])
    extra.name = "extra_bit"
    extra.field_id = 99
    from fcp.specs.type import UnsignedType

    extra.type = UnsignedType("u1")
    target.fields.append(extra)
    res = verifier.verify(fcp)
    check(res.is_err() and "way too big at 65 bits" in str(res), f"grow: after mutation {res}")
    st, info = run_dbc(fcp, dbc_gen)
    check(st == "exc" and "Current length: 65" in str(info), f"grow: dbc {st} {info!r}")
    target.fields.pop()
    check(verifier.verify(fcp).is_ok(), "grow: back to 64 bits accepted")
    st, info = run_dbc(fcp, dbc_gen)
    check(st == "ok", f"grow: dbc after shrinking {st} {info!r}")

    # one encoder, many impls, failures in between
    namer = Namer()
    good = build_sized(61, "array_struct", rng, namer, "Good")
    big = build_sized(99, "nested2", rng, namer, "Big")
    var = build_variable(("opt", ("u", 8)), "nested", 10, rng, namer, "Varr")
    fcp = parse(schema_text([Binding(good, 1), Binding(big, 2), Binding(var, 3)]))
    impls = {i.name: i for i in fcp.get_matching_impls("can")}
    enc = make_encoder("packed", fcp, PackedEncoderContext().with_unroll_arrays(True))
    first = enc.generate(impls["Good"])
    snapshot = [(p.name, p.bitstart, p.bitlength) for p in first]
    check(snapshot == [(nm, st, ln) for nm, st, ln, _, _ in reference(good)[0]], "enc reuse: first")
    bigp = enc.generate(impls["Big"])
    check(
        [(p.name, p.bitstart, p.bitlength) for p in bigp] == [(nm, st, ln) for nm, st, ln, _, _ in reference(big)[0]],
        "enc reuse: big layout is complete, not truncated",
    )
    check(bigp[-1].bitstart + bigp[-1].bitlength == 99, "enc reuse: big size")
    try:
        enc.generate(impls["Varr"])
        check(False, "enc reuse: variable size accepted")
    except ValueError as e:
        check(str(e).startswith("Error computing type length for type OptionalType"), f"enc reuse: {e}")
    again = enc.generate(impls["Good"])
    check([(p.name, p.bitstart, p.bitlength) for p in again] == snapshot, "enc reuse: after failures")
    check([(p.name, p.bitstart, p.bitlength) for p in first] == snapshot, "enc reuse: earlier result untouched")
    check(first == again, "enc reuse: Value equality")

    # rolled arrays (default context): one piece per scalar array, arrays of
    # structs cannot be expressed and are refused
    enc2 = make_encoder("packed", fcp, PackedEncoderContext())
    try:
        enc2.generate(impls["Good"])
        check(False, "rolled: array of struct accepted")
    except ValueError as e:
        check(str(e).startswith("Error computing type length for type StructType"), f"rolled: {e}")
    namer = Namer()
    arr = build_sized(90, "array_scalar", rng, namer, "Arr")
    fcp3 = parse(schema_text([Binding(arr, 1)]))
    impl3 = list(fcp3.get_matching_impls("can"))[0]
    rolled = make_encoder("packed", fcp3, PackedEncoderContext()).generate(impl3)
    check(len(rolled) == len(arr[2]), f"rolled: {len(rolled)} pieces for {len(arr[2])} fields")
    check(rolled[-1].bitstart + rolled[-1].bitlength == 90, "rolled: size")
    check(sum(p.bitlength for p in rolled) == 90, "rolled: sum")
    return len(seq) + 3


def section_odd_schemas():
    """Schemas that only a program can build: impl of an enum, self containing struct."""
    n = 0
    fcp = parse(
        'version: "3"\n'
        "enum E {\n    A = 0,\n    B = 9,\n}\n"
        "struct Inner {\n    y @0: u8,\n}\n"
        "struct Outer {\n    x @0: u8,\n    inner @1: Inner,\n    e @2: E,\n}\n"
        "impl can for Outer {\n    id: 1,\n}\n"
    )
    impl = list(fcp.get_matching_impls("can"))[0]
    enc = make_encoder("packed", fcp, PackedEncoderContext().with_unroll_arrays(True))
    base = [(p.name, p.bitstart, p.bitlength) for p in enc.generate(impl)]
    check(base == [("x", 0, 8), ("inner::y", 8, 8), ("e", 16, 4)], f"odd: base {base}")

    # a struct typed field that names an enum
    outer = fcp.get_struct("Outer").unwrap()
    f = deepcopy(outer.fields[0])
    f.name, f.field_id, f.type = "as_struct", 3, StructType("E")
    outer.fields.append(f)
    got = [(p.name, p.bitstart, p.bitlength) for p in enc.generate(impl)]
    check(got == base + [("as_struct", 20, 4)], f"odd: enum through struct type {got}")
    outer.fields.pop()
    n += 1

    # Inner contains Outer contains Inner ...: must fail with an error, never hang
    inner = fcp.get_struct("Inner").unwrap()
    g = deepcopy(inner.fields[0])
    g.name, g.field_id, g.type = "back", 1, StructType("Outer")
    inner.fields.append(g)
    for what, call in (
        ("encoder", lambda: enc.generate(impl)),
        ("dbc", lambda: fcp_dbc.Generator().generate(fcp, {"output": "o"})),
    ):
        try:
            call()
            check(False, f"odd: cyclic schema accepted by {what}")
        except RecursionError:
            check(True, "")
        except Exception as e:  # noqa
            check(False, f"odd: cyclic schema {what} raised {type(e).__name__}: {e}")
    d = tempfile.mkdtemp(prefix="c14_")
    try:
        try:
            res = GeneratorManager(make_general_verifier()).generate("can_c", None, None, fcp, d)
            check(not res.is_ok(), "odd: cyclic schema accepted by can_c command")
        except RecursionError:
            check(True, "")
        check(os.listdir(d) == [], f"odd: cyclic schema wrote {os.listdir(d)}")
    finally:
        shutil.rmtree(d, ignore_errors=True)
    inner.fields.pop()
    got = [(p.name, p.bitstart, p.bitlength) for p in enc.generate(impl)]
    check(got == base, f"odd: after removing the cycle {got}")

    # same struct twice side by side is NOT a cycle
    fcp2 = parse(
        'version: "3"\n'
        "struct P {\n    a @0: u4,\n}\n"
        "struct Q {\n    p1 @0: P,\n    p2 @1: P,\n    ps @2: [P, 2],\n}\n"
        "struct R {\n    q1 @0: Q,\n    q2 @1: Q,\n    p @2: P,\n}\n"
        "impl can for R {\n    id: 1,\n    device: \"ecu\",\n}\n"
    )
    b = Binding(
        (
            "struct",
            "R",
            [
                ("q1", 0, ("struct", "Q", [("p1", 0, ("struct", "P", [("a", 0, ("u", 4))])), ("p2", 1, ("struct", "P", [("a", 0, ("u", 4))])), ("ps", 2, ("arr", ("struct", "P", [("a", 0, ("u", 4))]), 2))])),
                ("q2", 1, ("struct", "Q", [("p1", 0, ("struct", "P", [("a", 0, ("u", 4))])), ("p2", 1, ("struct", "P", [("a", 0, ("u", 4))])), ("ps", 2, ("arr", ("struct", "P", [("a", 0, ("u", 4))]), 2))])),
                ("p", 2, ("struct", "P", [("a", 0, ("u", 4))])),
            ],
        ),
        1,
    )
    check(reference(b.struct)[1] == 36, "odd: diamond reference size")
    check_accepted("odd/diamond", [b], fcp2)
    return n + 2


def section_interleaved():
    """Two multi binding schemas verified alternately with the same verifier objects."""
    rng = random.Random(31337)
    namer = Namer()
    fit = [
        Binding(build_sized(64, "array_struct", rng, namer, "FitA"), 1),
        Binding(build_sized(57, "nested2", rng, namer, "FitB"), 2, bus="two"),
        Binding(build_sized(63, "enum_tail", rng, namer, "FitC"), 3, device="bms"),
    ]
    namer = Namer()
    unfit = [
        Binding(build_sized(64, "flat_first", rng, namer, "FitA"), 1),
        Binding(build_sized(40, "nested", rng, namer, "FitB"), 2),
        Binding(build_sized(65, "array_nested", rng, namer, "FitC"), 3),
        Binding(build_sized(20, "flat_last", rng, namer, "FitD"), 4),
    ]
    namer = Namer()
    unpackable = [
        Binding(build_sized(30, "flat_last", rng, namer, "FitA"), 1),
        Binding(build_variable(("dyn", ("u", 8)), "nested2", 12, rng, namer, "FitB"), 2),
    ]
    fcp_fit = parse(schema_text(fit))
    fcp_unfit = parse(schema_text(unfit))
    fcp_unpackable = parse(schema_text(unpackable))
    verifier = make_general_verifier()
    fcp_can_c.Generator().register_checks(verifier)
    generator = fcp_can_c.Generator()
    second = make_general_verifier()
    generator.register_checks(second)
    third = make_general_verifier()
    generator.register_checks(third)
    manager = GeneratorManager(make_general_verifier())
    for i in range(3):
        for v in (verifier, second, third):
            check(v.verify(fcp_fit).is_ok(), f"interleaved/{i}: fitting schema refused")
            res = v.verify(fcp_unfit)
            check(
                res.is_err() and "Impl FitC is way too big at 65 bits" in str(res),
                f"interleaved/{i}: {res}",
            )
            res = v.verify(fcp_unpackable)
            check(
                res.is_err() and "Impl FitB cannot be packed into a CAN frame" in str(res),
                f"interleaved/{i}: {res}",
            )
        check_accepted(f"interleaved/{i}/fit", fit, fcp_fit, managers={"can_c": manager})
        check_rejected(
            f"interleaved/{i}/unfit", unfit, fcp_unfit, "FitC", managers={"can_c": manager}, first_bad=unfit[2]
        )
        check_rejected(
            f"interleaved/{i}/unpackable",
            unpackable,
            fcp_unpackable,
            "FitB",
            managers={"can_c": manager},
            first_bad=unpackable[1],
        )
    return 9


def main(extra_sections=()):
    import fcp

    print("fcp from", os.path.dirname(fcp.__file__))
    print("fcp_dbc from", os.path.dirname(fcp_dbc.__file__))
    print("fcp_can_c from", os.path.dirname(fcp_can_c.__file__))
    sections = [
        section_encoder_sweep,
        section_boundary_sweep,
        section_variable_size,
        section_random_multi,
        section_reuse,
        section_interleaved,
        section_odd_schemas,
    ] + list(extra_sections)
    for s in sections:
        before = CHECKS
        n = s()
        print(f"{s.__name__}: {n} cases, {CHECKS - before} checks")
    if FAILURES:
        print(f"FAIL: {len(FAILURES)} of {CHECKS} checks failed")
        return 1
    print(f"PASS ({CHECKS} checks)")
    return 0


if __name__ == "__main__":
    sys.exit(main())
