#!/venv/bin/python
"""Differential test for property C06.

Generated C CAN code packs and unpacks frames per the packed layout.

For a spread of flat CAN schemas (1..8 signals, 1..64 bit integers, f32, f64
and enums, shuffled field ids, unaligned offsets, several devices) this script

  1. computes the expected layout with an independent reference packer,
  2. checks the Python encoder (fcp.encoding) against that layout, including
     nested structs, unrolled arrays, repeated calls and error inputs,
  3. generates the C sources with the fcp_can_c plug-in, compiles them with gcc
     together with a generated harness and checks that every encode call
     returns the binding id, a DLC of ceil(bits/8) and the reference data
     bytes, and that decode maps the frame back to the original value.

The code under test is found through PYTHONPATH, e.g.

    R=/tmp/twin3-C06
    PYTHONPATH=$R/src:$R/plugins/fcp_dbc:$R/plugins/fcp_can_c:$R/plugins/fcp_cpp:$R/plugins/fcp_nop \
        /venv/bin/python demo.py

Exits 0 and prints PASS when the property holds on all inputs.
"""

import math
import os
import random
import shutil
import struct
import subprocess
import sys
import tempfile
from pathlib import Path

from fcp.parser import get_fcp_from_string
from fcp.encoding import make_encoder, PackedEncoderContext
from fcp.specs.type import ArrayType, UnsignedType
from fcp.specs.struct_field import StructField
from fcp_can_c import Generator

FCP_ROOT = os.environ.get("FCP_ROOT", "/tmp/twin3-C06")
CC = os.environ.get("CC", "gcc")
RNG = random.Random(0xC06)

failures = []


def check(cond, what):
    if not cond:
        failures.append(what)
        print("FAIL:", what)


# --------------------------------------------------------------------------
# Schema model used by the reference packer
# --------------------------------------------------------------------------


class Sig:
    """One flat signal: name, fcp type text and (for enums) its enumeration."""

    def __init__(self, name, typ, enum=None):
        self.name = name
        self.typ = typ  # "u5", "i12", "f32", "f64" or an enum name
        self.enum = enum  # dict name -> value

    @property
    def kind(self):
        if self.enum is not None:
            return "enum"
        if self.typ in ("f32", "f64"):
            return self.typ
        return self.typ[0]

    @property
    def bits(self):
        if self.enum is not None:
            m = max(self.enum.values())
            return 1 if m in (0, 1) else m.bit_length()
        return int(self.typ[1:])

    def c_scalar(self):
        if self.kind == "f32":
            return "float"
        if self.kind == "f64":
            return "double"
        width = 8
        while width < self.bits:
            width *= 2
        return ("int%d_t" if self.kind == "i" else "uint%d_t") % width

    def raw(self, value):
        """Bit pattern of value in this signal (an int < 2**bits)."""
        if self.kind == "f32":
            return struct.unpack("<I", struct.pack("<f", value))[0]
        if self.kind == "f64":
            return struct.unpack("<Q", struct.pack("<d", value))[0]
        return value & ((1 << self.bits) - 1)

    def boundary_values(self):
        n = self.bits
        if self.kind == "u":
            vals = {0, 1, (1 << n) - 1, 1 << (n - 1), (1 << n) // 3}
            vals.add(RNG.randrange(1 << n))
        elif self.kind == "i":
            lo, hi = -(1 << (n - 1)), (1 << (n - 1)) - 1
            vals = {0, lo, hi, -1, max(lo, min(hi, 1)), hi // 3, lo // 3}
            vals.add(RNG.randrange(lo, hi + 1))
        elif self.kind == "enum":
            vals = set(self.enum.values())
        elif self.kind == "f32":
            vals = {0.0, 1.0, -1.0, 0.5, -2.75, 3.0e38, -1.0e-38, 16777216.0, 0.1}
            vals = {struct.unpack("<f", struct.pack("<f", v))[0] for v in vals}
        else:
            vals = {0.0, 1.0, -1.0, 0.1, -2.75, 1.7e308, -2.3e-308, 9007199254740993.0}
        return sorted(vals)


class Msg:
    def __init__(self, name, can_id, device, sigs, field_ids=None, period=None):
        self.name = name
        self.can_id = can_id
        self.device = device
        self.sigs = sigs  # declaration order
        self.field_ids = field_ids or list(range(len(sigs)))
        self.period = period

    def ordered(self):
        """Signals in layout order (ascending field id)."""
        pairs = sorted(zip(self.field_ids, range(len(self.sigs))))
        return [self.sigs[i] for _, i in pairs]

    def layout(self):
        start = 0
        out = []
        for s in self.ordered():
            out.append((s, start, s.bits))
            start += s.bits
        return out

    def total_bits(self):
        return sum(s.bits for s in self.sigs)

    def snake(self):
        return "".join("_" + c.lower() if c.isupper() else c for c in self.name).lstrip(
            "_"
        )

    def pack(self, values):
        word = 0
        for s, start, n in self.layout():
            word |= (s.raw(values[s.name]) & ((1 << n) - 1)) << start
        return word.to_bytes(8, "little")


def schema_text(enums, msgs):
    out = ['version: "3"', ""]
    for ename, evals in enums.items():
        out.append("enum %s {" % ename)
        for k, v in evals.items():
            out.append("    %s = %d," % (k, v))
        out.append("}")
        out.append("")
    for m in msgs:
        out.append("struct %s {" % m.name)
        for s, fid in zip(m.sigs, m.field_ids):
            out.append("    %s @%d: %s," % (s.name, fid, s.typ))
        out.append("}")
        out.append("")
        out.append("impl can for %s {" % m.name)
        out.append("    id: %d," % m.can_id)
        if m.device is not None:
            out.append('    device: "%s",' % m.device)
        if m.period is not None:
            out.append("    period: %d," % m.period)
        out.append("}")
        out.append("")
    return "\n".join(out)


# --------------------------------------------------------------------------
# Schemas
# --------------------------------------------------------------------------

ENUMS = {
    "Gear": {"GearP": 0, "GearR": 1, "GearN": 2, "GearD": 3},
    "Flag": {"FlagOff": 0, "FlagOn": 1},
    "Wide": {"WideA": 0, "WideB": 5, "WideC": 255, "WideD": 256},
    "Mode": {"ModeX": 1, "ModeY": 4, "ModeZ": 7},
}


def S(name, typ):
    return Sig(name, typ, ENUMS.get(typ))


def handpicked():
    msgs = []
    # one signal of every width at offset 0
    specials = ["u1", "u7", "u8", "u9", "u16", "u17", "u31", "u32", "u33", "u63", "u64"]
    specials += ["i1", "i2", "i8", "i9", "i16", "i31", "i32", "i33", "i63", "i64"]
    specials += ["f32", "f64", "Gear", "Flag", "Wide", "Mode"]
    for t in specials:
        msgs.append([S("val", t)])
    # unaligned offsets
    msgs.append([S("a", "u3"), S("b", "i5"), S("c", "u11"), S("d", "i13"), S("e", "u32")])
    msgs.append([S("a", "u1"), S("b", "f32"), S("c", "i31")])
    msgs.append([S("a", "Gear"), S("b", "f32"), S("c", "Flag"), S("d", "i29")])
    msgs.append([S("a", "u5"), S("b", "u59")])
    msgs.append([S("a", "i59"), S("b", "i5")])
    msgs.append([S("a", "f32"), S("b", "f32")])
    msgs.append([S("a", "u8"), S("b", "u8"), S("c", "u8"), S("d", "u8"),
                 S("e", "u8"), S("f", "u8"), S("g", "u8"), S("h", "u8")])
    msgs.append([S("a", "i8"), S("b", "i8"), S("c", "i8"), S("d", "i8"),
                 S("e", "i8"), S("f", "i8"), S("g", "i8"), S("h", "i8")])
    msgs.append([S("a", "u1"), S("b", "u1"), S("c", "u1"), S("d", "i1"),
                 S("e", "Flag"), S("f", "u1"), S("g", "i2"), S("h", "u56")])
    msgs.append([S("a", "Wide"), S("b", "Mode"), S("c", "Gear"), S("d", "u16"), S("e", "i33")])
    msgs.append([S("a", "u33"), S("b", "i31")])
    msgs.append([S("a", "i17"), S("b", "u15"), S("c", "f32")])
    return msgs


def random_msg_sigs():
    n = RNG.randint(1, 8)
    budget = 64
    sigs = []
    for i in range(n):
        remaining_slots = n - i - 1
        avail = budget - remaining_slots  # leave one bit for each later signal
        choices = ["u", "i", "u", "i"]
        if avail >= 32:
            choices.append("f32")
        if avail >= 9:
            choices.append("Wide")
        if avail >= 3:
            choices += ["Gear", "Mode"]
        choices.append("Flag")
        k = RNG.choice(choices)
        if k in ("u", "i"):
            top = avail if RNG.random() < 0.3 else min(avail, RNG.choice([4, 8, 12, 16, 24, 40]))
            typ = "%s%d" % (k, RNG.randint(1, top))
        else:
            typ = k
        s = S("s%d" % i, typ)
        sigs.append(s)
        budget -= s.bits
    assert budget >= 0
    return sigs


def build_messages():
    msgs = []
    devices = ["ecu", "bms", None, "dash_board"]
    n = 0
    for sigs in handpicked():
        n += 1
        msgs.append(Msg("Hand%d" % n, n, devices[n % 2], sigs))
    for r in range(30):
        n += 1
        sigs = random_msg_sigs()
        ids = list(range(len(sigs)))
        if r % 2:
            RNG.shuffle(ids)
        if r % 5 == 0:
            ids = [i * 3 + 1 for i in ids]
        can_id = RNG.choice([n, 0x7FF - r, 0x400 + n])
        msgs.append(
            Msg("Rnd%dMsg" % r, can_id, devices[r % 4], sigs, ids,
                period=(10 * r if r % 3 == 0 else None))
        )
    return msgs


# --------------------------------------------------------------------------
# Part 1: python encoder against the reference layout
# --------------------------------------------------------------------------


def new_encoder(fcp, unroll=True):
    return make_encoder("packed", fcp, PackedEncoderContext().with_unroll_arrays(unroll))


def check_encoder_flat(fcp, msgs):
    encoder = new_encoder(fcp)
    by_name = {m.name: m for m in msgs}
    seen = 0
    impls = list(fcp.get_matching_impls("can"))
    # twice, and the second time in reverse order: generate() must not keep state
    for impl in impls + impls[::-1]:
        m = by_name[impl.name]
        got = [(p.name, p.bitstart, p.bitlength, p.type.name) for p in encoder.generate(impl)]
        want = [(s.name, start, n, s.typ) for s, start, n in m.layout()]
        check(got == want, "encoder layout of %s: %r != %r" % (m.name, got, want))
        seen += 1
    check(seen == 2 * len(msgs), "every impl seen")


NESTED = """version: "3"

enum Color {
    Red = 0,
    Green = 1,
    Blue = 6,
}

struct Inner {
    lo @1: u3,
    hi @0: i5,
}

struct Mid {
    first @0: Inner,
    tag @1: Color,
    second @2: Inner,
}

struct Outer {
    head @0: u2,
    mids @1: [Mid, 2],
    grid @2: [[u2, 2], 2],
    tail @3: f32,
}

struct Plain {
    arr @0: [u4, 3],
    c @1: Color,
}

impl can for Outer {
    id: 77,
    device: "ecu",
    signal head {
        endianess: "big",
    },
    signal tail {
        mux_count: 3,
    },
}

impl can for Plain {
    id: 78,
    signal arr_1 {
        endianess: "big",
    },
}

impl can for Color {
    id: 79,
}
"""


def check_encoder_nested():
    fcp = get_fcp_from_string(NESTED).unwrap()
    impls = {i.name: i for i in fcp.get_matching_impls("can")}
    enc = new_encoder(fcp)

    def inner(prefix):
        return [(prefix + "::hi", 5, "i5"), (prefix + "::lo", 3, "u3")]

    def mid(prefix):
        return inner(prefix + "::first") + [(prefix + "::tag", 3, "Color")] + inner(prefix + "::second")

    want = [("head", 2, "u2")] + mid("mids_0") + mid("mids_1")
    want += [("grid_%d_%d" % (i, j), 2, "u2") for i in range(2) for j in range(2)]
    want += [("tail", 32, "f32")]
    for _ in range(3):
        pieces = enc.generate(impls["Outer"])
        got = [(p.name, p.bitlength, p.type.name) for p in pieces]
        check(got == want, "nested layout: %r" % (got,))
        starts = [p.bitstart for p in pieces]
        exp, acc = [], 0
        for _, n, _t in want:
            exp.append(acc)
            acc += n
        check(starts == exp, "nested bit starts: %r" % (starts,))
        check(pieces[0].endianess == "big" and pieces[1].endianess == "little", "endianess from signal block")
        check(pieces[0].extended_data == {"endianess": "big"}, "extended data head")
        check(pieces[-1].extended_data == {"mux_count": 3}, "extended data tail")
        check(all(p.composite_type.is_nothing() for p in pieces), "no composite type on fields")
        check(enc.bitstart == acc, "bitstart after generate")

    pieces = enc.generate(impls["Plain"])
    got = [(p.name, p.bitstart, p.bitlength, p.endianess) for p in pieces]
    check(
        got == [("arr_0", 0, 4, "little"), ("arr_1", 4, 4, "big"), ("arr_2", 8, 4, "little"), ("c", 12, 3, "little")],
        "unrolled array: %r" % (got,),
    )
    rolled = new_encoder(fcp, unroll=False).generate(impls["Plain"])
    got = [(p.name, p.bitstart, p.bitlength) for p in rolled]
    check(got == [("arr", 0, 12), ("c", 12, 3)], "rolled array: %r" % (got,))

    # an impl bound directly to an enum
    pieces = enc.generate(impls["Color"])
    check(len(pieces) == 1, "enum impl has one piece")
    p = pieces[0]
    check((p.name, p.bitstart, p.bitlength) == ("", 0, 3), "enum impl piece %r" % (p,))
    check(p.composite_type.unwrap_or(None) == "Color", "enum impl composite type")

    # error inputs: same exception types as always
    def raises(exc, fn, what):
        try:
            fn()
        except exc:
            return
        except BaseException as e:  # noqa: BLE001
            check(False, "%s raised %r instead of %s" % (what, e, exc.__name__))
            return
        check(False, "%s did not raise" % what)

    raises(ValueError, lambda: new_encoder(fcp, unroll=False).generate(impls["Outer"]),
           "rolled array of structs")
    check(
        [p.name for p in new_encoder(fcp, unroll=False).encoding] == [],
        "fresh encoder has no encoding",
    )
    e2 = new_encoder(fcp, unroll=False)
    raises(ValueError, lambda: e2.generate(impls["Outer"]), "rolled array of structs (2)")
    check([p.name for p in e2.encoding] == ["head"], "partial encoding kept on error: %r" % (e2.encoding,))
    check(e2.bitstart == 2, "partial bitstart kept on error")
    # and the encoder is usable afterwards
    check([p.name for p in e2.generate(impls["Plain"])] == ["arr", "c"], "encoder reusable after error")

    raises(ValueError, lambda: enc._generate(UnsignedType("u8"), impls["Plain"]), "_generate on scalar")
    raises(ValueError, lambda: enc._generate(ArrayType(UnsignedType("u8"), 2), impls["Plain"]), "_generate on array")

    class Missing:
        type = "Nope"
        name = "Missing"
        signals = []

    raises(Exception, lambda: enc.generate(Missing()), "unknown struct")
    raises(KeyError, lambda: make_encoder("loose", fcp, PackedEncoderContext()), "unknown encoder")

    # duplicate field ids keep declaration order (stable sort)
    plain = fcp.get_struct("Plain").unwrap()
    saved = list(plain.fields)
    plain.fields = [
        StructField("z", 1, UnsignedType("u1")),
        StructField("y", 0, UnsignedType("u2")),
        StructField("x", 1, UnsignedType("u3")),
        StructField("w", 0, UnsignedType("u4")),
    ]
    got = [(p.name, p.bitstart) for p in enc.generate(impls["Plain"])]
    check(got == [("y", 0), ("w", 2), ("z", 6), ("x", 7)], "stable field order: %r" % (got,))
    plain.fields = saved


# --------------------------------------------------------------------------
# Part 2: generated C against the reference packer
# --------------------------------------------------------------------------


def c_literal(sig, value):
    k = sig.kind
    if k == "enum":
        for name, v in sig.enum.items():
            if v == value:
                return name.upper()
        raise AssertionError
    if k == "f32":
        return "bits_to_float(0x%08xu)" % sig.raw(value)
    if k == "f64":
        return "bits_to_double(0x%016xull)" % sig.raw(value)
    if k == "u":
        return "%dull" % value
    if value == -(1 << 63):
        return "(-9223372036854775807ll - 1)"
    return "%dll" % value


def vectors_for(msg):
    per_sig = {s.name: s.boundary_values() for s in msg.sigs}
    vecs = []
    longest = max(len(v) for v in per_sig.values())
    for i in range(longest):
        vecs.append({n: v[i % len(v)] for n, v in per_sig.items()})
    # all-min / all-max / mixed
    vecs.append({n: v[0] for n, v in per_sig.items()})
    vecs.append({n: v[-1] for n, v in per_sig.items()})
    vecs.append({n: (v[0] if j % 2 else v[-1]) for j, (n, v) in enumerate(per_sig.items())})
    for _ in range(6):
        vecs.append({n: RNG.choice(v) for n, v in per_sig.items()})
    return vecs


def harness_source(device_file, msgs, vectors):
    out = [
        "#include <stdio.h>",
        "#include <string.h>",
        "#include <stdint.h>",
        '#include "%s_can.h"' % device_file,
        "static float bits_to_float(uint32_t b) { float f; memcpy(&f, &b, 4); return f; }",
        "static double bits_to_double(uint64_t b) { double d; memcpy(&d, &b, 8); return d; }",
        "static uint32_t float_bits(float f) { uint32_t b; memcpy(&b, &f, 4); return b; }",
        "static uint64_t double_bits(double d) { uint64_t b; memcpy(&b, &d, 8); return b; }",
        "static void show(const char *tag, const CanFrame *f) {",
        '    printf("%s %u %u", tag, (unsigned)f->id, (unsigned)f->dlc);',
        '    for (int i = 0; i < 8; i++) printf(" %02x", (unsigned)f->data[i]);',
        '    printf("\\n");',
        "}",
        "int main(void) {",
    ]
    for m in msgs:
        sn = m.snake()
        for vec in vectors[m.name]:
            out.append("    {")
            out.append("        CanMsg%s in;" % m.name)
            out.append("        memset(&in, 0, sizeof in);")
            for s in m.ordered():
                out.append("        in.%s = %s;" % (s.name, c_literal(s, vec[s.name])))
            out.append("        CanFrame f = can_encode_msg_%s(&in);" % sn)
            out.append('        show("E", &f);')
            out.append('        printf("M %%d\\n", (int)can_is_%s_msg(&f));' % device_file)
            # decode from a pristine copy that only carries what a bus would carry
            out.append("        CanFrame g;")
            out.append("        memset(&g, 0, sizeof g);")
            out.append("        g.id = f.id; g.dlc = f.dlc; memcpy(g.data, f.data, 8);")
            out.append("        CanMsg%s o = can_decode_msg_%s(&g);" % (m.name, sn))
            out.append('        printf("D");')
            for s in m.ordered():
                k = s.kind
                if k == "f32":
                    out.append('        printf(" %%u", (unsigned)float_bits(o.%s));' % s.name)
                elif k == "f64":
                    out.append('        printf(" %%llu", (unsigned long long)double_bits(o.%s));' % s.name)
                elif k == "i":
                    out.append('        printf(" %%lld", (long long)o.%s);' % s.name)
                else:
                    out.append('        printf(" %%llu", (unsigned long long)o.%s);' % s.name)
            out.append('        printf("\\n");')
            out.append("        /* encode is repeatable */")
            out.append("        CanFrame f2 = can_encode_msg_%s(&in);" % sn)
            out.append('        printf("R %d\\n", (int)(memcmp(f.data, f2.data, 8) == 0 && f.id == f2.id && f.dlc == f2.dlc));')
            out.append("    }")
    out.append("    return 0;")
    out.append("}")
    return "\n".join(out) + "\n"


def decode_printed(sig, text):
    v = int(text)
    if sig.kind == "f32":
        return struct.unpack("<f", struct.pack("<I", v))[0]
    if sig.kind == "f64":
        return struct.unpack("<d", struct.pack("<Q", v))[0]
    return v


def device_file_name(device):
    return "".join("_" + c.lower() if c.isupper() else c for c in device).lstrip("_")


def check_generated_c(fcp, msgs, workdir):
    outdir = Path(workdir) / "gen"
    gen = Generator()
    gen.gen(fcp, None, None, str(outdir))
    produced = sorted(p.name for p in outdir.iterdir())
    devices = sorted({m.device or "global" for m in msgs} | {"global"})
    want_files = sorted(
        ["can_frame.h", "can_signal_parser.c", "can_signal_parser.h"]
        + ["%s_can.h" % d for d in devices]
        + ["%s_can.c" % d for d in devices if any((m.device or "global") == d for m in msgs)]
    )
    check(produced == want_files, "generated files %r != %r" % (produced, want_files))

    # static files are shipped verbatim-compatible: they must exist and compile
    vectors = {m.name: vectors_for(m) for m in msgs}
    total_vectors = 0
    for dev in devices:
        dmsgs = [m for m in msgs if (m.device or "global") == dev]
        if not dmsgs:
            continue
        dfile = device_file_name(dev)
        harness = Path(workdir) / ("harness_%s.c" % dfile)
        harness.write_text(harness_source(dfile, dmsgs, vectors))
        exe = Path(workdir) / ("harness_%s" % dfile)
        for opt in ("-O0", "-O2"):
            cmd = [CC, "-std=gnu11", opt, "-w", "-I", str(outdir), str(harness),
                   str(outdir / ("%s_can.c" % dfile)), str(outdir / "can_signal_parser.c"),
                   "-o", str(exe)]
            r = subprocess.run(cmd, capture_output=True, text=True)
            check(r.returncode == 0, "generated C for %s compiles (%s): %s" % (dev, opt, r.stderr[:2000]))
            if r.returncode != 0:
                continue
            run = subprocess.run([str(exe)], capture_output=True, text=True)
            check(run.returncode == 0, "harness for %s runs" % dev)
            lines = run.stdout.split("\n")
            pos = 0
            for m in dmsgs:
                for vec in vectors[m.name]:
                    e, mm, d, rr = lines[pos:pos + 4]
                    pos += 4
                    total_vectors += 1
                    ef = e.split()
                    data = bytes(int(x, 16) for x in ef[3:11])
                    label = "%s %s %r" % (m.name, opt, vec)
                    check(ef[0] == "E" and int(ef[1]) == m.can_id, "id of %s: %s" % (label, e))
                    check(int(ef[2]) == math.ceil(m.total_bits() / 8), "dlc of %s: %s" % (label, e))
                    check(data == m.pack(vec), "data of %s: %s != %s" % (label, data.hex(), m.pack(vec).hex()))
                    check(mm == "M 1", "can_is_%s_msg of %s" % (dfile, label))
                    check(rr == "R 1", "repeatable encode of %s" % label)
                    df = d.split()
                    check(df[0] == "D" and len(df) == 1 + len(m.sigs), "decode line of %s" % label)
                    for s, text in zip(m.ordered(), df[1:]):
                        got = decode_printed(s, text)
                        check(got == vec[s.name], "decode %s.%s of %s: %r" % (m.name, s.name, label, got))
            check(pos == len(lines) - 1 and lines[-1] == "", "all harness lines consumed for %s" % dev)
    return total_vectors


PARSER_HARNESS = r"""
#include <stdio.h>
#include <string.h>
#include "can_signal_parser.h"
int main(void) {
    for (int l = 0; l < 256; l++) printf("B %d %llx\n", l, (unsigned long long)bitmask((uint8_t)l));
    /* every (start, length) window of an all-ones and of a patterned payload */
    const uint64_t words[2] = {0xffffffffffffffffULL, 0x8123456789abcdefULL};
    for (int w = 0; w < 2; w++) {
        CanFrame f;
        memset(&f, 0, sizeof f);
        memcpy(f.data, &words[w], 8);
        for (unsigned len = 1; len <= 64; len++)
            for (unsigned start = 0; start + len <= 64; start++) {
                unsigned long long u = can_decode_signal_as_uint64_t(&f, start, len, 1.0, 0.0, false);
                long long i = len < 64 ? can_decode_signal_as_int64_t(&f, start, len, 1.0, 0.0, false) : 0;
                unsigned long long e = can_encode_signal_from_uint64_t(words[w], start, len, 1.0, 0.0, false);
                unsigned long long es = can_encode_signal_from_int64_t((int64_t)words[w], start, len, 1.0, 0.0, false);
                printf("W %d %u %u %llx %lld %llx %llx\n", w, start, len, u, i, e, es);
            }
    }
    return 0;
}
"""


def check_static_parser(workdir):
    """The shipped signal parser, exercised directly on every bit window."""
    outdir = Path(workdir) / "gen"
    src = Path(workdir) / "parser_harness.c"
    src.write_text(PARSER_HARNESS)
    exe = Path(workdir) / "parser_harness"
    words = [0xFFFFFFFFFFFFFFFF, 0x8123456789ABCDEF]
    count = 0
    for opt in ("-O0", "-O2"):
        r = subprocess.run([CC, "-std=gnu11", opt, "-w", "-I", str(outdir), str(src),
                            str(outdir / "can_signal_parser.c"), "-o", str(exe)],
                           capture_output=True, text=True)
        check(r.returncode == 0, "signal parser compiles (%s): %s" % (opt, r.stderr[:1000]))
        if r.returncode != 0:
            continue
        lines = subprocess.run([str(exe)], capture_output=True, text=True).stdout.split("\n")
        it = iter(lines)
        for l in range(256):
            tag, ll, mask = next(it).split()
            check(tag == "B" and int(ll) == l and int(mask, 16) == (1 << min(l, 64)) - 1, "bitmask(%d) %s" % (l, opt))
        for w in range(2):
            for n in range(1, 65):
                for start in range(0, 64 - n + 1):
                    tag, ww, st, ln, u, i, e, es = next(it).split()
                    check((tag, int(ww), int(st), int(ln)) == ("W", w, start, n), "window line")
                    field = (words[w] >> start) & ((1 << n) - 1)
                    check(int(u, 16) == field, "unsigned window %d %d %d %s" % (w, start, n, opt))
                    if n < 64:
                        signed = field - (1 << n) if field >> (n - 1) else field
                        check(int(i) == signed, "signed window %d %d %d %s" % (w, start, n, opt))
                    placed = ((words[w] & ((1 << n) - 1)) << start) & 0xFFFFFFFFFFFFFFFF
                    check(int(e, 16) == placed and int(es, 16) == placed, "placed window %d %d %d %s" % (w, start, n, opt))
                    count += 1
        check(next(it) == "", "parser harness output consumed")
    return count


def main():
    msgs = build_messages()
    text = schema_text(ENUMS, msgs)
    fcp = get_fcp_from_string(text).unwrap()

    check_encoder_flat(fcp, msgs)
    check_encoder_nested()

    workdir = tempfile.mkdtemp(prefix="c06demo")
    try:
        n = check_generated_c(fcp, msgs, workdir)
        windows = check_static_parser(workdir)
        # a second, independent generator run over a small schema (repeated calls,
        # no enums -> no global device)
        small = [Msg("OnlyOne", 0x123, "node", [S("x", "i12"), S("y", "u20")], [5, 2])]
        fcp2 = get_fcp_from_string(schema_text({}, small)).unwrap()
        work2 = os.path.join(workdir, "second")
        os.mkdir(work2)
        outdir = Path(work2) / "gen"
        Generator().gen(fcp2, None, None, str(outdir))
        check(sorted(p.name for p in outdir.iterdir()) ==
              ["can_frame.h", "can_signal_parser.c", "can_signal_parser.h", "node_can.c", "node_can.h"],
              "files of small schema")
        vectors = {"OnlyOne": vectors_for(small[0])}
        (Path(work2) / "h.c").write_text(harness_source("node", small, vectors))
        r = subprocess.run([CC, "-std=gnu11", "-O1", "-w", "-I", str(outdir), str(Path(work2) / "h.c"),
                            str(outdir / "node_can.c"), str(outdir / "can_signal_parser.c"),
                            "-o", str(Path(work2) / "h")], capture_output=True, text=True)
        check(r.returncode == 0, "small schema compiles: " + r.stderr[:1000])
        if r.returncode == 0:
            lines = subprocess.run([str(Path(work2) / "h")], capture_output=True, text=True).stdout.split("\n")
            for i, vec in enumerate(vectors["OnlyOne"]):
                ef = lines[4 * i].split()
                check(int(ef[1]) == 0x123 and int(ef[2]) == 4, "small id/dlc")
                check(bytes(int(x, 16) for x in ef[3:11]) == small[0].pack(vec), "small data %r" % vec)
                df = lines[4 * i + 2].split()
                check([int(df[1]), int(df[2])] == [vec["y"], vec["x"]], "small decode %r" % vec)
    finally:
        shutil.rmtree(workdir, ignore_errors=True)

    if failures:
        print("FAILED: %d checks" % len(failures))
        sys.exit(1)
    print("checked %d messages, %d C vectors x2 optimisation levels, %d bit windows" % (len(msgs), n // 2, windows // 2))
    print("PASS")


if __name__ == "__main__":
    main()
