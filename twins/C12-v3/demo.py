"""C12 demo 3: bindings declared with an alias (`impl <protocol> for <struct> as <name>`).

The same struct is bound under two different names (one frame per axle),
once to the CAN bus and once to the LIN bus. The reflection record has to describe every binding with
the name, protocol, struct, extension fields and signal blocks written in the
source, and has to survive a round trip through the built-in reflection schema.
"""
import sys

from fcp.parser import get_fcp_from_string
from fcp.reflection import get_reflection_schema
from fcp.serde import encode, decode
from fcp.verifier import make_general_verifier

SOURCE = """version: "3"

struct WheelSpeed {
    left @0: u16 | unit("rpm"),
    right @1: u16 | unit("rpm"),
}

struct Heartbeat {
    counter @0: u8,
}

impl can for WheelSpeed as FrontWheelSpeed {
    id: 256,
    signal left {
        scale: 0.5,
    },
}

impl lin for WheelSpeed as RearWheelSpeed {
    id: 17,
}

impl can for Heartbeat {
    id: 1,
}
"""

# (name, protocol, struct, extension fields, signal blocks) as written in SOURCE;
# each struct also gets an implicit "default" binding named after itself.
DECLARED = [
    ("WheelSpeed", "default", "WheelSpeed", {}, {}),
    ("Heartbeat", "default", "Heartbeat", {}, {}),
    ("FrontWheelSpeed", "can", "WheelSpeed", {"id": "256"}, {"left": {"scale": "0.5"}}),
    ("RearWheelSpeed", "lin", "WheelSpeed", {"id": "17"}, {}),
    ("Heartbeat", "can", "Heartbeat", {"id": "1"}, {}),
]


def main() -> int:
    fcp = get_fcp_from_string(SOURCE).unwrap()
    if make_general_verifier().verify(fcp).is_err():
        print("schema unexpectedly rejected by the verifier")
        print("FAIL")
        return 1

    record = fcp.reflection()
    schema = get_reflection_schema().unwrap()
    decoded = decode(schema, "Fcp", encode(schema, "Fcp", record))

    ok = True
    if decoded != record:
        print("round trip through the reflection schema changed the record")
        ok = False

    reflected = [
        (
            i["name"],
            i["protocol"],
            i["type"],
            {f["name"]: f["value"] for f in i["fields"]},
            {
                s["name"]: {f["name"]: f["value"] for f in s["fields"]}
                for s in i["signals"]
            },
        )
        for i in decoded["impls"]
    ]
    for binding in DECLARED:
        if binding not in reflected:
            print(f"binding declared in the source but not reflected: {binding}")
            ok = False
    for binding in reflected:
        if binding not in DECLARED:
            print(f"binding reflected but not declared in the source: {binding}")
            ok = False

    struct_names = {s["name"] for s in decoded["structs"]}
    for name, _, struct, _, _ in reflected:
        if struct not in struct_names:
            print(f"binding {name} refers to struct {struct}, which the record does not list")
            ok = False

    print("PASS" if ok else "FAIL")
    return 0 if ok else 1


if __name__ == "__main__":
    sys.exit(main())
