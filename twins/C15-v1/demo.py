#!/venv/bin/python
"""C15 demo 1: the Python codec must not care about the declaration order of a struct.

For every permutation of the declarations of a three field struct (ids fixed) the
encoder has to produce the same bytes (ascending field id) and the decoder has to
give every value back to the field it was encoded from.

Prints PASS / exits 0 when that holds, prints FAIL / exits 1 otherwise.
"""

import itertools
import struct
import sys

from fcp.parser import get_fcp_from_string
from fcp.serde import encode, decode

FIELDS = {
    "x": ("x @0: u16", 0x1234),
    "y": ("y @1: i8", -5),
    "yaw": ("yaw @2: u8", 200),
}

NESTED = """
struct Outer {
    tail @1: u8,
    pose @0: Pose,
}
"""

# wire image: fields in ascending id, little endian
EXPECTED = bytearray(struct.pack("<HbB", 0x1234, -5, 200))


def schema(order):
    body = "\n".join("    " + FIELDS[name][0] + "," for name in order)
    return 'version: "3"\n\nstruct Pose {\n' + body + "\n}\n" + NESTED


def main() -> int:
    data = {name: value for name, (_, value) in FIELDS.items()}
    failures = []

    for order in itertools.permutations(FIELDS):
        fcp = get_fcp_from_string(schema(order)).unwrap()

        encoded = encode(fcp, "Pose", data)
        if encoded != EXPECTED:
            failures.append(f"{order}: encode gave {bytes(encoded).hex()}")

        decoded = decode(fcp, "Pose", EXPECTED)
        if decoded != data:
            failures.append(f"{order}: decode gave {decoded}")

        outer = {"tail": 7, "pose": data}
        outer_bytes = encode(fcp, "Outer", outer)
        if outer_bytes != EXPECTED + bytearray([7]):
            failures.append(f"{order}: nested encode gave {bytes(outer_bytes).hex()}")
        if decode(fcp, "Outer", outer_bytes) != outer:
            failures.append(f"{order}: nested decode gave {decode(fcp, 'Outer', outer_bytes)}")

    if failures:
        print("FAIL")
        for failure in failures:
            print("  ", failure)
        return 1

    print("PASS")
    return 0


if __name__ == "__main__":
    sys.exit(main())
