#!/usr/bin/env python
"""C02 demo 2: the decoder must recover the value from any canonical encoding.

The messages below carry a dynamic array whose items are Optional and mostly
absent. The canonical bytes are written out by hand (u32 count, then for
every item a one-byte presence flag followed by the value only when the flag
is 1) and must decode to the original value; encoding the value must give
the same bytes back.
"""
import sys
import tempfile
from pathlib import Path

from fcp.parser import get_fcp
from fcp.serde import encode, decode

SCHEMA = """version: "3"

struct Readings {
    id @ 0: u8,
    values @ 1: [Optional[u32]],
}

struct Point {
    x @ 0: i16,
    y @ 1: i16,
}

struct Track {
    points @ 0: [Optional[Point]],
    crc @ 1: u8,
}
"""

CASES = [
    (
        "Readings",
        {"id": 7, "values": [None, None, 0x11223344, None]},
        bytes([7, 4, 0, 0, 0, 0, 0, 1, 0x44, 0x33, 0x22, 0x11, 0]),
    ),
    (
        "Readings",
        {"id": 1, "values": [None]},
        bytes([1, 1, 0, 0, 0, 0]),
    ),
    (
        "Track",
        {"points": [None, {"x": -2, "y": 3}, None, None], "crc": 0xAB},
        bytes([4, 0, 0, 0, 0, 1, 0xFE, 0xFF, 3, 0, 0, 0, 0xAB]),
    ),
]


def main() -> int:
    with tempfile.TemporaryDirectory() as d:
        path = Path(d) / "demo.fcp"
        path.write_text(SCHEMA)
        fcp = get_fcp(path).unwrap()

    ok = True
    for name, value, canonical in CASES:
        try:
            encoded = bytes(encode(fcp, name, value))
            if encoded != canonical:
                print(f"{name}: encoded   {encoded.hex()}")
                print(f"{name}: canonical {canonical.hex()}")
                ok = False
        except Exception as e:  # noqa: BLE001
            print(f"{name}: encode raised {e!r}")
            ok = False
        try:
            decoded = decode(fcp, name, bytearray(canonical))
            if decoded != value:
                print(f"{name}: decoded {decoded} expected {value}")
                ok = False
        except Exception as e:  # noqa: BLE001
            print(f"{name}: decode of {canonical.hex()} raised {e!r}")
            ok = False

    print("PASS" if ok else "FAIL")
    return 0 if ok else 1


if __name__ == "__main__":
    sys.exit(main())
