#!/venv/bin/python
"""Differential determinism test for fcp code generation (property C17).

Property: generating from the same schema twice - in different processes,
under different hash seeds, and regardless of what the process parsed or
generated before - yields the same set of files with identical contents, apart
from the generation-stamp comment line the C++ generator documents.

Driver mode (no arguments): spawns worker processes with several
PYTHONHASHSEED values and several "histories" (orders / repetitions of the
schemas and generators inside one process).  Every worker reports, for every
(schema, generator) pair, the set of generated files with a digest of the
stamp-normalised contents (or the error text when generation is refused).
The driver checks that all reports agree, and that inside one process two
generations of the same schema agree as well.

The code under test is found through PYTHONPATH, e.g.

    R=/tmp/twin-C17
    PYTHONPATH=$R/src:$R/plugins/fcp_dbc:$R/plugins/fcp_can_c:$R/plugins/fcp_cpp:$R/plugins/fcp_nop \
        /venv/bin/python demo.py

Optional: `demo.py --dump FILE` additionally writes the agreed report to FILE
(handy for comparing two source trees).
"""

import hashlib
import json
import os
import re
import subprocess
import sys
import tempfile
from concurrent.futures import ThreadPoolExecutor

PARALLEL = int(os.environ.get("DEMO_PARALLEL", "8"))

FCP_ROOT = os.environ.get("FCP_ROOT", "/tmp/twin-C17")

GENERATORS = ["cpp", "dbc", "can_c"]

SEEDS = ["0", "1", "4242", "random"]

HISTORIES = ["forward", "reverse", "twice", "interleaved"]

STAMP = re.compile(r"^// Generated using fcp .*$", re.MULTILINE)

# --------------------------------------------------------------------------
# Schemas: a spread of shapes (boundary widths, unaligned offsets, nesting,
# arrays, several protocols / buses / devices, services, error inputs).
# --------------------------------------------------------------------------

SCHEMAS = {}

SCHEMAS["basic"] = """version: "3"

struct S1 {
    s1 @ 0: u8 | unit("m/s"),
    s2 @ 1: u8 | unit("C"),
}

impl can for S1 {
    id: 10,
    device: "ecu1",
    bus: "bus1",
}
"""

SCHEMAS["unaligned"] = """version: "3"

enum Mode {
    Off = 0,
    On = 1,
    Fault = 5,
}

struct Odd {
    a @ 0: u1,
    b @ 1: u3,
    c @ 2: i5,
    d @ 3: u13,
    e @ 4: Mode,
    f @ 5: i7 | range(-3.0, 3.5),
    g @ 6: u17 | unit("rpm"),
}

impl can for Odd {
    id: 255,
    device: "odd_ecu",
    period: 10,
}

struct Wide {
    x @ 0: u64,
}

impl can for Wide {
    id: 2047,
    device: "odd_ecu",
}

struct WideSigned {
    x @ 0: i64,
}

impl can for WideSigned {
    id: 0,
    device: "other_ecu",

    signal x {
        endianness: "big",
        endianess: "big",
    },
}
"""

SCHEMAS["field_order"] = """version: "3"

struct Shuffled {
    last @ 3: u8,
    first @ 0: u4,
    third @ 2: i12,
    second @ 1: u4,
}

impl can for Shuffled {
    id: 77,
    device: "zeta",
}

impl can for Shuffled as ShuffledAgain {
    id: 78,
    device: "alpha",
    bus: "aux",
}
"""

SCHEMAS["nested"] = """version: "3"

enum Colour {
    Red = 0,
    Green = 1,
    Blue = 2,
    Alpha = 3,
}

struct Inner {
    lo @ 0: u4,
    colour @ 1: Colour,
    hi @ 2: i6,
}

struct Middle {
    tag @ 0: u2,
    inner @ 1: Inner,
    tail @ 2: u3,
}

struct Outer {
    head @ 0: u5,
    middle @ 1: Middle,
    other @ 2: Inner,
    value @ 3: f32 | unit("V"),
}

struct Compact {
    head @ 0: u5,
    middle @ 1: Middle,
    other @ 2: Inner,
    value @ 3: i11 | unit("V"),
}

impl can for Compact {
    id: 301,
    device: "nest",
    bus: "main",
}

impl can for Outer {
    id: 300,
    device: "nest",
    bus: "main",
}
"""

SCHEMAS["arrays_mux"] = """version: "3"

enum E {
    S0 = 0,
    S1 = 1,
    S2 = 2,
}

struct Pair {
    p @ 0: u4,
    q @ 1: u4,
}

struct Arr {
    xs @ 0: [u8, 3],
    es @ 1: [E, 4],
    ps @ 2: [Pair, 2],
}

impl can for Arr {
    id: 40,
    device: "arr",
}

struct Muxed {
    mux @ 0: u8,
    field1 @ 1: u8,
    field2 @ 2: u16,
}

impl can for Muxed {
    id: 41,
    device: "arr",

    signal mux {
        endianness: "big",
    },

    signal field1 {
        mux_count: 4,
        mux_signal: "mux",
    },
}
"""

SCHEMAS["multi_protocol_bus"] = """version: "3"

struct Foo {
    s1 @ 0: u16 | unit("m/s"),
    s2 @ 1: u16 | unit("m/s^2"),
}

impl can for Foo {
    id: 10,
    bus: "bus1",
    device: "dev_b",
}

impl can for Foo as FooTwo {
    id: 11,
    bus: "bus2",
    device: "dev_a",
}

impl uart for Foo {
    baud: 9600,
}

impl spi for Foo {
    mode: 3,
}

impl lin for Foo {
    nad: 1,
}

impl ethernet for Foo {
    port: 4000,
}

struct Bar {
    b @ 0: f64,
}

impl can for Bar {
    id: 12,
    bus: "bus3",
    device: "dev_c",
}

impl zigbee for Bar {
    channel: 11,
}

impl uart for Bar {
    baud: 115200,
}
"""

SCHEMAS["services"] = """version: "3"

enum SensorState {
    Off = 0,
    On = 1,
    Error = 2,
}

struct Temperature {
    temperature @ 0: u32 | unit("C"),
    timestamp @ 1: u32 | unit("s"),
}

struct SensorInformation {
    temperature @ 0: Temperature,
    sensor_state @ 1: SensorState,
}

enum SensorId {
    Left = 0,
    Right = 1,
}

struct SensorReq {
    sensor_id @ 0: SensorId,
}

struct Blob {
    name @ 0: str,
    data @ 1: [u8],
    maybe @ 2: Optional[u16],
    reqs @ 3: [SensorReq],
    grid @ 4: [[u8, 2], 2],
}

service SensorService @ 0 {
    method RequestState(SensorReq) @ 0 returns SensorInformation,
    method GetTemperature(SensorReq) @ 1 returns Temperature,
}

service BlobService @ 3 {
    method Echo(Blob) @ 0 returns Blob,
}

device ecu {
    rpc_get_id: 1025,
    rpc_ans_id: 1026,
    services: [SensorService],
}

impl can for Temperature {
    id: 500,
    device: "ecu",
}
"""

SCHEMAS["no_impl"] = """version: "3"

struct Lonely {
    a @ 0: u8,
}
"""

# error inputs -------------------------------------------------------------

SCHEMAS["err_syntax"] = """version: "3"

struct Broken {
    a @ 0 u8,
}
"""

SCHEMAS["err_unknown_type"] = """version: "3"

struct Broken {
    a @ 0: Missing,
}
"""

SCHEMAS["err_too_big"] = """version: "3"

struct Huge {
    a @ 0: u64,
    b @ 1: u8,
}

impl can for Huge {
    id: 1,
    device: "big",
}
"""

SCHEMAS["err_missing_id"] = """version: "3"

struct NoId {
    a @ 0: u8,
}

impl can for NoId {
    device: "anon",
}
"""

SCHEMAS["err_duplicate_ids"] = """version: "3"

struct A {
    a @ 0: u8,
}

struct B {
    b @ 0: u8,
}

impl can for A {
    id: 5,
}

impl can for B {
    id: 5,
}
"""

SCHEMAS["err_duplicate_type"] = """version: "3"

struct A {
    a @ 0: u8,
}

struct A {
    b @ 0: u8,
}
"""


def repo_schemas():
    """Schemas shipped with the repository (used when present)."""
    candidates = [
        "plugins/fcp_cpp/tests/schemas/test.fcp",
        "plugins/fcp_dbc/example/example.fcp",
        "plugins/fcp_can_c/tests/003_msg_scheduling/test.fcp",
        "plugins/fcp_can_c/tests/005_big_endian/test.fcp",
        "example/example.fcp",
    ]
    found = {}
    for rel in candidates:
        path = os.path.join(FCP_ROOT, rel)
        if os.path.isfile(path):
            found["repo:" + rel] = path
    return found


# --------------------------------------------------------------------------
# Worker
# --------------------------------------------------------------------------


def normalise(text):
    return STAMP.sub("// <generation stamp>", text)


def digest(text):
    return hashlib.sha256(normalise(text).encode("utf-8")).hexdigest()


def tree_report(directory):
    report = {}
    for base, _, files in os.walk(directory):
        for name in files:
            full = os.path.join(base, name)
            with open(full, encoding="utf-8") as f:
                report[os.path.relpath(full, directory)] = digest(f.read())
    return report


def generate_once(key, source, generator):
    """Parse `source` and run `generator` the way the CLI does."""
    from fcp.parser import get_fcp, get_fcp_from_string
    from fcp.codegen import GeneratorManager
    from fcp.verifier import make_general_verifier
    from fcp.error import Logger

    logger = Logger({})
    if key.startswith("repo:"):
        parsed = get_fcp(source, logger)
    else:
        parsed = get_fcp_from_string(source, logger)

    if parsed.is_err():
        return {"parse-error": str(parsed.err()).replace(FCP_ROOT, "<root>")}

    fcp = parsed.unwrap()
    before = repr(fcp)

    with tempfile.TemporaryDirectory() as tmp:
        out = os.path.join(tmp, "out")
        try:
            result = GeneratorManager(make_general_verifier()).generate(
                generator, None, None, fcp, out
            )
        except Exception as e:  # same error every time is fine, too
            return {"raised": type(e).__name__ + ": " + str(e).replace(tmp, "<tmp>")}

        if result.is_err():
            return {"generate-error": str(result.err()).replace(tmp, "<tmp>")}

        report = tree_report(out) if os.path.isdir(out) else {}

    # a generator must not alter the schema it was given
    report["<schema-untouched>"] = str(repr(fcp) == before)
    return report


def direct_cpp(key, source):
    """Call the C++ generator object directly and keep the *order* free."""
    from fcp.parser import get_fcp, get_fcp_from_string
    from fcp.error import Logger
    import fcp_cpp

    logger = Logger({})
    if key.startswith("repo:"):
        parsed = get_fcp(source, logger)
    else:
        parsed = get_fcp_from_string(source, logger)
    if parsed.is_err():
        return None

    results = fcp_cpp.Generator().generate(parsed.unwrap(), {"output": "out"})
    return {str(r["path"]): digest(str(r["contents"])) for r in results}


def worker(history):
    import logging

    logging.disable(logging.CRITICAL)

    sources = dict(SCHEMAS)
    sources.update(repo_schemas())
    keys = sorted(sources)

    jobs = [(k, g) for k in keys for g in GENERATORS]
    if history == "reverse":
        jobs = jobs[::-1]
    elif history == "twice":
        jobs = [job for job in jobs for _ in range(2)]
    elif history == "interleaved":
        jobs = [(k, g) for g in GENERATORS[::-1] for k in keys[::2] + keys[1::2]]
        jobs = jobs + jobs[::-1]

    report = {}
    repeats_agree = True
    for key, generator in jobs:
        name = key + " / " + generator
        result = generate_once(key, sources[key], generator)
        if name in report and report[name] != result:
            repeats_agree = False
            report[name + " (repeat differs)"] = result
        report.setdefault(name, result)

    # direct use of the C++ generator object, twice in a row
    for key in keys:
        first = direct_cpp(key, sources[key])
        second = direct_cpp(key, sources[key])
        if first != second:
            repeats_agree = False
        report[key + " / cpp-direct"] = first

    json.dump({"report": report, "repeats_agree": repeats_agree}, sys.stdout)


# --------------------------------------------------------------------------
# Driver
# --------------------------------------------------------------------------


def driver(dump):
    def run_worker(job):
        seed, history = job
        env = dict(os.environ)
        env["PYTHONHASHSEED"] = seed
        return subprocess.run(
            [sys.executable, os.path.abspath(__file__), "--worker", history],
            env=env,
            capture_output=True,
            text=True,
        )

    jobs = [(seed, history) for seed in SEEDS for history in HISTORIES]
    with ThreadPoolExecutor(max_workers=PARALLEL) as pool:
        procs = list(pool.map(run_worker, jobs))

    runs = {}
    for (seed, history), proc in zip(jobs, procs):
        if proc.returncode != 0:
            print(proc.stderr[-3000:])
            print("FAIL: worker crashed (seed %s, history %s)" % (seed, history))
            return 1
        runs[(seed, history)] = json.loads(proc.stdout)

    failures = []
    reference_key = (SEEDS[0], HISTORIES[0])
    reference = runs[reference_key]["report"]

    for run_key, run in runs.items():
        if not run["repeats_agree"]:
            failures.append("%s: repeated generation in one process differs" % (run_key,))
        if sorted(run["report"]) != sorted(reference):
            failures.append("%s: different set of jobs reported" % (run_key,))
            continue
        for name in reference:
            if run["report"][name] != reference[name]:
                failures.append(
                    "%s vs %s: %s differs" % (reference_key, run_key, name)
                )

    # sanity: the demo really generated something
    generated = [
        n
        for n, r in reference.items()
        if r and not any(k in r for k in ("parse-error", "generate-error", "raised"))
    ]
    errors = [n for n in reference if n not in generated]
    touched = [
        n for n, r in reference.items() if r and r.get("<schema-untouched>") == "False"
    ]
    if len(generated) < 30:
        failures.append("too few successful generations: %d" % len(generated))
    if touched:
        failures.append("generator modified its input schema: %s" % touched)

    n_files = sum(len(r) for r in reference.values() if r)
    print(
        "%d processes, %d jobs each (%d generated, %d refused), %d files compared"
        % (len(runs), len(reference), len(generated), len(errors), n_files)
    )

    if dump:
        with open(dump, "w") as f:
            json.dump(reference, f, indent=1, sort_keys=True)

    if failures:
        for failure in failures[:40]:
            print("  " + failure)
        print("FAIL")
        return 1

    print("PASS")
    return 0


if __name__ == "__main__":
    if len(sys.argv) >= 3 and sys.argv[1] == "--worker":
        worker(sys.argv[2])
        sys.exit(0)
    dump_file = None
    if len(sys.argv) >= 3 and sys.argv[1] == "--dump":
        dump_file = sys.argv[2]
    sys.exit(driver(dump_file))
