#!/venv/bin/python
"""Differential test for property C02.

The Python codec in fcp.serde must emit exactly the canonical FCP wire format
and must recover the value from any canonical encoding.

The demo carries its own, independent reference implementation of the wire
format (a plain list of bits), and compares fcp.serde against it on

  * the cross-language vectors of tests/standardized/fcp_tests.json,
  * a hand-written schema with unaligned widths, nested structs, arrays,
    dynamic arrays, optionals, strings, enums and out-of-order field ids,
  * a few thousand seeded random values of that schema,
  * boundary values of every integer width,
  * repeated / interleaved calls,
  * malformed inputs (truncated buffers, absurd counts, missing fields, wrong
    python types, ...), whose outcome is pinned literally.

Run with PYTHONPATH pointing at the tree under test; FCP_ROOT (default
/tmp/twin2-C02) locates tests/standardized.
"""

import json
import os
import random
import struct
import sys
import tempfile
from pathlib import Path

from fcp.parser import get_fcp
from fcp.serde import encode, decode
from fcp.specs.type import (
    ArrayType,
    StructType,
    EnumType,
    DynamicArrayType,
    OptionalType,
    StringType,
    UnsignedType,
    SignedType,
    FloatType,
    DoubleType,
)

FCP_ROOT = Path(os.environ.get("FCP_ROOT", "/tmp/twin2-C02"))

SCHEMA = """version: "3"

enum Mode {
    Off = 0,
    On = 1,
    Auto = 5,
}

enum Flag {
    No = 0,
    Yes = 1,
}

struct Inner {
    a @ 0: u3,
    b @ 1: i5,
    m @ 2: Mode,
}

struct Pt {
    y @ 1: i17,
    x @ 0: u13,
}

struct Outer {
    lead @ 0: u1,
    inner @ 1: Inner,
    pts @ 2: [Pt, 3],
    name @ 3: str,
    dyn @ 4: [u3],
    opt @ 5: Optional[Inner],
    f @ 6: f32,
    d @ 7: f64,
    big @ 8: u64,
    sbig @ 9: i64,
    flag @ 10: Flag,
    dynpts @ 11: [Pt],
    optstr @ 12: Optional[str],
    names @ 13: [str],
    nested @ 14: [[u5, 2], 3],
    optarr @ 15: Optional[[u7, 2]],
    dynopt @ 16: [Optional[u3]],
    dyndyn @ 17: [[u2]],
    tail @ 18: u2,
}

struct Ints {
    a @ 0: u1,
    b @ 1: i2,
    c @ 2: u7,
    d @ 3: i8,
    e @ 4: u9,
    f @ 5: i16,
    g @ 6: u31,
    h @ 7: i32,
    i @ 8: u33,
    j @ 9: i63,
    k @ 10: u64,
    l @ 11: i64,
}

struct Str {
    pad @ 0: u3,
    s @ 1: str,
}

struct DynU8 {
    v @ 0: [u8],
}

struct DynU3 {
    pad @ 0: u5,
    v @ 1: [u3],
}

struct DynF {
    v @ 0: [f32],
}

struct DynD {
    pad @ 0: u1,
    v @ 1: [f64],
}

struct DynI {
    v @ 0: [i12],
}

struct DynPt {
    v @ 0: [Pt],
}

struct DynStr {
    v @ 0: [str],
}

struct DynMode {
    v @ 0: [Mode],
}

struct Opt {
    v @ 0: Optional[u8],
    w @ 1: Optional[Pt],
}
"""

failures = []


def check(cond, msg):
    if not cond:
        failures.append(msg)


# --------------------------------------------------------------------------
# independent reference codec: a list of bits, LSB first
# --------------------------------------------------------------------------


def _enum_bits(fcp, name):
    enum = fcp.get_enum(name).unwrap()
    top = max([e.value for e in enum.enumeration] + [0])
    return max(top.bit_length(), 1)


def _fields(fcp, name):
    st = fcp.get_struct(name).unwrap()
    return [f for _, _, f in sorted((f.field_id, i, f) for i, f in enumerate(st.fields))]


def _put(bits, word, n):
    word &= (1 << n) - 1
    for k in range(n):
        bits.append((word >> k) & 1)


def ref_put(fcp, t, v, bits):
    if isinstance(t, (UnsignedType, SignedType)):
        _put(bits, v, int(t.name[1:]))
    elif isinstance(t, FloatType):
        _put(bits, struct.unpack("<I", struct.pack("<f", v))[0], 32)
    elif isinstance(t, DoubleType):
        _put(bits, struct.unpack("<Q", struct.pack("<d", v))[0], 64)
    elif isinstance(t, StringType):
        _put(bits, len(v), 32)
        for ch in v.encode("ascii"):
            _put(bits, ch, 8)
    elif isinstance(t, EnumType):
        _put(bits, v, _enum_bits(fcp, t.name))
    elif isinstance(t, StructType):
        for f in _fields(fcp, t.name):
            ref_put(fcp, f.type, v[f.name], bits)
    elif isinstance(t, ArrayType):
        assert len(v) == t.size
        for x in v:
            ref_put(fcp, t.underlying_type, x, bits)
    elif isinstance(t, DynamicArrayType):
        _put(bits, len(v), 32)
        for x in v:
            ref_put(fcp, t.underlying_type, x, bits)
    elif isinstance(t, OptionalType):
        _put(bits, 0 if v is None else 1, 8)
        if v is not None:
            ref_put(fcp, t.underlying_type, v, bits)
    else:
        raise AssertionError(t)


def ref_encode(fcp, name, v):
    bits = []
    ref_put(fcp, StructType(name), v, bits)
    while len(bits) % 8:
        bits.append(0)
    out = bytearray()
    for i in range(0, len(bits), 8):
        out.append(sum(b << k for k, b in enumerate(bits[i : i + 8])))
    return out


class _Cur:
    def __init__(self, data):
        self.bits = [(b >> k) & 1 for b in data for k in range(8)]
        self.pos = 0

    def take(self, n):
        assert self.pos + n <= len(self.bits)
        w = sum(b << k for k, b in enumerate(self.bits[self.pos : self.pos + n]))
        self.pos += n
        return w


def ref_get(fcp, t, cur):
    if isinstance(t, UnsignedType):
        return cur.take(int(t.name[1:]))
    if isinstance(t, SignedType):
        n = int(t.name[1:])
        w = cur.take(n)
        return w - (1 << n) if w >> (n - 1) else w
    if isinstance(t, FloatType):
        return struct.unpack("<f", struct.pack("<I", cur.take(32)))[0]
    if isinstance(t, DoubleType):
        return struct.unpack("<d", struct.pack("<Q", cur.take(64)))[0]
    if isinstance(t, StringType):
        n = cur.take(32)
        return bytes(cur.take(8) for _ in range(n)).decode("ascii")
    if isinstance(t, EnumType):
        return cur.take(_enum_bits(fcp, t.name))
    if isinstance(t, StructType):
        return {f.name: ref_get(fcp, f.type, cur) for f in _fields(fcp, t.name)}
    if isinstance(t, ArrayType):
        return [ref_get(fcp, t.underlying_type, cur) for _ in range(t.size)]
    if isinstance(t, DynamicArrayType):
        n = cur.take(32)
        return [ref_get(fcp, t.underlying_type, cur) for _ in range(n)]
    if isinstance(t, OptionalType):
        return ref_get(fcp, t.underlying_type, cur) if cur.take(8) else None
    raise AssertionError(t)


def ref_decode(fcp, name, data):
    return ref_get(fcp, StructType(name), _Cur(data))


def has_signed_min(fcp, t, v):
    """The most negative value of a signed width is a documented upstream

    quirk of the python decoder; such values are only checked in the encode
    direction.
    """
    if isinstance(t, SignedType):
        return v == -(1 << (int(t.name[1:]) - 1))
    if isinstance(t, StructType):
        return any(has_signed_min(fcp, f.type, v[f.name]) for f in _fields(fcp, t.name))
    if isinstance(t, (ArrayType, DynamicArrayType)):
        return any(has_signed_min(fcp, t.underlying_type, x) for x in v)
    if isinstance(t, OptionalType):
        return v is not None and has_signed_min(fcp, t.underlying_type, v)
    return False


def same(a, b):
    """Equality that also compares float bit patterns (nan, -0.0)."""
    if isinstance(a, float) or isinstance(b, float):
        return (
            isinstance(a, float)
            and isinstance(b, float)
            and struct.pack("<d", a) == struct.pack("<d", b)
        )
    if isinstance(a, dict):
        return (
            isinstance(b, dict)
            and list(a.keys()) == list(b.keys())
            and all(same(a[k], b[k]) for k in a)
        )
    if isinstance(a, list):
        return isinstance(b, list) and len(a) == len(b) and all(map(same, a, b))
    return type(a) is type(b) and a == b


def both_ways(fcp, name, value, tag):
    want = ref_encode(fcp, name, value)
    got = encode(fcp, name, value)
    check(type(got) is bytearray, f"{tag}: encode returned {type(got).__name__}")
    check(got == want, f"{tag}: encode {bytes(got).hex()} != canonical {bytes(want).hex()}")
    if not has_signed_min(fcp, StructType(name), value):
        back = decode(fcp, name, want)
        check(same(back, ref_decode(fcp, name, want)), f"{tag}: decode(canonical) {back!r}")
        value = ordered(fcp, StructType(name), value)
        check(same(back, value), f"{tag}: decode(canonical) != value: {back!r} vs {value!r}")
        # trailing bytes after a complete value are ignored
        back2 = decode(fcp, name, want + bytearray([0xA5, 0xFF]))
        check(same(back2, value), f"{tag}: decode with trailing bytes {back2!r}")
        # bytes / list inputs behave like bytearray
        check(same(decode(fcp, name, bytes(want)), value), f"{tag}: decode(bytes)")
    return want


# --------------------------------------------------------------------------
# random values
# --------------------------------------------------------------------------

F32 = [0.0, -0.0, 1.0, -1.0, 0.5, 3.140625, 1e-40, 3.4028234663852886e38, float("inf"), float("-inf"), float("nan")]
F32 = [struct.unpack("<f", struct.pack("<f", x))[0] for x in F32]  # exactly representable
F64 = [0.0, -0.0, 1.0, -1.0, 0.1, 1e300, 5e-324, 2.0**63, float("inf"), float("-inf"), float("nan")]
WORDS = ["", "a", "hello", "FCP wire format!", "\x00\x01~\x7f", "x" * 37]


def rnd(fcp, t, r, depth=0):
    if isinstance(t, UnsignedType):
        n = int(t.name[1:])
        return r.choice([0, 1, (1 << n) - 1, r.getrandbits(n), 1 << (n - 1)])
    if isinstance(t, SignedType):
        n = int(t.name[1:])
        lo, hi = -(1 << (n - 1)), (1 << (n - 1)) - 1
        return r.choice([0, -1, hi, lo + 1, r.randint(lo + 1, hi), 1 if n > 1 else 0])
    if isinstance(t, FloatType):
        return r.choice(F32 + [struct.unpack("<f", struct.pack("<f", r.uniform(-1e6, 1e6)))[0]])
    if isinstance(t, DoubleType):
        return r.choice(F64 + [r.uniform(-1e12, 1e12)])
    if isinstance(t, StringType):
        return r.choice(WORDS + ["".join(chr(r.randrange(128)) for _ in range(r.randrange(9)))])
    if isinstance(t, EnumType):
        return r.choice([e.value for e in fcp.get_enum(t.name).unwrap().enumeration])
    if isinstance(t, StructType):
        # deliberately build the dict in declaration order shuffled: key order
        # of the input must not matter
        fs = list(fcp.get_struct(t.name).unwrap().fields)
        r.shuffle(fs)
        return {f.name: rnd(fcp, f.type, r, depth + 1) for f in fs}
    if isinstance(t, ArrayType):
        return [rnd(fcp, t.underlying_type, r, depth + 1) for _ in range(t.size)]
    if isinstance(t, DynamicArrayType):
        return [rnd(fcp, t.underlying_type, r, depth + 1) for _ in range(r.choice([0, 0, 1, 2, 3, 7]))]
    if isinstance(t, OptionalType):
        return None if r.random() < 0.4 else rnd(fcp, t.underlying_type, r, depth + 1)
    raise AssertionError(t)


def ordered(fcp, t, v):
    """Value with dict keys in wire order, as the decoder returns them."""
    if isinstance(t, StructType):
        return {f.name: ordered(fcp, f.type, v[f.name]) for f in _fields(fcp, t.name)}
    if isinstance(t, (ArrayType, DynamicArrayType)):
        return [ordered(fcp, t.underlying_type, x) for x in v]
    if isinstance(t, OptionalType):
        return None if v is None else ordered(fcp, t.underlying_type, v)
    return v


# --------------------------------------------------------------------------
# standardized vectors
# --------------------------------------------------------------------------

NAMED = {"ULONG_MAX": 2**64 - 1, "LLONG_MAX": 2**63 - 1, "LLONG_MIN": -(2**63)}


def conv(fcp, t, v):
    if isinstance(t, (UnsignedType, SignedType)):
        return NAMED[v] if v in NAMED else int(v, 0)
    if isinstance(t, (FloatType, DoubleType)):
        return float(v)
    if isinstance(t, StringType):
        return v
    if isinstance(t, EnumType):
        return {e.name: e.value for e in fcp.get_enum(t.name).unwrap().enumeration}[v]
    if isinstance(t, (ArrayType, DynamicArrayType)):
        return [conv(fcp, t.underlying_type, x) for x in v]
    if isinstance(t, OptionalType):
        return None if v is None else conv(fcp, t.underlying_type, v)
    raise AssertionError(t)


def run_vectors():
    std = FCP_ROOT / "tests" / "standardized"
    n = 0
    for suite in json.loads((std / "fcp_tests.json").read_text()):
        fcp = get_fcp(std / suite["schema"]).unwrap()
        for t in suite["tests"]:
            st = fcp.get_struct(t["datatype"]).unwrap()
            value = {}
            for xpath, raw in t["decoded"].items():
                sname, fname = xpath.split(":")
                assert sname == st.name
                ftype = [f for f in st.fields if f.name == fname][0].type
                value[fname] = conv(fcp, ftype, raw)
            wire = bytearray(int(x, 0) if isinstance(x, str) else x for x in t["encoded"])
            tag = f"vector {suite['name']}/{t['name']}"
            got = encode(fcp, st.name, value)
            check(got == wire, f"{tag}: encode {bytes(got).hex()} != {bytes(wire).hex()}")
            check(ref_encode(fcp, st.name, value) == wire, f"{tag}: reference disagrees with vector")
            if not has_signed_min(fcp, StructType(st.name), value):
                back = decode(fcp, st.name, wire)
                check(same(back, ordered(fcp, StructType(st.name), value)), f"{tag}: decode {back!r}")
            n += 1
    return n


# --------------------------------------------------------------------------
# malformed inputs: the outcome is pinned
# --------------------------------------------------------------------------


def outcome(fn, *args):
    try:
        r = fn(*args)
    except Exception as e:  # noqa: BLE001
        return ["err", type(e).__name__, str(e)]
    if isinstance(r, (bytes, bytearray)):
        return ["ok", bytes(r).hex()]
    return ["ok", repr(r)]


def error_probes(fcp):
    u32 = lambda n: list(struct.pack("<I", n))  # noqa: E731
    pt = {"x": 1, "y": 2}
    inner = {"a": 1, "b": -2, "m": 5}
    P = {}
    # decode: truncated / oversized counts
    P["dec_str_empty_buf"] = outcome(decode, fcp, "Str", bytearray())
    P["dec_str_count_only_3"] = outcome(decode, fcp, "Str", bytearray([0, 0, 0]))
    P["dec_str_huge"] = outcome(decode, fcp, "Str", bytearray([0xF8, 0xFF, 0xFF, 0xFF, 0x07, 0x41]))
    P["dec_str_one_short"] = outcome(decode, fcp, "Str", bytearray(ref_encode(fcp, "Str", {"pad": 5, "s": "hello"})[:-1]))
    P["dec_str_exact"] = outcome(decode, fcp, "Str", ref_encode(fcp, "Str", {"pad": 5, "s": "hello"}))
    P["dec_str_nonascii"] = outcome(decode, fcp, "Str", ref_encode(fcp, "Str", {"pad": 0, "s": "ab"})[:-1] + bytearray([0xFF, 0x07]))
    P["dec_str_zero"] = outcome(decode, fcp, "Str", bytearray([0, 0, 0, 0, 0]))
    P["dec_dynu8_huge"] = outcome(decode, fcp, "DynU8", bytearray(u32(0xFFFFFFFF) + [1, 2, 3]))
    P["dec_dynu8_one_more"] = outcome(decode, fcp, "DynU8", bytearray(u32(4) + [1, 2, 3]))
    P["dec_dynu8_exact"] = outcome(decode, fcp, "DynU8", bytearray(u32(3) + [1, 2, 3]))
    P["dec_dynu8_less"] = outcome(decode, fcp, "DynU8", bytearray(u32(2) + [1, 2, 3]))
    P["dec_dynu8_zero_nobytes"] = outcome(decode, fcp, "DynU8", bytearray(u32(0)))
    P["dec_dynu3_fits_in_padding"] = outcome(decode, fcp, "DynU3", bytearray([0x40, 0, 0, 0, 0xE0, 0x01]))
    P["dec_dynu3_one_too_many"] = outcome(decode, fcp, "DynU3", bytearray([0x80, 0, 0, 0, 0xE0, 0x01]))
    P["dec_dynu3_exact_byte_end"] = outcome(decode, fcp, "DynU3", bytearray([0x20, 0, 0, 0, 0xE0]))
    P["dec_dynf_huge"] = outcome(decode, fcp, "DynF", bytearray(u32(0x40000000) + [0, 0, 0x80, 0x3F]))
    P["dec_dynf_exact"] = outcome(decode, fcp, "DynF", bytearray(u32(1) + [0, 0, 0x80, 0x3F]))
    P["dec_dynf_short"] = outcome(decode, fcp, "DynF", bytearray(u32(1) + [0, 0, 0x80]))
    P["dec_dynd_short"] = outcome(decode, fcp, "DynD", ref_encode(fcp, "DynD", {"pad": 1, "v": [1.0, 2.0]})[:-1])
    P["dec_dynd_exact"] = outcome(decode, fcp, "DynD", ref_encode(fcp, "DynD", {"pad": 1, "v": [1.0, 2.0]}))
    P["dec_dyni_short"] = outcome(decode, fcp, "DynI", bytearray(u32(3) + [0xFF, 0x0F, 0x00, 0x08]))
    P["dec_dyni_exact"] = outcome(decode, fcp, "DynI", bytearray(u32(2) + [0xFF, 0x1F, 0x00]))
    P["dec_dynpt_huge"] = outcome(decode, fcp, "DynPt", bytearray(u32(0xFFFFFFFF) + [0] * 8))
    P["dec_dynstr_huge"] = outcome(decode, fcp, "DynStr", bytearray(u32(0xFFFFFFFF) + u32(1) + [0x41]))
    P["dec_dynstr_inner_huge"] = outcome(decode, fcp, "DynStr", bytearray(u32(1) + u32(0xFFFFFFFF) + [0x41]))
    P["dec_dynmode_short"] = outcome(decode, fcp, "DynMode", bytearray(u32(3) + [0x29]))
    P["dec_dynmode_exact"] = outcome(decode, fcp, "DynMode", bytearray(u32(2) + [0x29]))
    P["dec_opt_flag2"] = outcome(decode, fcp, "Opt", bytearray([2, 9, 0]))
    P["dec_opt_missing_payload"] = outcome(decode, fcp, "Opt", bytearray([1]))
    P["dec_opt_none_none"] = outcome(decode, fcp, "Opt", bytearray([0, 0]))
    P["dec_unknown_struct"] = outcome(decode, fcp, "Nope", bytearray([0]))
    P["dec_list_input_wide_ints"] = outcome(decode, fcp, "DynU8", u32(2) + [0x1FF, -1])
    # encode: malformed values
    P["enc_missing_field"] = outcome(encode, fcp, "Pt", {"x": 1})
    P["enc_extra_field"] = outcome(encode, fcp, "Pt", {"x": 1, "y": 2, "z": 3})
    P["enc_unknown_struct"] = outcome(encode, fcp, "Nope", {})
    P["enc_str_for_int"] = outcome(encode, fcp, "Pt", {"x": "1", "y": 2})
    P["enc_none_for_int"] = outcome(encode, fcp, "Pt", {"x": None, "y": 2})
    P["enc_float_for_int"] = outcome(encode, fcp, "Pt", {"x": 1.5, "y": 2})
    P["enc_bool_for_int"] = outcome(encode, fcp, "Pt", {"x": True, "y": False})
    P["enc_wraps_unsigned"] = outcome(encode, fcp, "Pt", {"x": (1 << 13) + 5, "y": 0})
    P["enc_negative_unsigned"] = outcome(encode, fcp, "Pt", {"x": -1, "y": 0})
    P["enc_str_for_float"] = outcome(encode, fcp, "DynF", {"v": ["1.0"]})
    P["enc_int_for_float"] = outcome(encode, fcp, "DynF", {"v": [1, 2]})
    P["enc_f32_overflow"] = outcome(encode, fcp, "DynF", {"v": [1e39]})
    P["enc_int_for_str"] = outcome(encode, fcp, "Str", {"pad": 0, "s": 5})
    P["enc_bytes_for_str"] = outcome(encode, fcp, "Str", {"pad": 0, "s": b"ab"})
    P["enc_wide_char"] = outcome(encode, fcp, "Str", {"pad": 0, "s": "aŁ"})
    P["enc_none_for_dyn"] = outcome(encode, fcp, "DynU8", {"v": None})
    P["enc_tuple_for_dyn"] = outcome(encode, fcp, "DynU8", {"v": (1, 2)})
    P["enc_dict_for_dynpt"] = outcome(encode, fcp, "DynPt", {"v": [pt, {"x": 1}]})
    P["enc_opt_falsy_values"] = outcome(encode, fcp, "Opt", {"v": 0, "w": None})
    P["enc_opt_bad_payload"] = outcome(encode, fcp, "Opt", {"v": "x", "w": None})
    P["enc_array_short"] = outcome(
        encode, fcp, "Outer", dict(rnd(fcp, StructType("Outer"), random.Random(1)), pts=[pt, pt])
    )
    P["enc_array_long_ignored"] = outcome(
        encode, fcp, "Outer", dict(rnd(fcp, StructType("Outer"), random.Random(1)), pts=[pt, pt, pt, pt])
    ) == outcome(encode, fcp, "Outer", dict(rnd(fcp, StructType("Outer"), random.Random(1)), pts=[pt, pt, pt]))
    P["enc_first_error_wins"] = outcome(encode, fcp, "Inner", {"a": "bad", "m": 1})
    P["enc_enum_out_of_range"] = outcome(encode, fcp, "Inner", dict(inner, m=9))
    return P


EXPECTED = json.loads(r'''
{
 "dec_dynd_exact": [
  "ok",
  "{'pad': 1, 'v': [1.0, 2.0]}"
 ],
 "dec_dynd_short": [
  "err",
  "ValueError",
  "buffer overrrun"
 ],
 "dec_dynf_exact": [
  "ok",
  "{'v': [1.0]}"
 ],
 "dec_dynf_huge": [
  "err",
  "ValueError",
  "buffer overrrun"
 ],
 "dec_dynf_short": [
  "err",
  "ValueError",
  "buffer overrrun"
 ],
 "dec_dyni_exact": [
  "ok",
  "{'v': [-1, 1]}"
 ],
 "dec_dyni_short": [
  "err",
  "ValueError",
  "buffer overrrun"
 ],
 "dec_dynmode_exact": [
  "ok",
  "{'v': [1, 5]}"
 ],
 "dec_dynmode_short": [
  "err",
  "ValueError",
  "buffer overrrun"
 ],
 "dec_dynpt_huge": [
  "err",
  "ValueError",
  "buffer overrrun"
 ],
 "dec_dynstr_huge": [
  "err",
  "ValueError",
  "buffer overrrun"
 ],
 "dec_dynstr_inner_huge": [
  "err",
  "ValueError",
  "buffer overrrun"
 ],
 "dec_dynu3_exact_byte_end": [
  "ok",
  "{'pad': 0, 'v': [7]}"
 ],
 "dec_dynu3_fits_in_padding": [
  "ok",
  "{'pad': 0, 'v': [7, 1]}"
 ],
 "dec_dynu3_one_too_many": [
  "err",
  "ValueError",
  "buffer overrrun"
 ],
 "dec_dynu8_exact": [
  "ok",
  "{'v': [1, 2, 3]}"
 ],
 "dec_dynu8_huge": [
  "err",
  "ValueError",
  "buffer overrrun"
 ],
 "dec_dynu8_less": [
  "ok",
  "{'v': [1, 2]}"
 ],
 "dec_dynu8_one_more": [
  "err",
  "ValueError",
  "buffer overrrun"
 ],
 "dec_dynu8_zero_nobytes": [
  "ok",
  "{'v': []}"
 ],
 "dec_list_input_wide_ints": [
  "ok",
  "{'v': [255, 255]}"
 ],
 "dec_opt_flag2": [
  "ok",
  "{'v': 9, 'w': None}"
 ],
 "dec_opt_missing_payload": [
  "err",
  "ValueError",
  "buffer overrrun"
 ],
 "dec_opt_none_none": [
  "ok",
  "{'v': None, 'w': None}"
 ],
 "dec_str_count_only_3": [
  "err",
  "ValueError",
  "buffer overrrun"
 ],
 "dec_str_empty_buf": [
  "err",
  "ValueError",
  "buffer overrrun"
 ],
 "dec_str_exact": [
  "ok",
  "{'pad': 5, 's': 'hello'}"
 ],
 "dec_str_huge": [
  "err",
  "ValueError",
  "buffer overrrun"
 ],
 "dec_str_nonascii": [
  "err",
  "UnicodeDecodeError",
  "'ascii' codec can't decode byte 0xe2 in position 1: ordinal not in range(128)"
 ],
 "dec_str_one_short": [
  "err",
  "ValueError",
  "buffer overrrun"
 ],
 "dec_str_zero": [
  "ok",
  "{'pad': 0, 's': ''}"
 ],
 "dec_unknown_struct": [
  "err",
  "UnwrapError",
  "Called `Maybe.unwrap()` on a `Nothing` value"
 ],
 "enc_array_long_ignored": true,
 "enc_array_short": [
  "err",
  "IndexError",
  "list index out of range"
 ],
 "enc_bool_for_int": [
  "ok",
  "01000000"
 ],
 "enc_bytes_for_str": [
  "err",
  "TypeError",
  "ord() expected string of length 1, but int found"
 ],
 "enc_dict_for_dynpt": [
  "err",
  "KeyError",
  "'y'"
 ],
 "enc_enum_out_of_range": [
  "ok",
  "f101"
 ],
 "enc_extra_field": [
  "ok",
  "01400000"
 ],
 "enc_f32_overflow": [
  "ok",
  "010000000000807f"
 ],
 "enc_first_error_wins": [
  "err",
  "TypeError",
  "unsupported operand type(s) for >>: 'str' and 'int'"
 ],
 "enc_float_for_int": [
  "err",
  "TypeError",
  "unsupported operand type(s) for >>: 'float' and 'int'"
 ],
 "enc_int_for_float": [
  "ok",
  "020000000000803f00000040"
 ],
 "enc_int_for_str": [
  "err",
  "TypeError",
  "object of type 'int' has no len()"
 ],
 "enc_missing_field": [
  "err",
  "KeyError",
  "'y'"
 ],
 "enc_negative_unsigned": [
  "ok",
  "ff1f0000"
 ],
 "enc_none_for_dyn": [
  "err",
  "TypeError",
  "object of type 'NoneType' has no len()"
 ],
 "enc_none_for_int": [
  "err",
  "TypeError",
  "unsupported operand type(s) for >>: 'NoneType' and 'int'"
 ],
 "enc_opt_bad_payload": [
  "err",
  "TypeError",
  "unsupported operand type(s) for >>: 'str' and 'int'"
 ],
 "enc_opt_falsy_values": [
  "ok",
  "010000"
 ],
 "enc_str_for_float": [
  "err",
  "error",
  "required argument is not a float"
 ],
 "enc_str_for_int": [
  "err",
  "TypeError",
  "unsupported operand type(s) for >>: 'str' and 'int'"
 ],
 "enc_tuple_for_dyn": [
  "ok",
  "020000000102"
 ],
 "enc_unknown_struct": [
  "err",
  "UnwrapError",
  "Called `Maybe.unwrap()` on a `Nothing` value"
 ],
 "enc_wide_char": [
  "ok",
  "10000000080b02"
 ],
 "enc_wraps_unsigned": [
  "ok",
  "05000000"
 ]
}
''')


def main():
    n_checks = 0
    with tempfile.TemporaryDirectory() as d:
        path = Path(d) / "c02_demo.fcp"
        path.write_text(SCHEMA)
        fcp = get_fcp(path).unwrap()
        fcp_again = get_fcp(path).unwrap()

    # 1. cross-language vectors
    n_checks += run_vectors()

    # 2. hand-written values with known bytes
    # Pt: x u13 = 1, y i17 = -1 -> bits: 1 then 12 zeros then 17 ones = 30 bits
    check(bytes(encode(fcp, "Pt", {"y": -1, "x": 1})) == bytes([0x01, 0xE0, 0xFF, 0x3F]), "Pt literal bytes")
    check(bytes(encode(fcp, "Inner", {"a": 5, "b": -3, "m": 5})) == bytes([0xED, 0x05]), "Inner literal bytes")
    check(
        bytes(encode(fcp, "Str", {"pad": 7, "s": "A"})) == bytes([0x0F, 0x00, 0x00, 0x00, 0x08, 0x02]),
        "Str literal bytes",
    )
    check(
        bytes(encode(fcp, "Opt", {"v": 0, "w": {"x": 8191, "y": 1}})) == bytes([1, 0, 1, 0xFF, 0x3F, 0x00, 0x00]),
        "Opt literal bytes",
    )
    check(decode(fcp, "Pt", bytearray([0x01, 0xE0, 0xFF, 0x3F])) == {"x": 1, "y": -1}, "Pt literal decode")
    check(list(decode(fcp, "Pt", bytearray([0x01, 0xE0, 0xFF, 0x3F])).keys()) == ["x", "y"], "Pt key order")

    # 3. boundary values of every width
    st = fcp.get_struct("Ints").unwrap()
    for mode in ("zero", "max", "min", "minus1", "msb_unsigned", "alt"):
        v = {}
        for f in st.fields:
            n = int(f.type.name[1:])
            signed = isinstance(f.type, SignedType)
            if mode == "zero":
                v[f.name] = 0
            elif mode == "max":
                v[f.name] = (1 << (n - 1)) - 1 if signed else (1 << n) - 1
            elif mode == "min":
                v[f.name] = -(1 << (n - 1)) if signed else 0
            elif mode == "minus1":
                v[f.name] = -1 if signed else 1
            elif mode == "msb_unsigned":
                v[f.name] = -(1 << (n - 1)) + 1 if signed else 1 << (n - 1)
            else:
                pat = int("01" * 32, 2) & ((1 << n) - 1)
                v[f.name] = pat - (1 << n) if signed and pat >> (n - 1) else pat
        both_ways(fcp, "Ints", v, f"Ints/{mode}")
        n_checks += 1

    # 4. seeded random values, every struct of the schema
    r = random.Random(0xC02)
    names = [s.name for s in fcp.structs]
    seen = {}
    for i in range(1500):
        name = names[i % len(names)]
        v = rnd(fcp, StructType(name), r)
        wire = both_ways(fcp, name, v, f"random#{i}/{name}")
        seen.setdefault(name, []).append((v, wire))
        n_checks += 1

    # 5. repeated and interleaved calls, second parse of the same schema
    for name, items in seen.items():
        for v, wire in items[:6]:
            a = encode(fcp, name, v)
            b = encode(fcp_again, name, v)
            c = encode(fcp, name, v)
            check(a == wire and b == wire and c == wire, f"repeat {name}: encode not stable")
            a.append(1)  # results are fresh objects
            check(encode(fcp, name, v) == wire, f"repeat {name}: result aliased")
            if not has_signed_min(fcp, StructType(name), v):
                d1 = decode(fcp, name, wire)
                d2 = decode(fcp_again, name, bytearray(wire))
                check(same(d1, d2), f"repeat {name}: decode not stable")
            n_checks += 1

    # 6. every strict prefix of a canonical encoding is rejected the same way
    v = ordered(fcp, StructType("Outer"), rnd(fcp, StructType("Outer"), random.Random(7)))
    wire = ref_encode(fcp, "Outer", v)
    for cut in range(len(wire)):
        got = outcome(decode, fcp, "Outer", wire[:cut])
        check(got == ["err", "ValueError", "buffer overrrun"], f"prefix {cut}/{len(wire)}: {got}")
        n_checks += 1

    # 7. malformed inputs
    probes = error_probes(fcp)
    if os.environ.get("C02_DEMO_DUMP"):
        print(json.dumps(probes, indent=1, sort_keys=True))
    else:
        for k in sorted(set(probes) | set(EXPECTED)):
            check(probes.get(k) == EXPECTED.get(k), f"probe {k}: got {probes.get(k)!r} want {EXPECTED.get(k)!r}")
            n_checks += 1

    n_checks += extra_checks(fcp)

    if failures:
        print(f"FAIL ({len(failures)} of {n_checks} checks)")
        for f in failures[:25]:
            print("  -", f)
        return 1
    print(f"PASS ({n_checks} checks)")
    return 0


def extra_checks(fcp):
    """Dispatch on the type object: subclasses, unknown types, first match."""
    import copy
    from fcp.specs.type import Type

    n = 0

    class Weird(Type):
        def __str__(self):
            return "<weird>"

    class MyUnsigned(UnsignedType):
        pass

    class MyStruct(StructType):
        pass

    class Both(SignedType, StringType):  # first matching entry decides
        def __init__(self):
            self.name = "i4"
            self.type = "signed"

    f2 = copy.deepcopy(fcp)
    pt = f2.get_struct("Pt").unwrap()
    x = [f for f in pt.fields if f.name == "x"][0]
    y = [f for f in pt.fields if f.name == "y"][0]

    x.type = Weird()
    check(outcome(encode, f2, "Pt", {"x": 1, "y": 2}) == ["err", "ValueError", "Unmatched type <weird>"], "unknown type, encode")
    check(outcome(decode, f2, "Pt", bytearray(8)) == ["err", "ValueError", "Unmatched type"], "unknown type, decode")
    # the error is raised when the field is reached, not before
    x.type, y.type = UnsignedType("u13"), Weird()
    check(outcome(encode, f2, "Pt", {"x": "bad", "y": 2})[1] == "TypeError", "unknown type after a failing field")
    check(outcome(decode, f2, "Pt", bytearray(1)) == ["err", "ValueError", "buffer overrrun"], "unknown type after overrun")
    n += 4

    x.type, y.type = MyUnsigned("u13"), SignedType("i17")
    check(bytes(encode(f2, "Pt", {"x": 1, "y": -1})) == bytes([0x01, 0xE0, 0xFF, 0x3F]), "subclass of UnsignedType")
    check(decode(f2, "Pt", bytearray([0x01, 0xE0, 0xFF, 0x3F])) == {"x": 1, "y": -1}, "subclass of UnsignedType, decode")
    x.type, y.type = UnsignedType("u4"), Both()
    check(bytes(encode(f2, "Pt", {"x": 1, "y": -2})) == bytes([0xE1]), "multiple inheritance picks signed")
    check(decode(f2, "Pt", bytearray([0xE1])) == {"x": 1, "y": -2}, "multiple inheritance picks signed, decode")
    dyn = f2.get_struct("DynPt").unwrap().fields[0]
    x.type, y.type = UnsignedType("u13"), SignedType("i17")
    dyn.type = DynamicArrayType(MyStruct("Pt"))
    v = {"v": [{"x": 3, "y": -4}, {"x": 8191, "y": 65535}]}
    check(encode(f2, "DynPt", v) == ref_encode(fcp, "DynPt", v), "subclass of StructType")
    check(decode(f2, "DynPt", ref_encode(fcp, "DynPt", v)) == v, "subclass of StructType, decode")
    n += 6
    return n


if __name__ == "__main__":
    sys.exit(main())
