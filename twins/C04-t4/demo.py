#!/usr/bin/env python
"""Differential test for property C04 (packed CAN layout tiles the message).

The packed encoder is compared against an independent reference model written
below (own recursion, own width computation, own option lookup) on

  * hand written boundary shapes (widths 1..64, unaligned offsets, enum maxima),
  * a few hundred seeded random fixed-size struct shapes (nesting, arrays of
    scalars / enums / structs / arrays, shuffled and duplicate field ids),
  * random sequences of generate() calls on ONE encoder (history independence,
    earlier results must not be touched by later calls, recovery after errors),
  * per-signal option placement (byte order, multiplexing) incl. parsed schemas,
  * error inputs (unknown types, dynamic types, non-unrolled arrays of structs,
    oversized / negative enums).

Run with PYTHONPATH pointing at the tree under test.  Prints PASS and exits 0
when every check holds.
"""

import math
import os
import random
import sys
from copy import deepcopy

from fcp.encoding import (
    PackedEncoder,
    PackedEncoderContext,
    Value,
    make_encoder,
)
from fcp.maybe import Some, Nothing, UnwrapError
from fcp.parser import get_fcp_from_string
from fcp.specs.enum import Enum, Enumeration
from fcp.specs.impl import Impl
from fcp.specs.metadata import MetaData
from fcp.specs.signal_block import SignalBlock
from fcp.specs.struct import Struct
from fcp.specs.struct_field import StructField
from fcp.specs.type import (
    ArrayType,
    DoubleType,
    DynamicArrayType,
    EnumType,
    FloatType,
    OptionalType,
    SignedType,
    StringType,
    StructType,
    UnsignedType,
)
from fcp.specs.v2 import FcpV2

FCP_ROOT = os.environ.get("FCP_ROOT", "/tmp/twin-C04")

CHECKS = 0


def check(cond, msg):
    global CHECKS
    CHECKS += 1
    if not cond:
        print("FAIL:", msg)
        sys.exit(1)


def meta():
    return MetaData(
        line=1,
        end_line=1,
        column=1,
        end_column=1,
        start_pos=1,
        end_pos=1,
        filename="demo.fcp",
    )


def mk_impl(type_name, signals=None, name=None, protocol="can"):
    blocks = [SignalBlock(n, f, meta()) for n, f in (signals or [])]
    return Impl(
        name=name or type_name,
        protocol=protocol,
        type=type_name,
        fields={"id": 10},
        signals=blocks,
        meta=meta(),
    )


# --------------------------------------------------------------------------
# Reference model.  A leaf is the tuple
#   (name, type, bitstart, bitlength, endianess, unit, options, composite)
# An expected error is ("error", exception class, message or None).
# --------------------------------------------------------------------------


class Expected(Exception):
    def __init__(self, cls, text=None):
        super().__init__(cls, text)
        self.cls = cls
        self.text = text


def ref_enum_bits(enum):
    # wire width of an enum used as a struct member
    top = max(m.value for m in enum.enumeration)
    if top < 0:
        raise Expected(ValueError, "math domain error")
    if top < 2:
        return 1
    if top < (1 << 40):
        return top.bit_length()
    return math.floor(math.log2(top) + 1)


def ref_find(seq, name):
    for item in seq:
        if item.name == name:
            return item
    return None


def ref_width(fcp, t):
    if isinstance(t, (UnsignedType, SignedType, FloatType, DoubleType)):
        return int(t.name[1:])
    if isinstance(t, ArrayType):
        return t.size * ref_width(fcp, t.underlying_type)
    if isinstance(t, EnumType):
        enum = ref_find(fcp.enums, t.name)
        if enum is None:
            raise Expected(UnwrapError)
        return ref_enum_bits(enum)
    raise Expected(ValueError, "Error computing type length for type " + str(t))


def ref_layout(fcp, impl, unroll):
    leaves = []
    cursor = [0]

    def options_for(field_name):
        block = ref_find(impl.signals, field_name)
        return block.fields if block is not None else {}

    def named_type(type_name, prefix):
        node = ref_find(list(fcp.structs) + list(fcp.enums), type_name)
        if node is None:
            raise Expected(UnwrapError)
        if isinstance(node, Struct):
            order = sorted(
                range(len(node.fields)), key=lambda i: (node.fields[i].field_id, i)
            )
            for i in order:
                member(node.fields[i], prefix)
        else:
            # a struct-typed reference that resolves to an enum
            top = max(m.value for m in node.enumeration)
            if top + 1 <= 0:
                raise Expected(ValueError, "math domain error")
            bits = math.ceil(math.log2(top + 1))
            if bits > 64:
                raise Expected(
                    ValueError, f"Way too large an enum, computed size: {bits}"
                )
            leaves.append(
                (
                    prefix[:-2],
                    StructType(type_name),
                    cursor[0],
                    bits,
                    "little",
                    None,
                    {},
                    Some(node.name),
                )
            )
            cursor[0] += bits

    def member(field, prefix, name=None, t=None):
        name = field.name if name is None else name
        t = field.type if t is None else t
        opts = options_for(name)
        if isinstance(t, StructType):
            named_type(t.name, prefix + name + "::")
        elif isinstance(t, ArrayType) and unroll:
            for k in range(t.size):
                member(field, prefix, f"{name}_{k}", t.underlying_type)
        else:
            bits = ref_width(fcp, t)
            leaves.append(
                (
                    prefix + name,
                    t,
                    cursor[0],
                    bits,
                    opts.get("endianess") or "little",
                    field.unit,
                    opts,
                    Nothing(),
                )
            )
            cursor[0] += bits

    named_type(impl.type, "")
    return leaves


def observe(encoder, impl):
    """Run generate() and normalise to the reference representation."""
    try:
        values = encoder.generate(impl)
    except Exception as e:  # noqa: BLE001 - error behaviour is compared too
        return ("error", type(e), str(e)), None
    out = []
    for v in values:
        check(isinstance(v, Value), "encodable piece is a Value")
        out.append(
            (
                v.name,
                v.type,
                v.bitstart,
                v.bitlength,
                v.endianess,
                v.unit,
                v.extended_data,
                v.composite_type,
            )
        )
    return out, values


def expected(fcp, impl, unroll):
    try:
        return ref_layout(fcp, impl, unroll)
    except Expected as e:
        return ("error", e.cls, e.text)


def same(got, want):
    if isinstance(want, tuple) and want and want[0] == "error":
        if not (isinstance(got, tuple) and got and got[0] == "error"):
            return False
        if got[1] is not want[1]:
            return False
        return want[2] is None or got[2] == want[2]
    if isinstance(got, tuple):
        return False
    if len(got) != len(want):
        return False
    for g, w in zip(got, want):
        if g != w:
            return False
        # type(...) must match exactly, not only compare equal
        if type(g[1]) is not type(w[1]):
            return False
    return True


def tiling_ok(fcp, layout):
    """Property proper: start at 0, no gaps, no overlaps, unique names."""
    pos = 0
    names = set()
    for name, t, start, length, *_ in layout:
        if start != pos:
            return False
        if length != ref_width(fcp, t):
            return False
        pos = start + length
        if name in names:
            return False
        names.add(name)
    return True


def full_check(fcp, impl, unroll, label, expect_tiling=True):
    ctx = PackedEncoderContext().with_unroll_arrays(unroll)
    got, _ = observe(PackedEncoder(fcp, ctx), impl)
    want = expected(fcp, impl, unroll)
    check(same(got, want), f"{label}: layout differs\n got  {got}\n want {want}")
    if expect_tiling and not isinstance(got, tuple):
        check(tiling_ok(fcp, got), f"{label}: layout does not tile: {got}")
    return got


# --------------------------------------------------------------------------
# 1. boundary shapes
# --------------------------------------------------------------------------


def scalar(width, kind):
    if kind == "u":
        return UnsignedType(f"u{width}")
    return SignedType(f"i{width}")


def boundary_shapes():
    # every width 1..64, unsigned and signed, as one long unaligned message
    fields = []
    fid = 0
    for w in range(1, 65):
        for kind in "ui":
            fields.append(StructField(f"{kind}{w}_", fid, scalar(w, kind), unit="V"))
            fid += 1
    fields.append(StructField("flt", fid, FloatType()))
    fields.append(StructField("dbl", fid + 1, DoubleType()))
    random.Random(1).shuffle(fields)
    s = Struct("Wide", fields)
    fcp = FcpV2(structs=[s])
    for unroll in (False, True):
        got = full_check(fcp, mk_impl("Wide"), unroll, "all widths")
        check(got[0][2] == 0, "starts at bit 0")
        check(
            got[-1][2] + got[-1][3] == 2 * sum(range(1, 65)) + 96,
            "total length of all-widths message",
        )
        check(
            [g[0] for g in got]
            == [f.name for f in sorted(fields, key=lambda f: f.field_id)],
            "ascending field id",
        )

    # enums of many max values, used as members at unaligned offsets
    maxima = sorted(
        set(
            list(range(0, 70))
            + [2**k + d for k in range(6, 40) for d in (-1, 0, 1)]
            + [2**63 - 1024, 2**63, 2**64 - 2**11, 2**64]
        )
    )
    for m in maxima:
        e = Enum("E", [Enumeration("Lo", 0), Enumeration("Hi", m)] if m else [Enumeration("Lo", 0)])
        s = Struct(
            "S",
            [
                StructField("pad", 0, UnsignedType("u3")),
                StructField("e", 1, EnumType("E")),
                StructField("arr", 2, ArrayType(EnumType("E"), 3)),
                StructField("tail", 3, SignedType("i5")),
            ],
        )
        fcp = FcpV2(structs=[s], enums=[e])
        for unroll in (False, True):
            got = full_check(fcp, mk_impl("S"), unroll, f"enum max {m}")
            check(got[1][3] == e.get_packed_size(), "enum leaf has packed size")
            if m < 2**40:
                check(got[1][3] == max(1, m.bit_length()), f"enum width for max {m}")

    # enum whose largest value is not the last / first one, negative companions
    e = Enum("E", [Enumeration("A", 5), Enumeration("B", 300), Enumeration("C", 7)])
    s = Struct("S", [StructField("e", 0, EnumType("E")), StructField("x", 1, UnsignedType("u1"))])
    got = full_check(FcpV2(structs=[s], enums=[e]), mk_impl("S"), False, "enum middle max")
    check(got[0][3] == 9 and got[1][2] == 9, "enum width 9")


# --------------------------------------------------------------------------
# 2. random shapes
# --------------------------------------------------------------------------


def random_schema(rng, allow_bad=False):
    n_enums = rng.randint(0, 3)
    enums = []
    for i in range(n_enums):
        count = rng.randint(1, 4)
        vals = rng.sample(range(0, rng.choice([2, 4, 9, 300, 70000, 2**33])), k=1)
        vals += [rng.randint(0, vals[0]) for _ in range(count - 1)]
        rng.shuffle(vals)
        enums.append(Enum(f"E{i}", [Enumeration(f"M{j}", v) for j, v in enumerate(vals)]))

    structs = []
    n_structs = rng.randint(1, 5)

    def rand_type(depth, level):
        roll = rng.random()
        if roll < 0.45 or depth > 2:
            pick = rng.random()
            if pick < 0.4:
                return UnsignedType(f"u{rng.randint(1, 64)}")
            if pick < 0.7:
                return SignedType(f"i{rng.randint(1, 64)}")
            if pick < 0.8:
                return FloatType()
            if pick < 0.9:
                return DoubleType()
            if enums:
                return EnumType(rng.choice(enums).name)
            return UnsignedType("u7")
        if roll < 0.65 and level > 0:
            return StructType(f"S{rng.randrange(level)}")
        if roll < 0.9:
            return ArrayType(rand_type(depth + 1, level), rng.randint(0, 3))
        if enums:
            return EnumType(rng.choice(enums).name)
        return SignedType("i3")

    for level in range(n_structs):
        n_fields = rng.randint(1, 5)
        ids = rng.sample(range(0, 12), k=n_fields)
        if rng.random() < 0.15 and n_fields > 1:
            ids[1] = ids[0]  # duplicate id: list order decides
        fields = []
        for k in range(n_fields):
            fields.append(
                StructField(
                    f"f{k}",
                    ids[k],
                    rand_type(0, level),
                    unit=rng.choice([None, "m", "rpm"]),
                )
            )
        structs.append(Struct(f"S{level}", fields))

    if allow_bad and rng.random() < 0.5:
        victim = rng.choice(structs)
        bad = rng.choice(
            [
                StringType(),
                OptionalType(UnsignedType("u8")),
                DynamicArrayType(UnsignedType("u8")),
                StructType("Missing"),
                EnumType("Missing"),
                ArrayType(StringType(), 2),
            ]
        )
        victim.fields.append(StructField("bad", rng.randint(0, 12), bad))

    impls = []
    for s in structs:
        names = ["f0", "f1", "f2", "f3", "f4", "f0_0", "f1_1", "f2_0_1", "S0", "nope"]
        sigs = []
        for n in rng.sample(names, k=rng.randint(0, 4)):
            opts = {}
            if rng.random() < 0.6:
                opts["endianess"] = rng.choice(["big", "little", "", None])
            if rng.random() < 0.4:
                opts["mux_count"] = rng.randint(1, 8)
                opts["mux_signal"] = rng.choice(names)
            sigs.append((n, opts))
        if sigs and rng.random() < 0.2:
            sigs.append((sigs[0][0], {"endianess": "big", "shadowed": True}))
        impls.append(mk_impl(s.name, sigs))
    return FcpV2(structs=structs, enums=enums, impls=impls)


def random_shapes():
    rng = random.Random(0xC04)
    laid_out = 0
    for case in range(350):
        fcp = random_schema(rng, allow_bad=(case % 5 == 4))
        for impl in fcp.impls:
            for unroll in (False, True):
                got = full_check(fcp, impl, unroll, f"random case {case} {impl.type} unroll={unroll}")
                if not isinstance(got, tuple):
                    laid_out += 1
    check(laid_out > 600, f"enough successful random layouts ({laid_out})")


# --------------------------------------------------------------------------
# 3. sequences of generate() calls on one encoder
# --------------------------------------------------------------------------


def call_sequences():
    rng = random.Random(77)
    for case in range(60):
        fcp = random_schema(rng, allow_bad=(case % 3 == 0))
        # an impl whose type does not exist and one that names an enum
        fcp.impls.append(mk_impl("Ghost"))
        if fcp.enums:
            fcp.impls.append(mk_impl(fcp.enums[0].name))
        for unroll in (False, True):
            ctx = PackedEncoderContext().with_unroll_arrays(unroll)
            fresh = {}
            for i, impl in enumerate(fcp.impls):
                fresh[i], _ = observe(make_encoder("packed", fcp, ctx), impl)
                check(
                    same(fresh[i], expected(fcp, impl, unroll)),
                    f"seq case {case}: fresh layout of impl {i}",
                )
            shared = make_encoder("packed", fcp, ctx)
            kept = []
            for step in range(25):
                i = rng.randrange(len(fcp.impls))
                got, raw = observe(shared, fcp.impls[i])
                check(
                    same(got, fresh[i]) and same(fresh[i], got),
                    f"seq case {case} step {step}: layout depends on history\n"
                    f" got {got}\n fresh {fresh[i]}",
                )
                if raw is not None:
                    kept.append((raw, list(raw), [deepcopy(vars(v)) for v in raw]))
                for raw_list, snapshot, attrs in kept:
                    check(
                        len(raw_list) == len(snapshot)
                        and all(a is b for a, b in zip(raw_list, snapshot)),
                        "an earlier result list was modified by a later call",
                    )
                    check(
                        [vars(v) for v in raw_list] == attrs,
                        "an earlier Value was modified by a later call",
                    )
                if len(kept) > 1 and kept[-1][0] is not None:
                    check(kept[-1][0] is not kept[-2][0], "each call returns its own list")

    # the schema objects themselves are not modified by laying them out
    fcp = random_schema(random.Random(5))
    before = deepcopy(fcp.to_dict())
    enc = PackedEncoder(fcp, PackedEncoderContext(unroll_arrays=True))
    for impl in fcp.impls * 3:
        observe(enc, impl)
    check(fcp.to_dict() == before, "generate() must not modify the schema")


# --------------------------------------------------------------------------
# 4. option placement, hand written and parsed
# --------------------------------------------------------------------------

PARSED = """version: "3"

enum Mode {
    Off = 0,
    On = 1,
    Fault = 5,
}

struct Inner {
    lo @1: u3,
    hi @0: i13 | unit("A"),
    mode @2: Mode,
}

struct Outer {
    tail @7: u1,
    first @0: Inner,
    arr @3: [u5, 3],
    grid @4: [[i2, 2], 2],
    inners @5: [Inner, 2],
    lo @6: f32,
    modes @2: [Mode, 2],
}

impl can for Outer {
    id: 100,

    signal lo {
        endianess: "big",
    },

    signal arr_1 {
        mux_count: 4,
        mux_signal: "tail",
    },

    signal arr {
        endianess: "big",
    },
}

impl can for Inner as Second {
    id: 101,

    signal hi {
        endianess: "big",
    },
}
"""


def option_placement():
    fcp = get_fcp_from_string(PARSED).unwrap()
    outer = [i for i in fcp.get_matching_impls("can") if i.type == "Outer"][0]
    inner = [i for i in fcp.get_matching_impls("can") if i.type == "Inner"][0]
    check(inner.name == "Second" and len(outer.signals) == 3, "parsed bindings")

    got = full_check(fcp, outer, True, "parsed unrolled")
    names = [g[0] for g in got]
    check(
        names
        == [
            "first::hi",
            "first::lo",
            "first::mode",
            "modes_0",
            "modes_1",
            "arr_0",
            "arr_1",
            "arr_2",
            "grid_0_0",
            "grid_0_1",
            "grid_1_0",
            "grid_1_1",
            "inners_0::hi",
            "inners_0::lo",
            "inners_0::mode",
            "inners_1::hi",
            "inners_1::lo",
            "inners_1::mode",
            "lo",
            "tail",
        ],
        f"parsed unrolled names {names}",
    )
    check(
        [g[3] for g in got]
        == [13, 3, 3, 3, 3, 5, 5, 5, 2, 2, 2, 2, 13, 3, 3, 13, 3, 3, 32, 1],
        "parsed unrolled widths",
    )
    for g in got:
        leaf_field = g[0].split("::")[-1]
        if leaf_field == "lo":
            check(g[4] == "big" and g[6] == {"endianess": "big"}, f"lo option on {g[0]}")
        elif leaf_field == "arr_1":
            check(
                g[4] == "little" and g[6] == {"mux_count": 4, "mux_signal": "tail"},
                "mux option on arr_1",
            )
        else:
            check(g[4] == "little" and g[6] == {}, f"no option leaks to {g[0]}")

    got = full_check(fcp, outer, False, "parsed rolled", expect_tiling=False)
    check(isinstance(got, tuple) and got[1] is ValueError, "array of structs needs unrolling")

    # drop the struct array: rolled layout now exists, `arr` options apply to arr
    o = fcp.get_struct("Outer").unwrap()
    o.fields = [f for f in o.fields if f.name != "inners"]
    got = full_check(fcp, outer, False, "parsed rolled 2")
    by_name = {g[0]: g for g in got}
    check(by_name["arr"][3] == 15 and by_name["arr"][4] == "big", "rolled arr is big endian")
    check(by_name["grid"][3] == 8 and by_name["modes"][3] == 6, "rolled widths")
    check(by_name["lo"][4] == "big" and by_name["first::lo"][4] == "big", "same-named leaves")
    check(
        all(g[4] == "little" and g[6] == {} for n, g in by_name.items() if n.split("::")[-1] not in ("lo", "arr")),
        "no leak (rolled)",
    )

    # interleave the two bindings on one encoder
    enc = PackedEncoder(fcp, PackedEncoderContext(unroll_arrays=True))
    a1, _ = observe(enc, outer)
    b1, _ = observe(enc, inner)
    a2, _ = observe(enc, outer)
    b2, _ = observe(enc, inner)
    check(same(a1, a2) and same(b1, b2), "interleaved bindings")
    check([(g[0], g[2], g[3], g[4]) for g in b1] == [("hi", 0, 13, "big"), ("lo", 13, 3, "little"), ("mode", 16, 3, "little")], "Inner binding")
    check(b1[0][5] == "A", "unit is carried")

    # options of one leaf are not shared with / visible on another leaf
    s = Struct("P", [StructField("a", 0, UnsignedType("u4")), StructField("b", 1, UnsignedType("u4")), StructField("c", 2, ArrayType(UnsignedType("u2"), 2))])
    impl = mk_impl("P", [("b", {"endianess": "big", "mux_count": 2, "mux_signal": "a"})])
    fcp2 = FcpV2(structs=[s], impls=[impl])
    enc = PackedEncoder(fcp2, PackedEncoderContext(unroll_arrays=True))
    vals = enc.generate(impl)
    check(vals[1].extended_data is impl.signals[0].fields, "b carries its signal block")
    vals[0].extended_data["scribble"] = 1
    check("scribble" not in vals[2].extended_data and "scribble" not in vals[3].extended_data, "option dicts of unrelated leaves are distinct")
    again = enc.generate(impl)
    check(all(v.extended_data == {} for v in (again[0], again[2], again[3])), "no option leak across calls")
    check(again[1].endianess == "big" and again[0].endianess == "little", "byte order only on b")


# --------------------------------------------------------------------------
# 5. error inputs and odd corners
# --------------------------------------------------------------------------


def error_inputs():
    base = [StructField("a", 0, UnsignedType("u9"))]
    cases = [
        (StringType(), ValueError),
        (OptionalType(UnsignedType("u8")), ValueError),
        (DynamicArrayType(UnsignedType("u8")), ValueError),
        (StructType("Missing"), UnwrapError),
        (EnumType("Missing"), UnwrapError),
        (ArrayType(StructType("T"), 2), ValueError),
        (ArrayType(ArrayType(StringType(), 1), 1), ValueError),
    ]
    t = Struct("T", [StructField("z", 0, UnsignedType("u2"))])
    for bad, exc in cases:
        s = Struct("S", base + [StructField("bad", 1, bad)])
        fcp = FcpV2(structs=[s, t])
        got = full_check(fcp, mk_impl("S"), False, f"error {bad}")
        check(isinstance(got, tuple) and got[1] is exc, f"{bad} raises {exc.__name__}, got {got}")
        # a failed call leaves the encoder usable
        enc = PackedEncoder(fcp, PackedEncoderContext())
        observe(enc, mk_impl("S"))
        ok, _ = observe(enc, mk_impl("T"))
        check(same(ok, [("z", UnsignedType("u2"), 0, 2, "little", None, {}, Nothing())]), "recovers after error")

    # unrolled: array of structs is fine, zero-sized arrays vanish
    s = Struct("S", base + [StructField("ts", 1, ArrayType(StructType("T"), 2)), StructField("none", 2, ArrayType(UnsignedType("u8"), 0)), StructField("end", 3, UnsignedType("u1"))])
    fcp = FcpV2(structs=[s, t])
    got = full_check(fcp, mk_impl("S"), True, "array of struct unrolled")
    check([(g[0], g[2]) for g in got] == [("a", 0), ("ts_0::z", 9), ("ts_1::z", 11), ("end", 13)], "array of struct names")
    got = full_check(fcp, mk_impl("S"), False, "array of struct rolled", expect_tiling=False)
    check(isinstance(got, tuple), "rolled array of struct is an error")

    # binding / struct member that resolves to an enum through a StructType
    for top, want in [(0, 0), (1, 1), (2, 2), (3, 2), (4, 3), (255, 8), (256, 9), (2**64 - 2**11, 64)]:
        e = Enum("E", [Enumeration("A", 0), Enumeration("B", top)])
        s = Struct("S", base + [StructField("e", 1, StructType("E")), StructField("b", 2, UnsignedType("u1"))])
        fcp = FcpV2(structs=[s], enums=[e])
        got = full_check(fcp, mk_impl("S"), False, f"enum via struct type {top}", expect_tiling=False)
        check([(g[0], g[2], g[3]) for g in got] == [("a", 0, 9), ("e", 9, want), ("b", 9 + want, 1)], f"enum via struct type layout {got}")
        check(got[1][7] == Some("E"), "composite type name")
        got = full_check(fcp, mk_impl("E"), False, f"enum binding {top}", expect_tiling=False)
        check([(g[0], g[2], g[3]) for g in got] == [("", 0, want)], "enum binding layout")
    e = Enum("E", [Enumeration("A", 2**65)])
    got = full_check(FcpV2(enums=[e]), mk_impl("E"), False, "huge enum", expect_tiling=False)
    check(got == ("error", ValueError, "Way too large an enum, computed size: 65"), f"huge enum {got}")
    e = Enum("E", [Enumeration("A", -1)])
    got = full_check(FcpV2(enums=[e]), mk_impl("E"), False, "negative enum", expect_tiling=False)
    check(isinstance(got, tuple) and got[1] is ValueError, "enum -1 via struct type")
    s = Struct("S", [StructField("e", 0, EnumType("E"))])
    e = Enum("E", [Enumeration("A", -3), Enumeration("B", -2)])
    got = full_check(FcpV2(structs=[s], enums=[e]), mk_impl("S"), False, "negative enum member", expect_tiling=False)
    check(isinstance(got, tuple) and got[1] is ValueError, "negative enum member")

    # the first definition of a name wins (structs before enums)
    s1 = Struct("D", [StructField("x", 0, UnsignedType("u3"))])
    s2 = Struct("D", [StructField("y", 0, UnsignedType("u4"))])
    e1 = Enum("K", [Enumeration("A", 3)])
    e2 = Enum("K", [Enumeration("A", 200)])
    user = Struct("U", [StructField("d", 0, StructType("D")), StructField("k", 1, EnumType("K")), StructField("k2", 2, ArrayType(EnumType("K"), 2))])
    fcp = FcpV2(structs=[s1, s2, user], enums=[e1, e2])
    got = full_check(fcp, mk_impl("U"), True, "duplicate definitions")
    check([(g[0], g[3]) for g in got] == [("d::x", 3), ("k", 2), ("k2_0", 2), ("k2_1", 2)], "first definition wins")

    # the schema may change between two calls on the same encoder
    enc = PackedEncoder(fcp, PackedEncoderContext(unroll_arrays=True))
    first, _ = observe(enc, mk_impl("U"))
    e1.enumeration.append(Enumeration("Big", 1000))
    s1.fields.append(StructField("w", 1, SignedType("i7")))
    second, _ = observe(enc, mk_impl("U"))
    check(same(second, expected(fcp, mk_impl("U"), True)), "schema edit is seen by the next call")
    check([(g[0], g[2], g[3]) for g in second] == [("d::x", 0, 3), ("d::w", 3, 7), ("k", 10, 10), ("k2_0", 20, 10), ("k2_1", 30, 10)], f"layout after schema edit {second}")
    fcp.enums.remove(e1)
    third, _ = observe(enc, mk_impl("U"))
    check([g[3] for g in third] == [3, 7, 8, 8, 8], "enum removed, next definition used")

    # context given as the class (as one upstream test does): only an array asks it
    s = Struct("S", [StructField("a", 0, UnsignedType("u9"))])
    enc = PackedEncoder(FcpV2(structs=[s]), PackedEncoderContext)
    check(len(enc.generate(mk_impl("S"))) == 1, "context class, no arrays")
    s.fields.append(StructField("arr", 1, ArrayType(UnsignedType("u8"), 2)))
    got, _ = observe(enc, mk_impl("S"))
    check(isinstance(got, tuple) and got[1] is AttributeError, "context class with array")

    try:
        make_encoder("loose", FcpV2(), PackedEncoderContext())
        check(False, "unknown encoder name must raise")
    except KeyError as e:
        check(e.args == ("Invalid encoding name loose",), "unknown encoder message")


def repository_schemas():
    """Lay out every CAN binding of the example schemas shipped in the tree."""
    import pathlib
    from fcp.parser import get_fcp

    seen = 0
    for path in sorted(pathlib.Path(FCP_ROOT, "plugins").rglob("*.fcp")):
        r = get_fcp(str(path))
        if r.is_err():
            continue
        fcp = r.unwrap()
        for impl in fcp.impls:
            for unroll in (False, True):
                got = full_check(fcp, impl, unroll, f"{path} {impl.name}", expect_tiling=False)
                if not isinstance(got, tuple):
                    seen += 1
                    check(tiling_ok(fcp, got), f"{path} {impl.name} tiles")
    check(seen > 20, f"repository schemas laid out ({seen})")


def main():
    boundary_shapes()
    random_shapes()
    call_sequences()
    option_placement()
    error_inputs()
    repository_schemas()
    print(f"PASS ({CHECKS} checks)")


if __name__ == "__main__":
    main()
