#!/usr/bin/env python
"""Property C10: code generation is gated by verification.

Rejected schema  -> generate reports an error and the output directory is left
                    byte-for-byte untouched (nothing created/modified/deleted).
Accepted schema  -> exactly the files returned by the plug-in are written, with
                    exactly the returned contents.

Run with PYTHONPATH pointing at the worktree under test, e.g.
  PYTHONPATH=$R/src:$R/plugins/fcp_dbc:$R/plugins/fcp_can_c:$R/plugins/fcp_cpp:$R/plugins/fcp_nop \
      /venv/bin/python demo.py
"""

import contextlib
import io
import logging
import os
import shutil
import sys
import tempfile
import textwrap
from pathlib import Path

FCP_ROOT = os.environ.get("FCP_ROOT", "/tmp/twin-C10")

import fcp  # noqa: E402
from fcp.codegen import GeneratorManager  # noqa: E402
from fcp.maybe import Nothing  # noqa: E402
from fcp.parser import get_fcp  # noqa: E402
from fcp.result import Err, Ok  # noqa: E402
from fcp.verifier import make_general_verifier  # noqa: E402
from fcp.__main__ import main as fcp_main  # noqa: E402
from click.testing import CliRunner  # noqa: E402

assert Path(fcp.__file__).resolve().is_relative_to(
    Path(FCP_ROOT).resolve()
), f"fcp imported from {fcp.__file__}, expected under {FCP_ROOT} (set PYTHONPATH)"

CHECKS = 0


def ok(cond, msg):
    global CHECKS
    CHECKS += 1
    if not cond:
        print("FAIL:", msg)
        sys.exit(1)


# --------------------------------------------------------------------------
# schemas
# --------------------------------------------------------------------------
GOOD = {
    "basic": """
        version: "3"
        struct A {
            field1 @0: u8,
            field2 @1: u16,
        }
        impl can for A {
            id: 10,
            device: "ecu",
        }
    """,
    "rich": """
        version: "3"
        enum MyEnum {
            S0 = 0,
            S1 = 1,
            S2 = 2,
        }
        struct Inner {
            a @0: u8,
            b @1: i16,
        }
        struct Foo {
            s1 @0: u8,
            s2 @1: u8,
            s3 @2: MyEnum,
            s4 @3: Inner,
            s5 @4: [u8, 2],
        }
        struct Bar {
            x @0: f32,
        }
        impl can for Foo {
            id: 10,
            device: "ecu",
            signal s1 {
                mux_count: 1,
            },
        }
        impl can for Bar {
            id: 11,
            device: "ecu2",
        }
        struct Req {
            r @0: u8,
        }
        service Svc @0 {
            method Get(Req) @0 returns Bar,
        }
        device ecu {
            rpc_get_id: 1025,
            rpc_ans_id: 1026,
            services: [Svc],
        }
    """,
    "no_impl": """
        version: "3"
        struct OnlyStruct {
            v @0: u64,
        }
    """,
}

# name -> (schema, generators that must reject it or None for all, expected text)
BAD = {
    "dup_types": (
        """
        version: "3"
        struct A {
            field1 @0: u8,
        }
        enum A {
            B = 0,
            C = 1,
        }
        """,
        None,
        "Duplicate type names",
    ),
    "dup_types_last": (
        """
        version: "3"
        struct First {
            f @0: u8,
        }
        struct Second {
            f @0: u8,
        }
        impl can for First {
            id: 1,
        }
        enum Z {
            B = 0,
        }
        struct Z {
            f @0: u8,
        }
        """,
        None,
        "Duplicate type names",
    ),
    "dup_impls": (
        """
        version: "3"
        struct A {
            field1 @0: u8,
        }
        impl can for A {
            id: 10,
        }
        impl can for A {
            id: 10,
        }
        """,
        None,
        "Duplicate impls",
    ),
    "dup_fields": (
        """
        version: "3"
        struct Fine {
            x @0: u8,
        }
        struct A {
            field1 @0: u8,
            other @1: u8,
            field1 @2: u16,
        }
        """,
        None,
        "Duplicate fields",
    ),
    "dup_enum_names": (
        """
        version: "3"
        struct S {
            x @0: u8,
        }
        enum E {
            A = 0,
            A = 1,
        }
        """,
        None,
        "Duplicated enumration name",
    ),
    "dup_enum_values": (
        """
        version: "3"
        enum Fine {
            A = 0,
            B = 1,
        }
        enum E {
            A = 0,
            B = 0,
        }
        struct S {
            x @0: u8,
        }
        impl can for S {
            id: 3,
        }
        """,
        None,
        "Duplicated enumeration name",
    ),
    "missing_service": (
        """
        version: "3"
        struct S {
            x @0: u8,
        }
        device ecu {
            services: [Nope],
        }
        """,
        None,
        "doesn't exist",
    ),
    "plugin_impl_no_type": (
        """
        version: "3"
        struct S {
            x @0: u8,
        }
        impl can for Missing {
            id: 3,
        }
        """,
        ("dbc", "can_c"),
        "No matching type",
    ),
    "plugin_dup_can_ids": (
        """
        version: "3"
        struct A {
            field1 @0: u8,
        }
        struct B {
            field1 @0: u8,
        }
        impl can for A {
            id: 10,
        }
        impl can for B {
            id: 10,
        }
        """,
        ("dbc",),
        "Duplicate ids",
    ),
    "plugin_too_big": (
        """
        version: "3"
        struct Small {
            a @0: u8,
        }
        struct Big {
            a @0: u64,
            b @1: u8,
        }
        impl can for Small {
            id: 1,
        }
        impl can for Big {
            id: 2,
        }
        """,
        ("can_c",),
        "way too big",
    ),
}

REAL_GENERATORS = ("dbc", "can_c", "cpp", "nop")


# --------------------------------------------------------------------------
# helpers
# --------------------------------------------------------------------------
def snapshot(root):
    """Full picture of a directory tree: None if it does not exist."""
    root = Path(root)
    if not root.exists():
        return None
    snap = {}
    for dirpath, dirnames, filenames in os.walk(root):
        rel = os.path.relpath(dirpath, root)
        st = os.stat(dirpath)
        snap[("d", rel)] = (st.st_mode, st.st_mtime_ns)
        for name in filenames:
            p = Path(dirpath) / name
            st = p.stat()
            snap[("f", os.path.normpath(os.path.join(rel, name)))] = (
                p.read_bytes(),
                st.st_mode,
                st.st_mtime_ns,
                st.st_ino,
            )
    return snap


def files_of(root):
    root = Path(root)
    out = {}
    if not root.exists():
        return out
    for p in root.rglob("*"):
        if p.is_file():
            out[str(p.relative_to(root))] = p.read_bytes()
    return out


STALE = {
    "stale.h": "// stale header\n",
    "stale.c": "int stale;\n",
    "notes.txt": "keep me\n",
    "default.fcp": "old dbc output\n",
    "fcp.h": "old cpp output\n",
    "sub/inner.c": "int inner;\n",
}


def make_outdir(base, state):
    """state: 'missing' | 'empty' | 'stale'."""
    out = Path(base) / ("out_" + state)
    if out.exists():
        shutil.rmtree(out)
    if state == "missing":
        return out
    out.mkdir()
    if state == "stale":
        for rel, text in STALE.items():
            p = out / rel
            p.parent.mkdir(exist_ok=True)
            p.write_text(text)
    return out


def write_schema(base, name, text):
    p = Path(base) / (name + ".fcp")
    p.write_text(textwrap.dedent(text).lstrip())
    return p


def parse(path):
    r = get_fcp(str(path))
    assert r.is_ok(), f"schema {path} does not parse: {r}"
    return r.unwrap()


class LogCapture(logging.Handler):
    def __init__(self):
        super().__init__(level=logging.DEBUG)
        self.records = []

    def emit(self, record):
        self.records.append(record)


@contextlib.contextmanager
def captured():
    handler = LogCapture()
    root_logger = logging.getLogger()
    old_level = root_logger.level
    root_logger.addHandler(handler)
    root_logger.setLevel(logging.DEBUG)
    buf = io.StringIO()
    try:
        with contextlib.redirect_stdout(buf):
            yield buf, handler
    finally:
        root_logger.removeHandler(handler)
        root_logger.setLevel(old_level)


def api_generate(generator, schema_path, out, templates=None, skel=None, manager=None):
    if manager is None:
        manager = GeneratorManager(make_general_verifier())
    with captured() as (buf, handler):
        res = manager.generate(generator, templates, skel, parse(schema_path), str(out))
    return res, buf.getvalue(), handler.records


def cli_generate(generator, schema_path, out, extra=()):
    runner = CliRunner()
    argv = ["generate", generator, str(schema_path), str(out), *extra]
    old_argv = sys.argv
    sys.argv = ["fcp", *argv]  # the group prints a banner when len(sys.argv) == 1
    try:
        return runner.invoke(fcp_main, argv)
    finally:
        sys.argv = old_argv


# --------------------------------------------------------------------------
# instrumentation of the real plug-ins: remember what generate() returned
# --------------------------------------------------------------------------
RETURNED = {}


def instrument(generator_name):
    mod = __import__("fcp_" + generator_name)
    cls = mod.Generator
    if getattr(cls, "_twin_instrumented", False):
        return
    original = cls.generate

    def recording_generate(self, fcp_, ctx):
        before = files_of(ctx["output"])
        res = original(self, fcp_, ctx)
        RETURNED[generator_name] = (list(res), before, files_of(ctx["output"]))
        return res

    cls.generate = recording_generate
    cls._twin_instrumented = True


def check_accepted_output(gen, out, before_snapshot, stdout):
    """After an accepted run the directory is 'what the plug-in left' + returned files."""
    ok(gen in RETURNED, f"{gen}: plug-in generate() was not called for accepted schema")
    returned, _, left_by_plugin = RETURNED[gen]
    expected = dict(left_by_plugin)
    printed = []
    for item in returned:
        if item.get("type") == "file":
            rel = str(Path(item["path"]).relative_to(out))
            expected[rel] = str(item["contents"]).encode()
        elif item.get("type") == "print":
            printed.append(str(item["contents"]) + "\n")
    after = files_of(out)
    ok(
        set(after) == set(expected),
        f"{gen}: files on disk {sorted(after)} != expected {sorted(expected)}",
    )
    for rel in expected:
        ok(after[rel] == expected[rel], f"{gen}: contents of {rel} differ from returned")
    ok(stdout == "".join(printed), f"{gen}: stdout differs from returned print results: {stdout!r}")
    # the core never deletes: whatever the plug-in left is still there unless overwritten
    for rel in left_by_plugin:
        ok(rel in after, f"{gen}: {rel} disappeared after plug-in returned")


# --------------------------------------------------------------------------
# fake plug-in (fcp_twinfake) with a configurable failing check / results
# --------------------------------------------------------------------------
FAKE_SRC = '''
from fcp.codegen import CodeGenerator
from fcp.verifier import register
from fcp.result import Ok
from fcp.error import error

EVENTS = []
CONFIG = {"fail_category": None, "fail_node": 0, "position": "only",
          "uncategorized": False, "results": None, "seen_ctx": None}


class Generator(CodeGenerator):
    def __init__(self):
        pass

    def generate(self, fcp, ctx):
        EVENTS.append("generate")
        CONFIG["seen_ctx"] = ctx
        return CONFIG["results"](ctx)

    def register_checks(self, verifier):
        EVENTS.append("register_checks")
        category = CONFIG["fail_category"]
        counter = {"n": 0}

        def passing(self, fcp, node):
            EVENTS.append("pass-check")
            return Ok(())

        def failing(self, fcp, node):
            index = counter["n"]
            counter["n"] += 1
            if index == CONFIG["fail_node"]:
                EVENTS.append("fail-check")
                return error("twinfake rejects " + str(category), node=None)
            return Ok(())

        if CONFIG["uncategorized"]:
            verifier.register(passing)
        if category is None:
            register(verifier, "struct")(passing)
            return
        if CONFIG["position"] in ("last", "middle"):
            register(verifier, category)(passing)
        register(verifier, category)(failing)
        if CONFIG["position"] in ("first", "middle"):
            register(verifier, category)(passing)
'''


def fake_results(ctx):
    out = Path(ctx["output"])
    return [
        {"type": "file", "path": out / "a.txt", "contents": "alpha\n"},
        {"type": "print", "contents": "hello from twinfake"},
        {"type": "file", "path": str(out / "sub" / "b.bin"), "contents": "café ☃\r\nx"},
        {"type": "bogus", "path": out / "never.txt", "contents": "never"},
        {"type": "file", "path": out / "notes.txt", "contents": 42},
        {"path": out / "never2.txt", "contents": "never"},
        {"type": "file", "path": out / "a.txt", "contents": "alpha-second\n"},
        {"type": "file", "path": out / "empty.txt", "contents": ""},
        {"type": "print", "contents": ""},
    ]


def fake_expected(out):
    return (
        {
            "a.txt": "alpha-second\n".encode(),
            "sub/b.bin": "café ☃\r\nx".encode(),
            "notes.txt": b"42",
            "empty.txt": b"",
        },
        "hello from twinfake\n\n",
        ["Cannot handle result of type: bogus", "Cannot handle result of type: None"],
    )


# --------------------------------------------------------------------------
def main():
    work = Path(tempfile.mkdtemp(prefix="twin-c10-"))
    try:
        run(work)
    finally:
        shutil.rmtree(work, ignore_errors=True)
        sys.path[:] = [p for p in sys.path if p != str(work / "fakeplug")]
    print(f"PASS ({CHECKS} checks)")


def run(work):
    schemas = {}
    for name, text in GOOD.items():
        schemas[name] = write_schema(work, "good_" + name, text)
    for name, (text, _, _) in BAD.items():
        schemas[name] = write_schema(work, "bad_" + name, text)

    for gen in REAL_GENERATORS:
        instrument(gen)

    # ---- A. real generators x rejected schemas x output dir states ------
    for gen in REAL_GENERATORS:
        for name, (_, only, needle) in BAD.items():
            rejected = only is None or gen in only
            if not rejected:
                continue
            for state in ("missing", "empty", "stale"):
                # API
                out = make_outdir(work, state)
                before = snapshot(out)
                RETURNED.pop(gen, None)
                res, stdout, records = api_generate(gen, schemas[name], out)
                ok(isinstance(res, Err), f"A/api {gen}/{name}/{state}: expected Err, got {res!r}")
                ok(res.is_err() and not res.is_ok(), f"A/api {gen}/{name}: is_err")
                ok(needle in repr(res.err()), f"A/api {gen}/{name}: '{needle}' not in {res.err()!r}")
                ok(snapshot(out) == before, f"A/api {gen}/{name}/{state}: output dir changed")
                ok(gen not in RETURNED, f"A/api {gen}/{name}: plug-in generate() was called")
                ok(stdout == "", f"A/api {gen}/{name}: something was printed: {stdout!r}")
                ok(
                    not any(r.getMessage().startswith("Generating") for r in records),
                    f"A/api {gen}/{name}: a file was reported as generated",
                )
                # CLI
                out = make_outdir(work, state)
                before = snapshot(out)
                RETURNED.pop(gen, None)
                r = cli_generate(gen, schemas[name], out)
                ok(r.exception is None, f"A/cli {gen}/{name}/{state}: raised {r.exception!r}")
                ok(r.exit_code == 0, f"A/cli {gen}/{name}: exit code {r.exit_code}")
                ok("Failed to generate fcp" in r.output, f"A/cli {gen}/{name}: no failure report: {r.output!r}")
                ok(needle in r.output, f"A/cli {gen}/{name}: '{needle}' not reported: {r.output!r}")
                ok(snapshot(out) == before, f"A/cli {gen}/{name}/{state}: output dir changed")
                ok(gen not in RETURNED, f"A/cli {gen}/{name}: plug-in generate() was called")

    # rejected + unusable template/skel directories: still a clean Err
    out = make_outdir(work, "stale")
    before = snapshot(out)
    res, _, _ = api_generate(
        "dbc", schemas["dup_types"], out,
        templates=str(work / "no_such_templates"), skel=str(work / "no_such_skel"),
    )
    ok(isinstance(res, Err), "A/templates: rejected schema with missing template dir must be Err")
    ok(snapshot(out) == before, "A/templates: output dir changed")

    # repeated calls on the same manager (plug-in checks registered twice)
    manager = GeneratorManager(make_general_verifier())
    out = make_outdir(work, "stale")
    before = snapshot(out)
    for _ in range(3):
        res, _, _ = api_generate("dbc", schemas["plugin_dup_can_ids"], out, manager=manager)
        ok(isinstance(res, Err) and "Duplicate ids" in repr(res.err()), "A/repeat: Err expected")
        ok(snapshot(out) == before, "A/repeat: output dir changed")

    # ---- B. real generators x accepted schemas --------------------------
    accepted = [(g, n) for g in REAL_GENERATORS for n in GOOD]
    accepted += [("nop", "plugin_dup_can_ids"), ("can_c", "plugin_dup_can_ids"),
                 ("nop", "plugin_too_big"), ("nop", "plugin_impl_no_type")]
    for gen, name in accepted:
        for state in ("empty", "stale"):
            for via in ("api", "cli"):
                out = make_outdir(work, state)
                before = snapshot(out)
                RETURNED.pop(gen, None)
                if via == "api":
                    res, stdout, _ = api_generate(gen, schemas[name], out)
                    ok(isinstance(res, Ok) and res.is_ok(), f"B/api {gen}/{name}: expected Ok, got {res!r}")
                    ok(res.unwrap() == (), f"B/api {gen}/{name}: Ok payload {res.unwrap()!r}")
                else:
                    r = cli_generate(gen, schemas[name], out)
                    ok(r.exception is None, f"B/cli {gen}/{name}: raised {r.exception!r}")
                    ok(r.exit_code == 0, f"B/cli {gen}/{name}: exit code {r.exit_code}")
                    ok("Failed to generate" not in r.output, f"B/cli {gen}/{name}: spurious error")
                    stdout = r.output
                check_accepted_output(gen, out, before, stdout)
    # dbc on a missing output directory: parent.mkdir creates one level
    out = make_outdir(work, "missing")
    RETURNED.pop("dbc", None)
    res, stdout, _ = api_generate("dbc", schemas["basic"], out)
    ok(isinstance(res, Ok), "B/missing: dbc must create the output directory")
    check_accepted_output("dbc", out, None, stdout)

    # ---- C. fake plug-in: which check fails, where ------------------------
    plug = work / "fakeplug"
    (plug / "fcp_twinfake").mkdir(parents=True)
    (plug / "fcp_twinfake" / "__init__.py").write_text(FAKE_SRC)
    sys.path.insert(0, str(plug))
    import importlib

    importlib.invalidate_caches()
    fake = importlib.import_module("fcp_twinfake")
    fake.CONFIG["results"] = fake_results

    node_counts = {}
    rich = parse(schemas["rich"])
    for category in ("struct", "field", "enum", "impl", "signal_block", "type", "device"):
        node_counts[category] = len(rich.get(category).unwrap())
        ok(node_counts[category] >= 1, f"C: rich schema has no {category} node")

    for category, count in node_counts.items():
        for position in ("only", "first", "middle", "last"):
            for fail_node in sorted({0, count - 1}):
                for state in ("missing", "stale"):
                    fake.EVENTS.clear()
                    fake.CONFIG.update(fail_category=category, fail_node=fail_node,
                                       position=position, uncategorized=False)
                    out = make_outdir(work, state)
                    before = snapshot(out)
                    res, stdout, records = api_generate("twinfake", schemas["rich"], out)
                    tag = f"C {category}/{position}/node{fail_node}/{state}"
                    ok(isinstance(res, Err), f"{tag}: expected Err, got {res!r}")
                    ok(f"twinfake rejects {category}" in repr(res.err()), f"{tag}: wrong error {res.err()!r}")
                    ok(snapshot(out) == before, f"{tag}: output dir changed")
                    ok("generate" not in fake.EVENTS, f"{tag}: generate() ran despite rejection")
                    ok(fake.EVENTS[0] == "register_checks", f"{tag}: checks not registered first")
                    ok(fake.EVENTS[-1] == "fail-check", f"{tag}: verification continued after failure")
                    ok(stdout == "", f"{tag}: output printed")
        # CLI once per category
        fake.EVENTS.clear()
        fake.CONFIG.update(fail_category=category, fail_node=0, position="middle")
        out = make_outdir(work, "stale")
        before = snapshot(out)
        r = cli_generate("twinfake", schemas["rich"], out)
        ok(r.exception is None and r.exit_code == 0, f"C/cli {category}: {r.exception!r}")
        ok("Failed to generate fcp" in r.output and f"twinfake rejects {category}" in r.output,
           f"C/cli {category}: error not reported: {r.output!r}")
        ok(snapshot(out) == before, f"C/cli {category}: output dir changed")
        ok("generate" not in fake.EVENTS, f"C/cli {category}: generate() ran")

    # general check fails before the fake plug-in's checks are reached
    fake.EVENTS.clear()
    fake.CONFIG.update(fail_category="device", fail_node=0, position="only")
    out = make_outdir(work, "stale")
    before = snapshot(out)
    res, _, _ = api_generate("twinfake", schemas["dup_fields"], out)
    ok(isinstance(res, Err) and "Duplicate fields" in repr(res.err()), "C/general-first: Err expected")
    ok(snapshot(out) == before and "generate" not in fake.EVENTS, "C/general-first: gate leaked")

    # a check registered without category makes verification yield Nothing: still gated
    fake.EVENTS.clear()
    fake.CONFIG.update(fail_category=None, uncategorized=True)
    out = make_outdir(work, "stale")
    before = snapshot(out)
    res, stdout, _ = api_generate("twinfake", schemas["rich"], out)
    ok(isinstance(res, Nothing) and res == Nothing(), f"C/uncategorized: expected Nothing, got {res!r}")
    ok(snapshot(out) == before, "C/uncategorized: output dir changed")
    ok("generate" not in fake.EVENTS and stdout == "", "C/uncategorized: generate() ran")

    # ---- D. fake plug-in accepted: exactly the returned files/contents ---
    tdir = work / "templates"
    sdir = work / "skels"
    (tdir / "subdir").mkdir(parents=True)
    (sdir / "subdir").mkdir(parents=True)
    (tdir / "one.j2").write_text("T1 é")
    (tdir / "two.h.j2").write_text("T2")
    (tdir / "subdir" / "x.j2").write_text("ignored")
    (sdir / "skel.c").write_text("S1")
    (sdir / "noext").write_text("S2")
    fake.CONFIG.update(fail_category=None, uncategorized=False)
    for state in ("empty", "stale"):
        for via in ("api", "cli"):
            fake.EVENTS.clear()
            fake.CONFIG["seen_ctx"] = None
            out = make_outdir(work, state)
            before_files = files_of(out)
            if via == "api":
                res, stdout, records = api_generate(
                    "twinfake", schemas["rich"], out, templates=str(tdir), skel=str(sdir))
                ok(isinstance(res, Ok) and res.unwrap() == (), f"D/{state}: expected Ok(()), got {res!r}")
                errors = [r.getMessage() for r in records if r.levelno == logging.ERROR]
                infos = [r.getMessage() for r in records
                         if r.levelno == logging.INFO and r.getMessage().startswith("Generating")]
            else:
                with captured() as (_, handler):
                    r = cli_generate("twinfake", schemas["rich"], out,
                                     extra=("--templates", str(tdir), "--skel", str(sdir)))
                ok(r.exception is None and r.exit_code == 0, f"D/cli: {r.exception!r}")
                stdout = r.output
                errors = [x.getMessage() for x in handler.records if x.levelno == logging.ERROR]
                infos = [x.getMessage() for x in handler.records
                         if x.levelno == logging.INFO and x.getMessage().startswith("Generating")]
            exp_files, exp_stdout, exp_errors = fake_expected(out)
            expected = dict(before_files)
            expected.update(exp_files)
            after = files_of(out)
            ok(after == expected, f"D/{via}/{state}: files {sorted(after)} vs expected {sorted(expected)}")
            ok(stdout == exp_stdout, f"D/{via}/{state}: stdout {stdout!r}")
            ok(errors == exp_errors, f"D/{via}/{state}: logged errors {errors!r}")
            ok(infos == [f"Generating {out / p}" for p in
                         ("a.txt", "sub/b.bin", "notes.txt", "a.txt", "empty.txt")],
               f"D/{via}/{state}: generation log {infos!r}")
            ok(fake.EVENTS[0] == "register_checks" and fake.EVENTS[-1] == "generate"
               and fake.EVENTS.count("generate") == 1, f"D/{via}/{state}: event order {fake.EVENTS}")
            ctx = fake.CONFIG["seen_ctx"]
            ok(sorted(ctx) == ["output", "skels", "templates"], f"D: ctx keys {sorted(ctx)}")
            ok(ctx["templates"] == {"one": "T1 é", "two.h": "T2"}, f"D: templates {ctx['templates']!r}")
            ok(ctx["skels"] == {"skel.c": "S1", "noext": "S2"}, f"D: skels {ctx['skels']!r}")
            ok(ctx["output"] == Path(str(out)), f"D: ctx output {ctx['output']!r}")

    # no template / skel directories -> empty dicts
    fake.EVENTS.clear()
    out = make_outdir(work, "empty")
    res, _, _ = api_generate("twinfake", schemas["basic"], out)
    ok(isinstance(res, Ok), "D/no-templates: Ok expected")
    ok(fake.CONFIG["seen_ctx"]["templates"] == {} and fake.CONFIG["seen_ctx"]["skels"] == {},
       "D/no-templates: ctx must carry empty dicts")

    # accepted schema but missing template directory: error surfaces, nothing is written
    fake.EVENTS.clear()
    out = make_outdir(work, "stale")
    before = snapshot(out)
    try:
        api_generate("twinfake", schemas["rich"], out, templates=str(work / "no_such_templates"))
        ok(False, "D/missing-templates: expected FileNotFoundError")
    except FileNotFoundError:
        ok(True, "")
    ok(snapshot(out) == before and "generate" not in fake.EVENTS, "D/missing-templates: wrote something")

    # plug-in whose generate() raises after verification: propagates, nothing written by the core
    def boom(ctx):
        raise RuntimeError("plug-in exploded")

    fake.CONFIG["results"] = boom
    out = make_outdir(work, "stale")
    before = snapshot(out)
    try:
        api_generate("twinfake", schemas["rich"], out)
        ok(False, "D/boom: expected RuntimeError")
    except RuntimeError as e:
        ok(str(e) == "plug-in exploded", "D/boom: wrong exception")
    ok(snapshot(out) == before, "D/boom: output dir changed")
    fake.CONFIG["results"] = fake_results

    # ---- E. unknown generator ------------------------------------------
    out = make_outdir(work, "stale")
    before = snapshot(out)
    try:
        with captured() as (_, handler):
            GeneratorManager(make_general_verifier()).generate(
                "does_not_exist", None, None, parse(schemas["basic"]), str(out))
        ok(False, "E: expected SystemExit")
    except SystemExit as e:
        ok(e.code == 1, f"E: exit code {e.code}")
    msgs = [r.getMessage() for r in handler.records]
    ok("Code generator does_not_exist not available" in msgs, f"E: log {msgs}")
    ok(any(m.startswith("Currently available code generators:") and "'twinfake'" in m and "'dbc'" in m
           for m in msgs), f"E: available list {msgs}")
    ok(snapshot(out) == before, "E: output dir changed")
    r = cli_generate("does_not_exist", schemas["basic"], out)
    ok(r.exit_code == 1, f"E/cli: exit code {r.exit_code}")
    ok(snapshot(out) == before, "E/cli: output dir changed")

    # unparsable schema via CLI: reported, nothing written
    broken = work / "broken.fcp"
    broken.write_text('version: "3"\nstruct {\n')
    r = cli_generate("dbc", broken, out)
    ok(r.exception is None and "Failed to generate fcp" in r.output, f"E/parse: {r.output!r} {r.exception!r}")
    ok(snapshot(out) == before, "E/parse: output dir changed")


if __name__ == "__main__":
    main()
