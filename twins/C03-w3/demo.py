"""Shared differential harness: generated C++ static codec vs. the Python codec.

For every schema the C++ headers are generated, every generated header is
compiled as C++17, and a small driver encodes/decodes JSON cases through the
generated StaticSchema.  The bytes must equal fcp.serde.encode and the decoded
value must equal the input value.
"""

import json
import os
import random
import subprocess
import sys
import tempfile
from pathlib import Path

from fcp.parser import get_fcp_from_string
from fcp.serde import encode as py_encode
from fcp.specs import type as T
from fcp_cpp import Generator

JSON_INCLUDE = os.environ.get("FCP_JSON_INCLUDE", "/root/miniconda/include")
CXX = os.environ.get("CXX", "g++")

DRIVER = r"""
#include <iostream>
#include <iterator>
#include <string>
#include <cmath>
#include <limits>
#include <stdexcept>
#include "@HEADER@"

int main() {
    std::string text{std::istreambuf_iterator<char>(std::cin), std::istreambuf_iterator<char>()};
    auto cases = nlohmann::json::parse(text);
    @NS@::StaticSchema schema{};
    auto out = nlohmann::json::array();
    for (const auto& c : cases) {
        auto name = c["name"].get<std::string>();
        auto bytes = schema.EncodeJson(name, c["value"]);
        if (!bytes.has_value()) {
            out.push_back({{"error", "unknown message " + name}});
            continue;
        }
        auto again = schema.EncodeJson(name, c["value"]);
        auto decoded = schema.DecodeJson(c["struct"].get<std::string>(), bytes.value(), c["bus"].get<std::string>());
        nlohmann::json row;
        row["bytes"] = bytes.value();
        row["repeat_same"] = (again.value() == bytes.value());
        row["decoded"] = decoded.has_value() ? decoded.value() : nlohmann::json(nullptr);
        out.push_back(row);
    }
    // default constructed values through the typed API, encoded twice into fresh
    // buffers and once behind three bits that are already in a buffer
    nlohmann::json defaults;
@DEFAULTS@
    nlohmann::json result;
    result["rows"] = out;
    result["defaults"] = defaults;
    std::cout << result.dump() << std::endl;
    return 0;
}
"""

DEFAULT_CASE = r"""
    {
        @NS@::@STRUCT@ value{};
        auto first = value.Encode().GetData();
        auto second = value.Encode().GetData();
        fcp::Buffer shared{0};
        shared.PushWord<std::uint8_t, 3>(5);
        value.Encode(shared);
        auto decoded = @NS@::@STRUCT@::Decode(first.begin(), first.end());
        defaults["@STRUCT@"] = {{"bytes", first}, {"same", first == second},
                                {"shifted", shared.GetData()}, {"roundtrip", decoded == value}};
    }
"""


def fail(msg):
    print("FAIL:", msg)
    sys.exit(1)


def parse(schema_text):
    return get_fcp_from_string(schema_text).unwrap()


def generate(fcp, outdir):
    files = {}
    for result in Generator().generate(fcp, {"output": str(outdir)}):
        if result["type"] != "file":
            fail("unexpected generator result " + str(result["type"]))
        path = Path(result["path"])
        files[path.name] = str(result["contents"])
        path.write_text(str(result["contents"]))
    return files


def compile_cpp(source, binary, workdir):
    cmd = [CXX, "--std=c++17", "-O0", "-Wall", "-Wextra", "-Wno-unused-parameter",
           "-isystem", JSON_INCLUDE, "-I", str(workdir), str(source), "-o", str(binary)]
    r = subprocess.run(cmd, capture_output=True, text=True)
    if r.returncode != 0:
        fail("C++17 compilation failed for %s:\n%s" % (source, r.stderr[-3000:]))


# ---------------------------------------------------------------- values

def int_samples(bits, signed, rng):
    if signed:
        lo, hi = -(1 << (bits - 1)), (1 << (bits - 1)) - 1
    else:
        lo, hi = 0, (1 << bits) - 1
    alt = int("10" * 32, 2) & ((1 << bits) - 1)
    if signed and alt > hi:
        alt -= 1 << bits
    pool = {lo, hi, 0, alt, min(hi, 1), max(lo, hi - 1), min(hi, lo + 1)}
    if signed:
        pool.add(-1)
    return sorted(pool) + [rng.randint(lo, hi) for _ in range(2)]


F32 = [0.0, 1.0, -1.5, 0.15625, 34359738368.0, -2.0 ** -20, 16777216.0]
F64 = [0.0, 1.0, -1.5, 0.1, 1e300, -2.0 ** -40, 123456789.123]
STRS = ["", "a", "hello world", "~!@ 09AZaz", "x" * 37]


def sample(fcp, t, rng, k):
    """k-th sample value of fcp type t (k selects boundary values first)."""
    if isinstance(t, T.StructType):
        struct = fcp.get_struct(t.name).unwrap()
        return {f.name: sample(fcp, f.type, rng, k + i) for i, f in enumerate(struct.fields)}
    if isinstance(t, T.EnumType):
        enum = fcp.get_enum(t.name).unwrap()
        values = [e.value for e in enum.enumeration]
        # every value that fits the packed width is in range on the wire
        values += [0, (1 << enum.get_packed_size()) - 1]
        return values[k % len(values)]
    if isinstance(t, T.UnsignedType):
        s = int_samples(t.get_length(), False, rng)
        return s[k % len(s)]
    if isinstance(t, T.SignedType):
        s = int_samples(t.get_length(), True, rng)
        return s[k % len(s)]
    if isinstance(t, T.FloatType):
        return F32[k % len(F32)]
    if isinstance(t, T.DoubleType):
        return F64[k % len(F64)]
    if isinstance(t, T.StringType):
        return STRS[k % len(STRS)]
    if isinstance(t, T.ArrayType):
        return [sample(fcp, t.underlying_type, rng, k + i) for i in range(t.size)]
    if isinstance(t, T.DynamicArrayType):
        n = [0, 1, 3, 2, 9][k % 5]
        return [sample(fcp, t.underlying_type, rng, k + 2 * i) for i in range(n)]
    if isinstance(t, T.OptionalType):
        return None if k % 3 == 0 else sample(fcp, t.underlying_type, rng, k)
    fail("no sampler for " + repr(t))


def zero_value(fcp, t):
    """What a default constructed C++ wrapper holds."""
    if isinstance(t, T.StructType):
        struct = fcp.get_struct(t.name).unwrap()
        return {f.name: zero_value(fcp, f.type) for f in struct.fields}
    if isinstance(t, (T.EnumType, T.UnsignedType, T.SignedType)):
        return 0
    if isinstance(t, (T.FloatType, T.DoubleType)):
        return 0.0
    if isinstance(t, T.StringType):
        return ""
    if isinstance(t, T.ArrayType):
        return [zero_value(fcp, t.underlying_type) for _ in range(t.size)]
    if isinstance(t, T.DynamicArrayType):
        return []
    if isinstance(t, T.OptionalType):
        return None
    fail("no zero value for " + repr(t))


def bit_size(fcp, t, v):
    """Number of bits of the canonical encoding of value v of type t."""
    if isinstance(t, T.StructType):
        struct = fcp.get_struct(t.name).unwrap()
        return sum(bit_size(fcp, f.type, v[f.name]) for f in struct.fields)
    if isinstance(t, T.EnumType):
        top = max(e.value for e in fcp.get_enum(t.name).unwrap().enumeration)
        return max(1, top.bit_length())
    if isinstance(t, (T.UnsignedType, T.SignedType)):
        return int(t.name[1:])
    if isinstance(t, T.FloatType):
        return 32
    if isinstance(t, T.DoubleType):
        return 64
    if isinstance(t, T.StringType):
        return 32 + 8 * len(v)
    if isinstance(t, T.ArrayType):
        if len(v) != t.size:
            fail("bad sample for an array")
        return sum(bit_size(fcp, t.underlying_type, x) for x in v)
    if isinstance(t, T.DynamicArrayType):
        return 32 + sum(bit_size(fcp, t.underlying_type, x) for x in v)
    if isinstance(t, T.OptionalType):
        return 8 + (0 if v is None else bit_size(fcp, t.underlying_type, v))
    fail("no size for " + repr(t))


def after_prefix(prefix_value, prefix_bits, data, data_bits):
    """Buffer contents when data_bits bits of `data` follow prefix_bits bits."""
    total = prefix_value | (int.from_bytes(bytes(data), "little") << prefix_bits)
    return list(total.to_bytes((prefix_bits + data_bits + 7) // 8, "little"))


def values_equal(a, b):
    if isinstance(a, float) or isinstance(b, float):
        return isinstance(a, (int, float)) and isinstance(b, (int, float)) and float(a) == float(b)
    if isinstance(a, dict) and isinstance(b, dict):
        return a.keys() == b.keys() and all(values_equal(a[k], b[k]) for k in a)
    if isinstance(a, list) and isinstance(b, list):
        return len(a) == len(b) and all(values_equal(x, y) for x, y in zip(a, b))
    if a == [] and b is None or a is None and b == []:
        return False
    return type(a) is type(b) and a == b


# ---------------------------------------------------------------- driver

def check_schema(label, schema_text, rounds=12, seed=1234, header="fcp.h",
                 namespace="fcp", protocol="default", extra_cases=None):
    """Generate, compile (all headers, C++17) and run the static codec for one schema.

    Returns (number of cases, generated files).
    """
    from fcp_cpp.rpc import generate_rpc

    rng = random.Random(seed)
    fcp = parse(schema_text)
    with tempfile.TemporaryDirectory(prefix="c03demo_") as d:
        work = Path(d)
        files = generate(fcp, work)
        if header not in files:
            fail("%s: %s was not generated (%s)" % (label, header, sorted(files)))

        # Every generated header goes into the translation unit, so all of them
        # must compile as C++17 (fcp.h first: the service headers rely on it).
        # the rpc pass adds structs; sample from the schema the header was rendered from
        rendered = generate_rpc(fcp)
        # the canonical format is little endian
        little_endian_impls = [impl for impl in rendered.get_matching_impls_or_default(protocol)
                               if impl.fields.get("endianess", "little") != "big"]
        struct_names = [impl.type for impl in little_endian_impls]
        defaults = "".join(DEFAULT_CASE.replace("@STRUCT@", n) for n in struct_names)

        includes = ['#include "fcp.h"'] + ['#include "%s"' % n for n in sorted(files)]
        drv = work / "driver.cpp"
        drv.write_text("\n".join(includes) + "\n"
                       + DRIVER.replace("@DEFAULTS@", defaults).replace("@HEADER@", header)
                       .replace("@NS@", namespace))
        compile_cpp(drv, work / "driver", work)
        cases = []
        expected = []
        for impl in little_endian_impls:
            struct = rendered.get_struct(impl.type).unwrap()
            values = [sample(rendered, T.StructType(struct.name), rng, k) for k in range(rounds)]
            values += (extra_cases or {}).get(struct.name, [])
            for value in values:
                cases.append({"name": impl.name, "struct": struct.name,
                              "bus": impl.fields.get("bus", "default"), "value": value})
                expected.append(list(py_encode(rendered, struct.name, value)))

        r = subprocess.run([str(work / "driver")], input=json.dumps(cases),
                           capture_output=True, text=True)
        if r.returncode != 0:
            fail("%s: driver crashed: %s" % (label, r.stderr[-2000:]))
        result = json.loads(r.stdout)
        rows = result["rows"]
        for name in struct_names:
            zero = zero_value(rendered, T.StructType(name))
            want = list(py_encode(rendered, name, zero))
            bits = bit_size(rendered, T.StructType(name), zero)
            got = result["defaults"][name]
            if got["bytes"] != want or len(want) != (bits + 7) // 8:
                fail("%s: default %s encodes to %r, canonical %r" % (label, name, got["bytes"], want))
            if got["shifted"] != after_prefix(5, 3, want, bits):
                fail("%s: default %s after 3 bits: %r, expected %r"
                     % (label, name, got["shifted"], after_prefix(5, 3, want, bits)))
            if not got["same"] or not got["roundtrip"]:
                fail("%s: default %s: repeated encode or round trip differ" % (label, name))
        if len(rows) != len(cases):
            fail("%s: %d results for %d cases" % (label, len(rows), len(cases)))
        for case, want, row in zip(cases, expected, rows):
            if "error" in row:
                fail("%s: %s" % (label, row["error"]))
            bits = bit_size(rendered, T.StructType(case["struct"]), case["value"])
            if len(row["bytes"]) != (bits + 7) // 8:
                fail("%s: %s value %r: %d bytes for %d bits"
                     % (label, case["struct"], case["value"], len(row["bytes"]), bits))
            if row["bytes"] != want:
                fail("%s: %s value %r: C++ bytes %r != canonical %r"
                     % (label, case["struct"], case["value"], row["bytes"], want))
            if not row["repeat_same"]:
                fail("%s: %s: encoding twice gave different bytes" % (label, case["struct"]))
            dec = row["decoded"]
            if dec is None:
                fail("%s: %s: DecodeJson did not recognise the message" % (label, case["struct"]))
            dec.pop("__is_method_input", None)
            if not values_equal(dec, case["value"]):
                fail("%s: %s: decoded %r != value %r" % (label, case["struct"], dec, case["value"]))
        return len(cases), files


def run_all(jobs, workers=4):
    """Run check_schema jobs (dicts of keyword arguments) in parallel."""
    from concurrent.futures import ThreadPoolExecutor

    with ThreadPoolExecutor(max_workers=workers) as pool:
        results = list(pool.map(lambda kw: check_schema(**kw), jobs))
    return results


# ---------------------------------------------------------------- schemas


def widths_schema():
    """Every integer width 1..64, signed and unsigned, at unaligned offsets."""
    lines = ['version: "3"', ""]
    for base in range(0, 64, 8):
        for kind in ("u", "i"):
            lines.append("struct W%s%d {" % (kind.upper(), base))
            fid = 0
            lines.append("    pad @%d: u%d," % (fid, (base % 7) + 1))
            for w in range(base + 1, base + 9):
                fid += 1
                lines.append("    f%d @%d: %s%d," % (w, fid, kind, w))
            lines.append("}")
            lines.append("")
    return "\n".join(lines)


ENUMS = """version: "3"

enum E0 { A = 0, }
enum E1 { A = 0, B = 1, }
enum E2 { A = 0, B = 1, C = 2, }
enum E3 { A = 1, B = 3, }
enum E4 { A = 0, B = 4, }
enum E7 { A = 7, }
enum E8 { A = 8, }
enum E255 { A = 0, B = 255, }
enum E256 { A = 256, B = 2, }
enum E65535 { A = 65535, }
enum E65536 { A = 65536, }
enum EBig { A = 4294967296, }

struct Enums {
    a @0: E0,
    b @1: E1,
    c @2: E2,
    d @3: E3,
    e @4: E4,
    f @5: E7,
    g @6: E8,
    h @7: E255,
    i @8: E256,
    j @9: E65535,
    k @10: E65536,
    l @11: EBig,
    tail @12: u3,
}

struct EnumArrays {
    first @0: u1,
    xs @1: [E2, 5],
    ys @2: [E256],
    z @3: Optional[E4],
}
"""

NESTED = """version: "3"

enum Mode { Off = 0, On = 1, Auto = 2, }

struct Point {
    x @0: i11,
    y @1: i13,
    m @2: Mode,
}

/* field ids deliberately out of declaration order */
struct Segment {
    b @2: Point,
    tag @0: u3,
    a @1: Point,
}

struct Shape {
    name @0: str,
    segments @1: [Segment],
    box @2: [Point, 2],
    grid @3: [[u5, 3], 2],
    hole @4: Optional[Segment],
    weights @5: [f32],
    scale @6: f64,
    ratio @7: f32,
    flags @8: [Optional[u7], 3],
    names @9: [str],
    deep @10: Optional[[[i9], 2]],
    last @11: u1,
}

struct Outer {
    lead @0: u5,
    shape @1: Shape,
    again @2: Shape,
    tail @3: i3,
}
"""

PROTOCOLS = """version: "3"

enum Gear { N = 0, D = 1, R = 2, P = 3, L = 9, }

struct Speed {
    kmh @0: u12,
    gear @1: Gear,
    delta @2: i6,
}

impl can for Speed {
    id: 10,
    device: "ecu1",
    bus: "bus1",
}

struct Temp {
    celsius @0: i16,
    sensor @1: u8,
}

impl can for Temp {
    id: 11,
    endianess: "big",
}

struct Log {
    text @0: str,
    level @1: u2,
    speed @2: Speed,
}

impl uart for Log {
    port: 3,
    bus: "dbg",
}

struct Req {
    what @0: u7,
    gear @1: Gear,
}

struct Resp {
    ok @0: u1,
    values @1: [i20],
}

struct PingReq {
    seq @0: u9,
}

struct PingResp {
    seq @0: u9,
    at @1: f64,
}

service Car @3 {
    method Query(Req) @0 returns Resp,
    method Shift(Speed) @5 returns Resp,
}

service Aux @7 {
    method Ping(PingReq) @1 returns PingResp,
}
"""


# ---------------------------------------------------------------- main

SIZES = """version: "3"

enum Small { A = 0, B = 1, }
enum Wide { A = 0, B = 300, }

struct Bit { b @0: u1, }
struct Seven { a @0: u3, b @1: i4, }
struct Eight { a @0: u3, b @1: i5, }
struct Nine { a @0: Small, b @1: u8, }
struct SixtyFive { a @0: u64, b @1: Small, }
struct OnlyStr { s @0: str, }
struct OnlyOpt { o @0: Optional[u64], }
struct OnlyDyn { d @0: [u64], }
struct StrThenBit { s @0: str, b @1: u1, }
struct BitThenStr { b @0: u1, s @1: str, }
struct OptOfArr { o @0: Optional[[u64, 4]], tail @1: u2, }
struct ArrOfOpt { o @0: [Optional[u64], 4], tail @1: u2, }
struct ArrOfDyn { o @0: [[Wide], 3], tail @1: u2, }
struct DynOfArr { o @0: [[Wide, 3]], tail @1: u2, }
struct ArrOfStruct { o @0: [Seven, 3], w @1: Wide, }
struct DynOfStruct { o @0: [BitThenStr], }
struct OptOfStruct { o @0: Optional[ArrOfStruct], f @1: f32, }
struct Mixed {
    a @0: Seven,
    b @1: OptOfStruct,
    c @2: [ArrOfOpt],
    d @3: f64,
    e @4: [OnlyStr, 2],
    f @5: Bit,
}
"""


def main():
    # values with every part of variable size empty, and with some of them filled
    extra = {
        "Shape": [
            {"name": "", "segments": [], "box": [{"x": 0, "y": 0, "m": 0}] * 2,
             "grid": [[0, 0, 0], [0, 0, 0]], "hole": None, "weights": [], "scale": 0.0,
             "ratio": 0.0, "flags": [None, None, None], "names": [], "deep": None, "last": 0},
            {"name": "", "segments": [], "box": [{"x": -1, "y": -1, "m": 3}] * 2,
             "grid": [[31, 31, 31], [31, 31, 31]], "hole": None, "weights": [], "scale": -1.5,
             "ratio": 1.0, "flags": [None, 127, None], "names": ["", ""], "deep": [[], []],
             "last": 1},
        ],
        "Mixed": [
            {"a": {"a": 7, "b": -8}, "b": {"o": None, "f": 1.0}, "c": [], "d": 1.0,
             "e": [{"s": ""}, {"s": ""}], "f": {"b": 1}},
            {"a": {"a": 7, "b": -8}, "b": {"o": None, "f": 1.0},
             "c": [{"o": [None, None, None, None], "tail": 3}], "d": 1.0,
             "e": [{"s": ""}, {"s": "x"}], "f": {"b": 1}},
        ],
        "OnlyStr": [{"s": ""}], "OnlyOpt": [{"o": None}], "OnlyDyn": [{"d": []}],
        "StrThenBit": [{"s": "", "b": 1}], "BitThenStr": [{"b": 1, "s": ""}],
        "ArrOfDyn": [{"o": [[], [], []], "tail": 3}], "DynOfArr": [{"o": [], "tail": 3}],
        "DynOfStruct": [{"o": []}, {"o": [{"b": 1, "s": ""}]}],
        "OptOfArr": [{"o": None, "tail": 3}], "OptOfStruct": [{"o": None, "f": -1.5}],
    }
    jobs = [
        dict(label="sizes", schema_text=SIZES, rounds=15, extra_cases=extra),
        dict(label="nested", schema_text=NESTED, rounds=15, extra_cases=extra),
        dict(label="widths", schema_text=widths_schema(), rounds=8),
        dict(label="enums", schema_text=ENUMS),
        dict(label="protocols", schema_text=PROTOCOLS),
        dict(label="protocols/can", schema_text=PROTOCOLS, header="fcp_can.h",
             namespace="fcp::can", protocol="can"),
    ]
    results = run_all(jobs, workers=6)
    total = sum(n for n, _ in results)
    print("%d encode/decode cases have the canonical bytes and size" % total)
    print("PASS")


if __name__ == "__main__":
    main()
