#!/venv/bin/python
"""C05 demo 1: arrays that are followed by further fields.

The expected layout is written down by hand (independently of fcp.encoding):
leaves are packed tightly, depth first, in field-id order; an array contributes
its elements in index order at the position of the array field.
"""
import random
import sys
import tempfile
from pathlib import Path

import cantools

from fcp.parser import get_fcp
from fcp_dbc import Generator

SCHEMA = """
version: "3"

struct Cell {
    volts @0: [u8, 2] | unit("V"),
    temp @1: i8 | unit("C"),
}

struct Pack {
    samples @0: [u4, 3],
    cell @1: Cell,
    flags @2: u4,
    total @3: u16,
}

impl can for Pack {
    id: 100,
}
"""

# DBC signal name, bits, signed, unit -- in wire order
LEAVES = [
    ("samples_0", 4, False, None),
    ("samples_1", 4, False, None),
    ("samples_2", 4, False, None),
    ("cell_volts_0", 8, False, "V"),
    ("cell_volts_1", 8, False, "V"),
    ("cell_temp", 8, True, "C"),
    ("flags", 4, False, None),
    ("total", 16, False, None),
]
TOTAL_BITS = sum(leaf[1] for leaf in LEAVES)


def boundary_and_random_values():
    rng = random.Random(5)
    rows = []
    for pick in ("min", "max", "rnd", "rnd", "rnd"):
        row = {}
        for name, bits, signed, _ in LEAVES:
            lo = -(1 << (bits - 1)) if signed else 0
            hi = (1 << (bits - 1)) - 1 if signed else (1 << bits) - 1
            row[name] = {"min": lo, "max": hi}.get(pick, rng.randint(lo, hi))
        rows.append(row)
    # one row with a distinct value per leaf so that swapped leaves are visible
    rows.append({leaf[0]: i + 1 for i, leaf in enumerate(LEAVES)})
    return rows


def pack(values):
    word = 0
    bitstart = 0
    for name, bits, _, _ in LEAVES:
        word |= (values[name] & ((1 << bits) - 1)) << bitstart
        bitstart += bits
    return word.to_bytes((TOTAL_BITS + 7) // 8, "little")


def main():
    problems = []
    with tempfile.TemporaryDirectory() as tmp:
        path = Path(tmp) / "schema.fcp"
        path.write_text(SCHEMA)
        fcp = get_fcp(path).unwrap()
        results = Generator().generate(fcp, {"output": tmp})

    if len(results) != 1:
        problems.append(f"expected one bus file, got {len(results)}")

    db = cantools.database.load_string(results[0]["contents"], "dbc")
    if [m.frame_id for m in db.messages] != [100]:
        problems.append(f"messages {[m.frame_id for m in db.messages]}")
    msg = db.get_message_by_frame_id(100)
    if (msg.name, msg.length) != ("Pack", (TOTAL_BITS + 7) // 8):
        problems.append(f"message {msg.name} length {msg.length}")

    names = sorted(sig.name for sig in msg.signals)
    if names != sorted(leaf[0] for leaf in LEAVES):
        problems.append(f"signal names {names}")

    bitstart = 0
    for name, bits, signed, unit in LEAVES:
        try:
            sig = msg.get_signal_by_name(name)
        except KeyError:
            bitstart += bits
            continue
        got = (sig.start, sig.length, sig.byte_order, sig.is_signed, sig.unit)
        want = (bitstart, bits, "little_endian", signed, unit)
        if got != want:
            problems.append(f"signal {name}: dbc {got} != layout {want}")
        bitstart += bits

    for values in boundary_and_random_values():
        try:
            decoded = msg.decode(pack(values), decode_choices=False, scaling=False)
        except Exception as exc:  # noqa: BLE001
            problems.append(f"decode failed: {exc!r}")
            continue
        if dict(decoded) != values:
            problems.append(f"round trip: packed {values} decoded {dict(decoded)}")

    if problems:
        print("FAIL")
        for problem in problems[:12]:
            print("  " + problem)
        return 1
    print("PASS")
    return 0


if __name__ == "__main__":
    sys.exit(main())
