#!/usr/bin/env python
"""Differential test for property C17: generated artifacts are a deterministic
function of the schema.

The parent process runs this very file as a worker in several fresh processes,
under different PYTHONHASHSEED values and with different things parsed and
generated beforehand in the same process, and checks that every worker reports
the same set of files with identical contents (the generation-stamp comment line
of the C++ generator is dropped before comparing).

The code under test is found through PYTHONPATH; FCP_ROOT (default
/tmp/twin3-C17) is only used to locate schema files shipped in the repository.
"""

import hashlib
import json
import os
import subprocess
import sys
import tempfile
from pathlib import Path

FCP_ROOT = Path(os.environ.get("FCP_ROOT", "/tmp/twin3-C17"))

# --------------------------------------------------------------------------- #
# corpus
# --------------------------------------------------------------------------- #

CORPUS = {
    "basic": """version: "3"
struct Foo {
    s1 @0: u8 | unit("m/s"),
    s2 @1: u16 | unit("kg"),
}
impl can for Foo {
    id: 10,
    device: "ecu1",
}
""",
    # fields declared out of field_id order, unaligned widths, signed types
    "unordered_unaligned": """version: "3"
struct Odd {
    c @2: i13,
    a @0: u3,
    d @3: u1,
    b @1: i5,
    e @4: f32,
}
impl can for Odd {
    id: 17,
    device: "odd_ecu",
    period: 20,
    signal c {
        endianess: "big",
    },
}
""",
    # enums, arrays of enums, arrays of scalars, arrays of structs, nesting
    "arrays_enums": """version: "3"
enum Mode {
    Off = 0,
    On = 1,
    Fault = 5,
}
enum Tiny {
    Only = 0,
}
struct Inner {
    x @0: u4,
    m @1: Mode,
}
struct Outer {
    modes @1: [Mode, 3],
    first @0: Tiny,
    inner @2: Inner,
    pairs @3: [Inner, 2],
    raw @4: [u5, 2],
}
impl can for Outer {
    id: 300,
    device: "gateway",
    bus: "bus2",
}
impl can for Inner {
    id: 301,
    bus: "bus1",
}
""",
    # the same struct on several buses / protocols, named impls, mux signals
    "multi_protocol": """version: "3"
struct Foo {
    s1 @0: u8,
    s2 @1: u8,
}
struct Bar {
    b1 @0: u16,
    b2 @1: [u8, 2],
}
struct Lonely {
    l @0: u32,
}
impl can for Foo {
    id: 10,
    bus: "bus1",
    signal s2 {
        mux_count: 4,
        mux_signal: "s1",
    },
}
impl can for Foo as FooTwo {
    id: 11,
    bus: "bus2",
    device: "dash",
}
impl uart for Foo {
    endianess: "big",
}
impl uart for Bar as BarUart {
    baud: 9600,
}
impl zigbee for Bar {
    channel: 4,
}
impl can for Bar {
    id: 12,
    device: "dash",
    endianess: "big",
}
""",
    # services (rpc structs and enums are derived), dynamic types, keywords
    "services": """version: "3"
enum E {
    S0 = 0,
    S1 = 1,
    S2 = 2,
}
struct Req {
    a @0: u8,
    e @1: E,
}
struct Rsp {
    ok @0: u1,
    text @1: str,
    list @2: [u8],
    maybe @3: Optional[E],
}
struct Plain {
    v @0: f64,
}
impl can for Plain {
    id: 77,
}
impl register for Plain {
    addr: 3,
}
service Ctl @1 {
    method Get(Req) @0 returns Rsp,
    method Set(Req) @1 returns Rsp,
}
service Aux @7 {
    method Ping(Plain) @3 returns Plain,
}
device ecu1 {
    services: [Ctl, Aux],
}
""",
    # no impl besides the implicit default ones, 64 bit fields
    "defaults_only": """version: "3"
struct Wide {
    a @0: u64,
    b @1: i64,
}
struct Deep3 {
    w @0: u7,
}
struct Deep2 {
    d3 @1: Deep3,
    pad @0: u2,
}
struct Deep1 {
    d2 @0: Deep2,
    tail @1: [Deep3, 2],
}
""",
    # error inputs: too long for a CAN frame / missing id / unknown type
    "err_too_big": """version: "3"
struct Big {
    a @0: u64,
    b @1: u8,
}
impl can for Big {
    id: 1,
    device: "x",
}
""",
    "err_no_id": """version: "3"
struct NoId {
    a @0: u8,
}
impl can for NoId {
    device: "x",
}
""",
    "err_dynamic_in_can": """version: "3"
struct Dyn {
    a @0: u8,
    b @1: [u8],
}
impl can for Dyn {
    id: 5,
}
""",
}

PARSE_ERRORS = {
    "err_unknown_type": 'version: "3"\nstruct A {\n    a @0: Missing,\n}\n',
    "err_syntax": 'version: "3"\nstruct {\n',
    "err_version": 'version: "2"\nstruct A {\n    a @0: u8,\n}\n',
}

REPO_SCHEMAS = [
    "plugins/fcp_cpp/tests/schemas/test.fcp",
    "plugins/fcp_dbc/tests/schemas/generator/007_muxed_signals.fcp",
    "plugins/fcp_dbc/tests/schemas/generator/009_compounded_type_array.fcp",
    "plugins/fcp_dbc/tests/schemas/generator/010_multiple_bus.fcp",
    "plugins/fcp_can_c/tests/002_nested_enum/test.fcp",
    "plugins/fcp_can_c/tests/005_big_endian/test.fcp",
    "plugins/fcp_can_c/example/example.fcp",
    "example/example.fcp",
]

GENERATORS = ["fcp_cpp", "fcp_dbc", "fcp_can_c"]

STAMP_PREFIX = "// Generated using fcp "


def normalise(contents):
    return "\n".join(
        line for line in str(contents).split("\n") if not line.startswith(STAMP_PREFIX)
    )


def digest(text):
    return hashlib.sha256(text.encode("utf-8")).hexdigest()


# --------------------------------------------------------------------------- #
# worker
# --------------------------------------------------------------------------- #


def parse(source):
    from fcp.parser import get_fcp_from_string

    return get_fcp_from_string(source)


def run_generator(generator_name, fcp):
    """Return {file name: digest} or an error marker for one generator run."""
    import importlib

    generator = importlib.import_module(generator_name).Generator()
    with tempfile.TemporaryDirectory() as out:
        try:
            results = generator.generate(fcp, {"output": Path(out) / "gen"})
        except BaseException as e:  # noqa: B902 - error outcomes are part of the result
            return {"!error": type(e).__name__ + ": " + normalise(str(e))[:200]}

        files = {}
        for result in results:
            name = Path(str(result["path"])).name
            d = digest(normalise(result["contents"]))
            if name in files and files[name] != d:
                return {"!error": "two different contents for " + name}
            files[name] = d
        return files


def generate_all(source):
    parsed = parse(source)
    if parsed.is_err():
        return {"!parse_error": digest(str(parsed.err()))}
    fcp = parsed.unwrap()
    return {name: run_generator(name, fcp) for name in GENERATORS}


def all_schemas():
    schemas = dict(CORPUS)
    schemas.update(PARSE_ERRORS)
    for rel in REPO_SCHEMAS:
        path = FCP_ROOT / rel
        if path.exists() and "mod " not in path.read_text():
            schemas["repo:" + rel] = path.read_text()
    return schemas


def worker(mode):
    schemas = all_schemas()
    names = sorted(schemas)
    report = {}

    if mode == "reversed":
        names = names[::-1]
    elif mode == "warm":
        # parse and generate unrelated things first, including failures
        for name in ["err_syntax", "services", "err_too_big", "arrays_enums"]:
            generate_all(schemas[name])
            generate_all(schemas[name])
        from fcp.reflection import get_reflection_schema

        get_reflection_schema().unwrap()
    elif mode == "interleaved":
        names = names[::2] + names[1::2]

    for name in names:
        report[name] = generate_all(schemas[name])
        if mode in ("twice", "warm"):
            again = generate_all(schemas[name])
            if again != report[name]:
                report[name] = {"!unstable": [report[name], again]}

    report["!extra"] = extra_checks()
    print(json.dumps(report, sort_keys=True))


# --------------------------------------------------------------------------- #
# parent
# --------------------------------------------------------------------------- #

RUNS = [
    ("0", "plain"),
    ("1", "plain"),
    ("2", "reversed"),
    ("42", "warm"),
    ("12345", "twice"),
    ("4294967295", "interleaved"),
    ("random", "plain"),
    ("random", "warm"),
]


def main():
    reports = []
    for seed, mode in RUNS:
        env = dict(os.environ)
        env["PYTHONHASHSEED"] = seed
        proc = subprocess.run(
            [sys.executable, os.path.abspath(__file__), "--worker", mode],
            env=env,
            capture_output=True,
            text=True,
        )
        if proc.returncode != 0:
            print(proc.stdout[-2000:])
            print(proc.stderr[-4000:])
            print(f"FAIL: worker seed={seed} mode={mode} exited {proc.returncode}")
            return 1
        reports.append(((seed, mode), json.loads(proc.stdout.strip().split("\n")[-1])))

    (ref_run, reference) = reports[0]
    failures = 0
    for run, report in reports[1:]:
        for name in sorted(set(reference) | set(report)):
            if reference.get(name) != report.get(name):
                failures += 1
                print(f"MISMATCH {name}: run {ref_run} vs run {run}")
                print("   ", json.dumps(reference.get(name), sort_keys=True)[:600])
                print("   ", json.dumps(report.get(name), sort_keys=True)[:600])

    # sanity: the corpus really produced files, and the error inputs errors
    generated = sum(
        len(files)
        for name, per_gen in reference.items()
        if not name.startswith("!") and "!parse_error" not in per_gen
        for files in per_gen.values()
        if "!error" not in files
    )
    if generated < 150:
        failures += 1
        print(f"suspiciously few generated files: {generated}")
    for name in PARSE_ERRORS:
        if "!parse_error" not in reference[name]:
            failures += 1
            print(f"{name} should not parse")
    for name in ("err_too_big", "err_no_id", "err_dynamic_in_can"):
        if "!error" not in reference[name]["fcp_dbc"]:
            failures += 1
            print(f"{name} should be refused by the dbc generator")
    if reference["!extra"].get("failures"):
        failures += 1
        print("extra checks failed:", reference["!extra"]["failures"][:10])

    print(
        f"runs={len(reports)} schemas={len(reference) - 1} files={generated} "
        f"extra_checks={reference['!extra'].get('checked')} "
        f"digest={digest(json.dumps(reference, sort_keys=True))[:16]}"
    )
    if failures:
        print("FAIL")
        return 1
    print("PASS")
    return 0


# --------------------------------------------------------------------------- #
# extra checks: the list of files of the C++ generator
# --------------------------------------------------------------------------- #

LIBRARY_FILES = [
    "fcp.h",
    "buffer.h",
    "decoders.h",
    "dynamic.h",
    "reflection.h",
    "can.h",
    "i_can_schema.h",
    "can_static_schema.h",
    "can_dynamic_schema.h",
    "i_schema.h",
    "rpc.h",
]


def _snake(name):
    from fcp.utils import to_snake_case

    return to_snake_case(name)


def extra_checks():
    import fcp_cpp.generator as cpp
    from fcp_cpp import Generator

    failures = []
    checked = 0
    plugin_dir = Path(cpp.__file__).parent

    for name, source in sorted(all_schemas().items()):
        parsed = parse(source)
        if parsed.is_err():
            continue
        fcp = parsed.unwrap()
        before = repr(fcp)

        generator = Generator()
        first = generator.generate(fcp, {"output": "/some/where"})
        second = generator.generate(fcp, {"output": Path("/some/where")})
        third = Generator().generate(fcp, {"output": "else"})
        checked += 1

        if repr(fcp) != before:
            failures.append(f"{name}: generating changed the schema")

        # the order of the files: library files, then one header per protocol
        # (in whatever order get_protocols() lists them), then server and
        # client of every service in declaration order
        names = [Path(r["path"]).name for r in first]
        protocols = fcp.get_protocols()
        expected_head = LIBRARY_FILES
        expected_tail = [
            _snake(s.name) + suffix
            for s in fcp.services
            for suffix in ("_server.h", "_client.h")
        ]
        middle = names[len(expected_head): len(names) - len(expected_tail)]
        if names[: len(expected_head)] != expected_head:
            failures.append(f"{name}: library files {names[:len(expected_head)]}")
        if expected_tail and names[-len(expected_tail):] != expected_tail:
            failures.append(f"{name}: service files {names[-len(expected_tail):]}")
        if middle != ["fcp_" + p + ".h" for p in protocols]:
            failures.append(f"{name}: protocol files {middle} for {protocols}")
        if len(set(names)) != len(names):
            failures.append(f"{name}: duplicated file names {names}")

        for r in first + second + third:
            if sorted(r) != ["contents", "path", "type"] or r["type"] != "file":
                failures.append(f"{name}: unexpected result {sorted(r)}")
            if not isinstance(r["path"], Path) or not isinstance(r["contents"], str):
                failures.append(f"{name}: unexpected result types")

        # the same files, in the same order, with the same contents apart from
        # the stamp line, whatever was generated before and wherever it goes
        for other, where in ((second, "/some/where"), (third, "else")):
            if [str(r["path"]) for r in other] != [
                str(Path(where) / n) for n in names
            ]:
                failures.append(f"{name}: paths differ between runs")
            for a, b in zip(first, other):
                if normalise(a["contents"]) != normalise(b["contents"]):
                    failures.append(f"{name}: {a['path']} differs between runs")

        by_name = {Path(r["path"]).name: r["contents"] for r in first}

        # every generated header that has a stamp has exactly one, and the same
        stamps = set()
        for file_name, contents in by_name.items():
            lines = [l for l in contents.split("\n") if l.startswith(STAMP_PREFIX)]
            if len(lines) > 1:
                failures.append(f"{name}: {file_name} has {len(lines)} stamp lines")
            stamps.update(lines)
        if len(stamps) != 1:
            failures.append(f"{name}: {len(stamps)} different stamps in one run")

        # static headers are shipped verbatim
        for static in ("buffer.h", "decoders.h", "i_schema.h", "i_can_schema.h",
                       "can_dynamic_schema.h"):
            shipped = (plugin_dir / static).read_text()
            if "{{" not in shipped and "{%" not in shipped:
                checked += 1
                if by_name[static].rstrip("\n") != shipped.rstrip("\n"):
                    failures.append(f"{name}: {static} is not the shipped file")

        # each protocol header is in its own namespace and lists the impls of
        # that protocol (or the default ones) in struct order
        for protocol in protocols:
            checked += 1
            header = by_name["fcp_" + protocol + ".h"]
            namespace = cpp.to_cpp_namespace(protocol)
            if f"namespace {namespace} {{" not in header:
                failures.append(f"{name}: namespace of fcp_{protocol}.h")
            rpc_fcp = cpp.generate_rpc(fcp)
            structs = [
                cpp.get_struct_from_type(rpc_fcp, i.type).name
                for i in cpp.get_matching_impls(rpc_fcp, protocol)
            ]
            found = [
                line[len("struct "):-2]
                for line in header.split("\n")
                if line.startswith("struct ") and line.endswith(" {")
            ]
            if found != structs:
                failures.append(f"{name}: structs of fcp_{protocol}.h {found} != {structs}")

        for service in fcp.services:
            for side in ("server", "client"):
                checked += 1
                text = by_name[_snake(service.name) + "_" + side + ".h"]
                if service.name not in text:
                    failures.append(f"{name}: {service.name} {side} header")
        server_names = [n for n in names if n.endswith("_server.h")]
        client_names = [n for n in names if n.endswith("_client.h")]
        if len(server_names) != len(fcp.services) or len(client_names) != len(fcp.services):
            failures.append(f"{name}: service headers {server_names} {client_names}")

    # the output builder keeps what it is given, in order, with the metadata
    builder = cpp.OutputBuilder({"version": "v", "date": "d"})
    builder.with_file("a.h", "buffer.h")
    builder.with_file("b.h", "fcp.h.j2", {"x": 1, "version": "shadowed"})
    builder.with_file("c.h", "buffer.h", {"y": 2})
    rows = [tuple(entry) for entry in builder.output]
    checked += 1
    if rows != [
        ("a.h", "buffer.h", {"version": "v", "date": "d"}),
        ("b.h", "fcp.h.j2", {"x": 1, "version": "v", "date": "d"}),
        ("c.h", "buffer.h", {"y": 2, "version": "v", "date": "d"}),
    ]:
        failures.append(f"output builder rows {rows}")
    for filename, template_name, arguments in builder.output:
        if not (isinstance(filename, str) and isinstance(template_name, str)):
            failures.append("output builder entries do not unpack")
    env = cpp.create_template_environment(builder.output)
    if sorted(env.list_templates()) != ["buffer.h", "fcp.h.j2"]:
        failures.append(f"templates {env.list_templates()}")
    if "class Buffer" not in env.get_template("buffer.h").render({}):
        failures.append("buffer.h not rendered")

    return {"checked": checked, "failures": failures}


if __name__ == "__main__":
    if len(sys.argv) >= 3 and sys.argv[1] == "--worker":
        worker(sys.argv[2])
        sys.exit(0)
    sys.exit(main())
