#!/usr/bin/env python
"""Differential test for property C04 (packed CAN layout tiles the message).

The layout produced by fcp.encoding.PackedEncoder is compared against an
independent reference model written here from the property statement:

  * every scalar leaf (after flattening nested structs and, when requested,
    unrolling arrays) gets a bit range of its wire width,
  * ranges start at 0, follow ascending field id and tile without gap/overlap,
  * hierarchical names are unique,
  * per-signal options appear on the leaves of the field of that name only,
  * the layout does not depend on what the same encoder laid out before,
  * error inputs raise the same exception (type and text) after the same
    prefix of the layout has been produced.

Run with PYTHONPATH pointing at the worktree under test (see meta.json).
Exits 0 and prints PASS when everything agrees.
"""

import os
import random
import re
import sys
from copy import deepcopy

from fcp.encoding import (
    PackedEncoder,
    PackedEncoderContext,
    Value,
    make_encoder,
)
from fcp.maybe import Nothing, Some, UnwrapError
from fcp.parser import get_fcp_from_string
from fcp.specs.enum import Enum, Enumeration
from fcp.specs.impl import Impl
from fcp.specs.metadata import MetaData
from fcp.specs.signal_block import SignalBlock
from fcp.specs.struct import Struct
from fcp.specs.struct_field import StructField
from fcp.specs.type import (
    ArrayType,
    DoubleType,
    DynamicArrayType,
    EnumType,
    FloatType,
    OptionalType,
    SignedType,
    StringType,
    StructType,
    UnsignedType,
)
from fcp.specs.v2 import FcpV2

FCP_ROOT = os.environ.get("FCP_ROOT", "/tmp/twin2-C04")

CHECKS = 0


def check(cond, msg):
    global CHECKS
    CHECKS += 1
    if not cond:
        print("FAIL:", msg)
        sys.exit(1)


def meta():
    return MetaData(1, 1, 1, 1, 1, 1, "demo.fcp")


# --------------------------------------------------------------------------
# reference model
# --------------------------------------------------------------------------


class Expected(Exception):
    """The reference model predicts that the encoder raises."""

    def __init__(self, exc_type, text):
        super().__init__(text)
        self.exc_type = exc_type
        self.text = text


class Reference:
    def __init__(self, fcp, impl, unroll):
        self.fcp = fcp
        self.impl = impl
        self.unroll = unroll
        self.leaves = []
        self.pos = 0

    # first declaration of a name wins, structs are searched before enums
    def compound(self, name):
        for node in list(self.fcp.structs) + list(self.fcp.enums):
            if node.name == name:
                return node
        raise Expected(UnwrapError, "Called `Maybe.unwrap()` on a `Nothing` value")

    def enum(self, name):
        for node in self.fcp.enums:
            if node.name == name:
                return node
        raise Expected(UnwrapError, "Called `Maybe.unwrap()` on a `Nothing` value")

    def options(self, name):
        for block in self.impl.signals:
            if block.name == name:
                return block.fields
        return {}

    def width(self, t):
        if isinstance(t, (UnsignedType, SignedType)):
            return int(t.name[1:])
        if isinstance(t, FloatType):
            return 32
        if isinstance(t, DoubleType):
            return 64
        if isinstance(t, ArrayType):
            return t.size * self.width(t.underlying_type)
        if isinstance(t, EnumType):
            m = max(e.value for e in self.enum(t.name).enumeration)
            return 1 if m <= 1 else m.bit_length()
        raise Expected(ValueError, "Error computing type length for type " + str(t))

    def emit(self, name, t, width, endianess, options, unit, composite):
        self.leaves.append(
            (name, t, self.pos, width, endianess, options, unit, composite)
        )
        self.pos += width

    def struct(self, struct, prefix):
        for f in sorted(struct.fields, key=lambda f: f.field_id):
            self.field(f.name, f.type, f.unit, prefix)

    def field(self, name, t, unit, prefix):
        if isinstance(t, StructType):
            node = self.compound(t.name)
            if isinstance(node, Struct):
                self.struct(node, prefix + name + "::")
            else:
                # a struct-typed reference that resolves to an enum
                m = max(e.value for e in node.enumeration)
                width = m.bit_length()  # == ceil(log2(m + 1)) for m >= 0
                if width > 64:
                    raise Expected(
                        ValueError, f"Way too large an enum, computed size: {width}"
                    )
                self.emit(prefix + name, t, width, "little", {}, None, Some(node.name))
        elif isinstance(t, ArrayType) and self.unroll:
            for i in range(t.size):
                self.field(f"{name}_{i}", t.underlying_type, unit, prefix)
        else:
            options = self.options(name)
            width = self.width(t)
            self.emit(
                prefix + name,
                t,
                width,
                options.get("endianess") or "little",
                options,
                unit,
                Nothing(),
            )

    def run(self):
        """Return (leaves, expected_exception_or_None)."""
        try:
            node = self.compound(self.impl.type)
            if isinstance(node, Struct):
                self.struct(node, "")
            else:
                m = max(e.value for e in node.enumeration)
                width = m.bit_length()
                if width > 64:
                    raise Expected(
                        ValueError, f"Way too large an enum, computed size: {width}"
                    )
                self.emit("", StructType(self.impl.type), width, "little", {}, None,
                          Some(node.name))
        except Expected as e:
            return self.leaves, e
        return self.leaves, None


def as_tuple(v):
    return (
        v.name,
        v.type,
        v.bitstart,
        v.bitlength,
        v.endianess,
        v.extended_data,
        v.unit,
        v.composite_type,
    )


def is_scalar(t):
    return isinstance(t, (UnsignedType, SignedType, FloatType, DoubleType, EnumType))


def compare(fcp, impl, unroll, encoder, label):
    """Run the encoder on impl and compare with the reference model."""
    ref_leaves, ref_exc = Reference(fcp, impl, unroll).run()
    try:
        got = encoder.generate(impl)
        raised = None
    except Exception as e:  # noqa: BLE001
        got = encoder.encoding
        raised = e

    if ref_exc is None:
        check(raised is None, f"{label}: unexpected {raised!r}")
    else:
        check(raised is not None, f"{label}: expected {ref_exc.exc_type.__name__}")
        check(
            type(raised) is ref_exc.exc_type and str(raised) == ref_exc.text,
            f"{label}: expected {ref_exc.exc_type.__name__}({ref_exc.text!r}) "
            f"got {raised!r}",
        )

    check(
        [as_tuple(v) for v in got] == ref_leaves,
        f"{label}: layout differs\n got {[as_tuple(v) for v in got]}\n ref {ref_leaves}",
    )
    check(all(isinstance(v, Value) for v in got), f"{label}: non Value piece")
    check(encoder.encoding is got, f"{label}: encoder.encoding is not the result")
    check(
        encoder.bitstart == sum(v.bitlength for v in got),
        f"{label}: encoder.bitstart {encoder.bitstart}",
    )

    # the property proper, stated directly on the result
    pos = 0
    for v in got:
        check(v.bitstart == pos, f"{label}: gap/overlap at {v.name}")
        pos += v.bitlength
    if raised is None:
        names = [v.name for v in got]
        check(len(set(names)) == len(names), f"{label}: duplicate names {names}")
        if unroll:
            check(all(is_scalar(v.type) or isinstance(v.type, StructType) for v in got),
                  f"{label}: non scalar leaf in unrolled layout")
    return [as_tuple(v) for v in got], raised


# --------------------------------------------------------------------------
# random fixed-size schemas
# --------------------------------------------------------------------------


def random_scalar(rng, enums):
    k = rng.randrange(6)
    if k == 0:
        return UnsignedType("u" + str(rng.choice([1, 2, 3, 7, 8, 9, 31, 32, 33, 63, 64])))
    if k == 1:
        return SignedType("i" + str(rng.choice([1, 2, 5, 8, 15, 16, 17, 32, 47, 64])))
    if k == 2:
        return UnsignedType("u" + str(rng.randint(1, 64)))
    if k == 3:
        return rng.choice([FloatType(), DoubleType()])
    if k == 4 and enums:
        return EnumType(rng.choice(enums).name)
    return SignedType("i" + str(rng.randint(1, 64)))


def random_type(rng, enums, structs, depth):
    k = rng.randrange(10)
    if k < 5 or depth > 2:
        return random_scalar(rng, enums)
    if k < 7 and structs:
        return StructType(rng.choice(structs).name)
    if k < 9:
        return ArrayType(random_type(rng, enums, structs, depth + 1), rng.randint(1, 3))
    return random_scalar(rng, enums)


ENUM_MAXES = [0, 1, 2, 3, 4, 5, 7, 8, 15, 16, 17, 127, 128, 255, 256, 257,
              65535, 65536, 2**31 - 1, 2**31, 2**32 - 1, 2**32, 2**32 + 1, 2**40]


def random_schema(rng, n):
    enums = []
    for i in range(rng.randint(1, 4)):
        m = rng.choice(ENUM_MAXES)
        members = [Enumeration("TOP", m)]
        for j in range(rng.randint(0, 3)):
            members.append(Enumeration(f"M{j}", rng.randint(0, m)))
        rng.shuffle(members)
        enums.append(Enum(f"E{n}_{i}", members))

    structs = []
    names = ["a", "b", "c", "d", "e", "mux", "x"]
    # signal blocks may also address single elements of unrolled arrays
    signal_names = names + ["a_0", "b_1", "c_0_1", "x_2"]
    for i in range(rng.randint(1, 5)):
        count = rng.randint(1, 5)
        ids = rng.sample(range(0, 20), count)
        fnames = rng.sample(names, count)
        fields = [
            StructField(
                fnames[j],
                ids[j],
                random_type(rng, enums, structs, 0),
                unit=rng.choice([None, None, "V", "m/s"]),
            )
            for j in range(count)
        ]
        structs.append(Struct(f"S{n}_{i}", fields))

    impls = []
    for i, s in enumerate(structs):
        for p in range(rng.randint(1, 2)):
            blocks = []
            for name in rng.sample(signal_names, rng.randint(0, 5)):
                opts = {}
                if rng.random() < 0.5:
                    opts["endianess"] = rng.choice(["big", "little", ""])
                if rng.random() < 0.5:
                    opts["mux_count"] = rng.randint(1, 8)
                    opts["mux_signal"] = "mux"
                if rng.random() < 0.3:
                    opts["endianness"] = "big"
                blocks.append(SignalBlock(name, opts, meta()))
            if blocks and rng.random() < 0.2:
                # duplicated signal block: the first one wins
                blocks.append(SignalBlock(blocks[0].name, {"endianess": "big"}, meta()))
            impls.append(
                Impl(f"{s.name}_{p}", "can", s.name, {"id": 10 + i}, blocks, meta())
            )
    return FcpV2(structs=structs, enums=enums, impls=impls)


def test_random_schemas():
    rng = random.Random(0xC04)
    for n in range(120):
        fcp = random_schema(rng, n)
        snapshot = deepcopy(fcp)
        for unroll in (True, False):
            ctx = PackedEncoderContext().with_unroll_arrays(unroll)
            shared = make_encoder("packed", fcp, ctx)
            fresh_results = {}
            for idx, impl in enumerate(fcp.impls):
                fresh = PackedEncoder(fcp, PackedEncoderContext(unroll))
                fresh_results[idx] = compare(fcp, impl, unroll, fresh, f"rnd{n}/{impl.name}/{unroll}/fresh")

            # arbitrary sequences of generate() calls on one encoder
            order = [rng.randrange(len(fcp.impls)) for _ in range(3 * len(fcp.impls))]
            kept = []
            for step, idx in enumerate(order):
                impl = fcp.impls[idx]
                res = compare(fcp, impl, unroll, shared, f"rnd{n}/{impl.name}/{unroll}/seq{step}")
                check(
                    res[0] == fresh_results[idx][0]
                    and type(res[1]) is type(fresh_results[idx][1])
                    and str(res[1]) == str(fresh_results[idx][1]),
                    f"rnd{n}: layout of {impl.name} depends on call history",
                )
                kept.append((shared.encoding, list(as_tuple(v) for v in shared.encoding)))
            # earlier results are not modified by later calls
            for lst, snap in kept:
                check([as_tuple(v) for v in lst] == snap, f"rnd{n}: earlier result mutated")
        # the schema itself is left untouched (array unrolling works on copies)
        check(repr(fcp.structs) == repr(snapshot.structs), f"rnd{n}: schema mutated")
        check(repr(fcp.impls) == repr(snapshot.impls), f"rnd{n}: impls mutated")


# --------------------------------------------------------------------------
# widths 1..64, enum maxima, deep nesting
# --------------------------------------------------------------------------


def test_all_widths():
    fields = []
    fid = 200
    for w in range(1, 65):
        fields.append(StructField(f"u{w}", fid, UnsignedType(f"u{w}")))
        fid -= 1
        fields.append(StructField(f"i{w}", fid, SignedType(f"i{w}")))
        fid -= 1
    s = Struct("W", fields)
    impl = Impl("W", "can", "W", {}, [], meta())
    fcp = FcpV2(structs=[s], impls=[impl])
    for unroll in (False, True):
        res, exc = compare(fcp, impl, unroll, PackedEncoder(fcp, PackedEncoderContext(unroll)), "widths")
        check(exc is None, "widths raised")
        check([r[0] for r in res][:4] == ["i64", "u64", "i63", "u63"], "widths: id order")
        check(sum(r[3] for r in res) == 2 * sum(range(1, 65)), "widths: total")


def test_enum_maxima():
    for m in ENUM_MAXES + [6, 9, 1023, 1024, 1025, 2**20 - 1, 2**20, 2**47]:
        e = Enum("E", [Enumeration("Z", 0), Enumeration("TOP", m)])
        s = Struct(
            "S",
            [
                StructField("pre", 0, UnsignedType("u3")),
                StructField("e", 1, EnumType("E")),
                StructField("arr", 2, ArrayType(EnumType("E"), 3)),
                StructField("as_struct", 3, StructType("E")),
                StructField("post", 4, UnsignedType("u5")),
            ],
        )
        impl = Impl("S", "can", "S", {}, [SignalBlock("as_struct", {"endianess": "big"}, meta())], meta())
        fcp = FcpV2(structs=[s], enums=[e], impls=[impl])
        for unroll in (False, True):
            compare(fcp, impl, unroll, PackedEncoder(fcp, PackedEncoderContext(unroll)), f"enum max {m}")
    # an impl bound directly to an enum
    e = Enum("E", [Enumeration("A", 0), Enumeration("B", 9)])
    impl = Impl("E", "can", "E", {}, [], meta())
    fcp = FcpV2(enums=[e], impls=[impl])
    compare(fcp, impl, False, PackedEncoder(fcp, PackedEncoderContext()), "impl on enum")
    # far too large an enum reached through a struct-typed reference
    e = Enum("E", [Enumeration("A", 2**65 - 1)])
    s = Struct("S", [StructField("a", 0, UnsignedType("u8")), StructField("e", 1, StructType("E"))])
    impl = Impl("S", "can", "S", {}, [], meta())
    fcp = FcpV2(structs=[s], enums=[e], impls=[impl])
    res, exc = compare(fcp, impl, False, PackedEncoder(fcp, PackedEncoderContext()), "huge enum")
    check(isinstance(exc, ValueError) and len(res) == 1, "huge enum: error expected")


def test_nesting():
    leaf = Struct("Leaf", [StructField("v", 1, UnsignedType("u3")), StructField("w", 0, SignedType("i5"))])
    mid = Struct(
        "Mid",
        [
            StructField("l", 2, StructType("Leaf")),
            StructField("ls", 1, ArrayType(StructType("Leaf"), 2)),
            StructField("m", 5, ArrayType(ArrayType(UnsignedType("u7"), 2), 3), unit="A"),
        ],
    )
    top = Struct(
        "Top",
        [
            StructField("z", 9, DoubleType()),
            StructField("mids", 3, ArrayType(StructType("Mid"), 2)),
            StructField("mid", 4, StructType("Mid")),
            StructField("v", 1, FloatType(), unit="V"),
            StructField("deep", 7, ArrayType(ArrayType(ArrayType(StructType("Leaf"), 1), 2), 2)),
        ],
    )
    blocks = [
        SignalBlock("v", {"endianess": "big", "mux_count": 2, "mux_signal": "w"}, meta()),
        SignalBlock("m_0_1", {"endianess": "big"}, meta()),
        SignalBlock("m", {"scale": 0.5}, meta()),
        SignalBlock("mids", {"endianess": "big"}, meta()),
        SignalBlock("mids_0", {"endianess": "big"}, meta()),
    ]
    impl = Impl("Top", "can", "Top", {"id": 1}, blocks, meta())
    impl2 = Impl("Mid", "can", "Mid", {"id": 2}, [], meta())
    impl3 = Impl("Leaf", "can", "Leaf", {"id": 3}, [SignalBlock("w", {"endianess": "big"}, meta())], meta())
    fcp = FcpV2(structs=[leaf, mid, top], impls=[impl, impl2, impl3])
    enc = PackedEncoder(fcp, PackedEncoderContext(True))
    first, exc = compare(fcp, impl, True, enc, "nesting")
    check(exc is None and len(first) == 1 + 2 * 12 + 12 + 8 + 1, f"nesting: {len(first)} leaves")
    opts = {r[0]: r[5] for r in first}
    check(opts["v"] == blocks[0].fields and opts["mid::l::v"] == blocks[0].fields, "nesting: options on v")
    check(opts["mid::m_0_1"] == {"endianess": "big"} and opts["mid::m_0_0"] == {}, "nesting: options on m_0_1")
    check(opts["mid::l::w"] == {} and opts["z"] == {}, "nesting: options leaked")
    for i in (impl2, impl3, impl, impl3, impl3, impl2, impl):
        compare(fcp, i, True, enc, "nesting/seq")
    again, _ = compare(fcp, impl, True, enc, "nesting/again")
    check(again == first, "nesting: history dependence")
    # without unrolling the arrays of structs cannot be sized
    res, exc = compare(fcp, impl, False, PackedEncoder(fcp, PackedEncoderContext(False)), "nesting/rolled")
    check(isinstance(exc, ValueError), "nesting/rolled: expected ValueError")
    res, exc = compare(fcp, impl3, False, enc.__class__(fcp, PackedEncoderContext()), "leaf/rolled")
    check(exc is None and [r[2:5] for r in res] == [(0, 5, "big"), (5, 3, "little")], "leaf layout")


def test_array_get_length():
    """ArrayType.get_length() agrees with the encoder on arrays of numbers."""
    rng = random.Random(4)
    scalars = [UnsignedType("u1"), UnsignedType("u7"), SignedType("i13"), UnsignedType("u64"),
               FloatType(), DoubleType()]
    for n in range(300):
        t = rng.choice(scalars)
        width = int(t.name[1:])
        count = 1
        for _ in range(rng.randint(1, 5)):
            size = rng.choice([0, 1, 1, 2, 3, 5, 8])
            t = ArrayType(t, size)
            count *= size
        check(t.get_length() == count * width and type(t.get_length()) is int, f"get_length {t}")
        s = Struct("S", [StructField("p", 0, UnsignedType("u3")), StructField("a", 1, t),
                         StructField("q", 2, UnsignedType("u2"))])
        impl = Impl("S", "can", "S", {}, [], meta())
        fcp = FcpV2(structs=[s], impls=[impl])
        res, exc = compare(fcp, impl, False, PackedEncoder(fcp, PackedEncoderContext()), f"array {n}")
        check(exc is None and res[1][2:4] == (3, t.get_length()) and res[2][2] == 3 + t.get_length(),
              f"array {n}: rolled width")
        res, exc = compare(fcp, impl, True, PackedEncoder(fcp, PackedEncoderContext(True)), f"array {n} unrolled")
        check(exc is None and len(res) == 2 + count and res[-1][2] == 3 + t.get_length(),
              f"array {n}: unrolled width")
    for inner, text in (
        (DynamicArrayType(UnsignedType("u8")), "Cannot compute the size of a dynamic array"),
        (OptionalType(UnsignedType("u8")), "Cannot compute the size of an Optional "),
        (StringType(), "Don't use Type directly"),
        (StructType("S"), "Don't use Type directly"),
        (EnumType("E"), "Don't use Type directly"),
    ):
        for t in (ArrayType(inner, 2), ArrayType(ArrayType(inner, 0), 2), ArrayType(ArrayType(ArrayType(inner, 1), 2), 3)):
            try:
                t.get_length()
                check(False, f"get_length {t}: expected ValueError")
            except ValueError as e:
                check(str(e) == text, f"get_length {t}: {e}")


# --------------------------------------------------------------------------
# error inputs and odd contexts
# --------------------------------------------------------------------------


def test_errors():
    def one(fields, label, enums=(), unroll=False, impl_type="S"):
        s = Struct("S", fields)
        impl = Impl("S", "can", impl_type, {}, [], meta())
        fcp = FcpV2(structs=[s], enums=list(enums), impls=[impl])
        return compare(fcp, impl, unroll, PackedEncoder(fcp, PackedEncoderContext(unroll)), label)

    pre = StructField("pre", 0, UnsignedType("u9"))
    for unroll in (False, True):
        for bad in (
            StringType(),
            DynamicArrayType(UnsignedType("u8")),
            OptionalType(UnsignedType("u8")),
            ArrayType(StringType(), 2),
            ArrayType(ArrayType(OptionalType(FloatType()), 2), 2),
            StructType("Missing"),
            EnumType("Missing"),
            ArrayType(EnumType("Missing"), 2),
            ArrayType(StructType("Missing"), 2),
        ):
            res, exc = one([StructField("bad", 5, bad), pre, StructField("post", 9, FloatType())],
                           f"bad {bad} {unroll}", unroll=unroll)
            check(exc is not None and len(res) == 1 and res[0][0] == "pre", f"bad {bad}: prefix")
        res, exc = one([pre], "missing impl type", impl_type="Nope", unroll=unroll)
        check(isinstance(exc, UnwrapError) and res == [], "missing impl type")

    # zero-sized arrays produce nothing when unrolled and a 0-bit leaf otherwise
    for unroll in (False, True):
        res, exc = one([pre, StructField("none", 1, ArrayType(UnsignedType("u8"), 0)),
                        StructField("post", 2, UnsignedType("u1"))], "empty array", unroll=unroll)
        check(exc is None and res[-1][2] == 9, "empty array")

    # duplicated field ids keep declaration order (stable sort)
    res, exc = one([StructField("b", 1, UnsignedType("u2")), StructField("a", 1, UnsignedType("u3")),
                    StructField("c", 0, UnsignedType("u4"))], "dup ids")
    check([r[0] for r in res] == ["c", "b", "a"], "dup ids order")

    # unknown encoder name
    try:
        make_encoder("loose", FcpV2(), PackedEncoderContext())
        check(False, "make_encoder accepted an unknown name")
    except KeyError as e:
        check(str(e) == "'Invalid encoding name loose'", f"make_encoder message {e}")

    # the context is only consulted when an array field is met: the test-suite
    # itself passes the class instead of an instance
    s = Struct("S", [pre, StructField("st", 1, StructType("T"))])
    t = Struct("T", [StructField("x", 0, SignedType("i4"))])
    impl = Impl("S", "can", "S", {}, [], meta())
    fcp = FcpV2(structs=[s, t], impls=[impl])
    enc = PackedEncoder(fcp, PackedEncoderContext)
    res, exc = compare(fcp, impl, False, enc, "class as ctx")
    check(exc is None and [r[0] for r in res] == ["pre", "st::x"], "class as ctx")
    s.fields.append(StructField("arr", 2, ArrayType(UnsignedType("u8"), 2)))
    try:
        enc.generate(impl)
        check(False, "class as ctx with array: expected AttributeError")
    except AttributeError:
        check([v.name for v in enc.encoding] == ["pre", "st::x"], "class as ctx: prefix")

    # with_unroll_arrays returns an independent copy
    base = PackedEncoderContext()
    derived = base.with_unroll_arrays(True)
    check(base.unroll_arrays is False and derived.unroll_arrays is True, "ctx copy")


# --------------------------------------------------------------------------
# parsed schemas, and one consumer (the DBC writer)
# --------------------------------------------------------------------------

SOURCE = """version: "3"

enum State { Off = 0, On = 1, Fault = 6, }
enum Wide { Lo = 0, Hi = 300, }

struct Cell { volt @1: u12 | unit("mV"), temp @0: i9, state @2: State, }

struct Pack {
    id @0: u4,
    cells @2: [Cell, 2],
    flags @1: [u1, 3],
    w @3: Wide,
}

struct Tiny { a @0: u1, b @1: u1, }

impl can for Pack {
    id: 100,
    signal id { mux_count: 4, },
    signal volt { endianess: "big", },
    signal flags_1 { endianess: "big", },
}

impl can for Tiny { id: 101, }
impl can for Cell { id: 102, signal temp { endianess: "big", }, }
"""


def test_parsed():
    fcp = get_fcp_from_string(SOURCE).unwrap()
    impls = list(fcp.get_matching_impls("can"))
    check(len(impls) == 3, "parsed: three impls")
    enc = make_encoder("packed", fcp, PackedEncoderContext().with_unroll_arrays(True))
    layouts = {}
    for impl in impls + impls[::-1] + impls:
        res, exc = compare(fcp, impl, True, enc, f"parsed/{impl.type}")
        check(exc is None, f"parsed/{impl.type} raised")
        check(layouts.setdefault(impl.type, res) == res, "parsed: history dependence")
    pack = {r[0]: r for r in layouts["Pack"]}
    check(pack["id"][2:4] == (0, 4) and pack["flags_0"][2:4] == (4, 1), "parsed: id/flags")
    check(pack["cells_0::temp"][2:4] == (7, 9) and pack["cells_0::volt"][2:5] == (16, 12, "big"), "parsed: cell 0")
    check(pack["cells_1::state"][2:4] == (7 + 24 + 21, 3) and pack["w"][2:4] == (55, 9), "parsed: tail")
    check(pack["flags_1"][4] == "big" and pack["flags_0"][4] == "little", "parsed: flags_1 options")

    # rolled arrays: flags is one 3 bit leaf, cells cannot be sized
    enc2 = make_encoder("packed", fcp, PackedEncoderContext())
    res, exc = compare(fcp, impls[0], False, enc2, "parsed/rolled")
    check(isinstance(exc, ValueError) and [r[0] for r in res] == ["id", "flags"], "parsed/rolled")

    try:
        from fcp_dbc.dbc_writer import write_dbc
    except ImportError:
        return
    # (the writer's big-endian start-bit convention only suits byte aligned
    # signals, so the consumer check uses the all-little-endian variant)
    fcp_le = get_fcp_from_string(SOURCE.replace('endianess: "big"', 'note: "x"')).unwrap()
    dbc = "\n".join(text for _bus, text in write_dbc(fcp_le).unwrap())
    impl_le = next(i for i in fcp_le.get_matching_impls("can") if i.type == "Pack")
    pack_le, _ = compare(fcp_le, impl_le, True,
                         make_encoder("packed", fcp_le, PackedEncoderContext(True)), "parsed/le")
    check([r[:4] for r in pack_le] == [r[:4] for r in layouts["Pack"]], "parsed/le: same ranges")
    for r in pack_le:
        name = r[0]
        sig = name.replace("::", "_")
        m = re.search(rf"SG_ {sig} (?:M |m\d+ )?: (\d+)\|(\d+)@([01])", dbc)
        check(m is not None, f"dbc: signal {sig} missing")
        start = r[2] + 7 if r[4] != "little" else r[2]
        check((int(m.group(1)), int(m.group(2))) == (start, r[3]), f"dbc: {sig} at {m.group(0)}")


def main():
    src = sys.modules["fcp.encoding"].__file__
    print("fcp.encoding from", src)
    test_all_widths()
    test_enum_maxima()
    test_nesting()
    test_array_get_length()
    test_errors()
    test_parsed()
    test_random_schemas()
    print(f"{CHECKS} checks")
    print("PASS")


if __name__ == "__main__":
    main()
