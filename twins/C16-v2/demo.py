#!/usr/bin/env python
"""C16 demo 2: truncating a fixed size struct that holds a 2-D array must be detected.

Run with PYTHONPATH pointing at the worktree under test, e.g.
  PYTHONPATH=$FCP_ROOT/src python demo.py
"""
import sys

from fcp.parser import get_fcp_from_string
from fcp.serde import encode, decode

SCHEMA = """
version: "3"

struct Matrix {
    id @0: u8,
    rows @1: [[u8, 4], 3],
}

struct Flat {
    id @0: u8,
    cells @1: [u8, 12],
}
"""

fcp = get_fcp_from_string(SCHEMA).unwrap()
failures = []


def sweep(name, value):
    enc = encode(fcp, name, value)
    assert decode(fcp, name, enc) == value, "round trip broken"
    for cut in range(len(enc)):
        try:
            got = decode(fcp, name, enc[:cut])
        except Exception:
            continue
        failures.append("%s: prefix of %d/%d bytes decoded to %r" % (name, cut, len(enc), got))


sweep("Flat", {"id": 1, "cells": list(range(1, 13))})
sweep("Matrix", {"id": 1, "rows": [[1, 2, 3, 4], [5, 6, 7, 8], [9, 10, 11, 12]]})

if failures:
    for f in failures:
        print(f)
    print("FAIL")
    sys.exit(1)
print("PASS")
sys.exit(0)
