#!/usr/bin/env python
"""Differential test for property C20: module imports are transparent.

A schema is written once as a single file and many times as a tree of module
files (depth <= 3, dotted module paths, resolved relative to the importing
file).  Every split has to produce exactly the same structs, enums, bindings
(impls), services and devices as the single file.  Errors injected into a
module (missing file, unexpected character, unexpected end of file, unknown
type, wrong version, bad parameter) have to come back as errors that name the
module / the file, with the exact chain of messages.

Run with PYTHONPATH pointing at the tree under test, prints PASS and exits 0.
"""

import os
import pathlib
import random
import shutil
import sys
import tempfile

from fcp.parser import get_fcp, get_fcp_from_string
from fcp.error import Logger

PREAMBLE = 'version: "3"\n'
CHECKS = 0


def check(cond, what):
    global CHECKS
    CHECKS += 1
    if not cond:
        print("FAIL:", what)
        sys.exit(1)


# --------------------------------------------------------------------------
# schemas: a list of declarations, each (text, defines, uses)
# --------------------------------------------------------------------------
def D(text, defines=(), uses=()):
    return (text.strip() + "\n", frozenset(defines), frozenset(uses))


SCHEMA_VEHICLE = [
    D("enum Mode { Off = 0, On = 1, Auto = 2, }", ["Mode"]),
    D(
        'struct Vec { x @0: f32 | unit("m"), y @1: f32, z @2: f64 | range(-1.5, 1.5), }',
        ["Vec"],
    ),
    D(
        "struct Pose {\n  pos @0: Vec,\n  mode @1: Mode,\n  tags @2: [u8, 4],\n}",
        ["Pose"],
        ["Vec", "Mode"],
    ),
    D("impl can for Pose { id: 10, signal pos { mux_count: 2, }, }"),
    D("enum Level { Low = 0, High = 3, }", ["Level"]),
    D(
        "struct Frame { poses @0: [Pose, 2], lvl @1: Optional[Level], name @2: str, raw @3: [u16], }",
        ["Frame"],
        ["Pose", "Level"],
    ),
    D('impl can for Frame as FrameFast { id: 11, device: "ecu", }'),
    D("struct Req { id @0: u8, }", ["Req"]),
    D("struct Rsp { frame @0: Frame, ok @1: u1, }", ["Rsp"], ["Frame"]),
    D("service Ctl @ 1 { method Get(Req) @0 returns Rsp, }"),
    D("device ecu { id: 3, services: [Ctl], }"),
]

SCHEMA_FLAT = [
    D("struct A { a @0: u8, }", ["A"]),
    D("struct B { b @0: i64 | range(-5.0, 5.5) | unit(\"V\"), }", ["B"]),
    D("enum E { X = 0, }", ["E"]),
    D("struct C { c @0: [[u3, 2], 3], d @1: [Optional[i7]], }", ["C"]),
    D("impl can for A { id: 1, }"),
    D("impl uart for A as A2 { baud: 9600, }"),
    D("impl can for C { id: 2, signal c { start: 1, }, signal d { start: 9, }, }"),
    D("device d1 { id: 1, }"),
    D("device d2 { id: 2, tags: [1, 2, \"x\"], }"),
]

SCHEMA_CHAIN = [
    D("enum K0 { Z = 0, }", ["K0"]),
    D("struct S0 { k @0: K0, }", ["S0"], ["K0"]),
    D("struct S1 { s @0: S0, k @1: Optional[K0], }", ["S1"], ["S0", "K0"]),
    D("struct S2 { s @0: [S1, 3], }", ["S2"], ["S1"]),
    D("struct S3 { s @0: [S2], t @1: S0, }", ["S3"], ["S2", "S0"]),
    D("impl can for S3 { id: 7, }"),
    D("impl can for S0 { id: 8, }"),
    D("service Svc @ 2 { method M0(S0) @0 returns S1, method M1(S2) @1 returns S3, }"),
    D("service Svc2 @ 3 { method M0(S3) @0 returns S3, }"),
]

SCHEMAS = {
    "vehicle": SCHEMA_VEHICLE,
    "flat": SCHEMA_FLAT,
    "chain": SCHEMA_CHAIN,
    "empty": [],
    "single": [D("struct Only { x @0: u64, }", ["Only"])],
}


def self_contained(decls):
    """A module only sees what it (or its own sub-modules) declared before."""
    seen = set()
    for _, defines, uses in decls:
        if not uses <= seen:
            return False
        seen |= defines
    return True


# --------------------------------------------------------------------------
# writing a schema as a tree of modules
# --------------------------------------------------------------------------
class Tree:
    """Files of one split; `modules` lists (depth, importer file, module file,
    line of the mod statement in the importer, path as spelled by the importer)."""

    def __init__(self, root):
        self.root = root
        self.files = {}
        self.modules = []
        self.counter = 0

    def fresh(self, rng, max_parts):
        self.counter += 1
        n = rng.randint(1, max_parts)
        parts = ["p%d_%d" % (self.counter, i) for i in range(n - 1)]
        # the same leaf name is reused in different directories on purpose
        parts.append(rng.choice(["common", "types", "m%d" % self.counter]))
        return parts

    def flush(self):
        for path, text in self.files.items():
            path.parent.mkdir(parents=True, exist_ok=True)
            path.write_text(text)


def plan_segments(decls, rng, force=None):
    """Pick non overlapping contiguous self contained segments of decls."""
    if force is not None:
        return [force]
    segments = []
    i = 0
    while i <= len(decls):
        if rng.random() < 0.35:
            j = rng.randint(i, len(decls))
            while not self_contained(decls[i:j]):
                j -= 1  # the empty segment is always self contained
            segments.append((i, j))
            if j > i:
                i = j
                continue
        i += 1
    return segments


def write_file(tree, path, decls, depth, rng, force=None):
    """Write `decls` to `path`, moving random segments into modules."""
    segments = plan_segments(decls, rng, force) if depth < 3 else []
    by_start = {}
    for i, j in segments:
        by_start.setdefault(i, []).append((i, j))
    lines = [PREAMBLE]
    used = set()
    i = 0
    while i <= len(decls):
        moved = False
        for s, e in by_start.pop(i, []):
            parts = tree.fresh(rng, 3)
            target = path.parent.joinpath(*parts[:-1], parts[-1] + ".fcp")
            if target in tree.files or target == path or tuple(parts) in used:
                continue
            used.add(tuple(parts))
            lineno = "".join(lines).count("\n") + 1
            lines.append("mod " + ".".join(parts) + ";\n")
            tree.modules.append((depth + 1, path, target, lineno, parts))
            tree.files[target] = None  # reserve
            write_file(tree, target, decls[s:e], depth + 1, rng)
            if e > s:
                i = e
                moved = True
                break
        if moved:
            continue
        if i < len(decls):
            lines.append(decls[i][0])
        i += 1
    tree.files[path] = "".join(lines)


def parse(path, logger=None):
    if logger is None:
        return get_fcp(str(path))
    return get_fcp(str(path), logger)


def same_schema(split, single, what):
    a, b = split.to_dict(), single.to_dict()
    for key in ("structs", "enums", "impls", "services", "devices", "version"):
        check(a[key] == b[key], "%s: %s differ\n  split : %r\n  single: %r" % (what, key, a[key], b[key]))
    check(a == b, what + ": to_dict differs")
    check(
        [s.name for s in split.structs] == [s.name for s in single.structs],
        what + ": struct order",
    )
    check(
        [(i.name, i.protocol, i.type) for i in split.impls]
        == [(i.name, i.protocol, i.type) for i in single.impls],
        what + ": impl order",
    )
    for protocol in ("can", "uart", "default", "nope"):
        check(
            [(i.name, i.protocol) for i in split.get_matching_impls_or_default(protocol)]
            == [(i.name, i.protocol) for i in single.get_matching_impls_or_default(protocol)],
            what + ": impls or default for " + protocol,
        )
        ref = []
        for s in split.structs:
            mine = [i for i in split.impls if i.type == s.name and i.protocol == protocol]
            if not mine:
                mine = [i for i in split.impls if i.type == s.name and i.protocol == "default"]
            ref += mine
        got = split.get_matching_impls_or_default(protocol)
        check(len(got) == len(ref) and all(x is y for x, y in zip(got, ref)), what + ": impls or default reference")
    for s in single.structs:
        check(split.get_struct(s.name).is_some(), what + ": struct lookup " + s.name)
        check(split.get_struct(s.name).unwrap().name == s.name, what + ": struct lookup " + s.name)
    for e in single.enums:
        check(split.get_enum(e.name).unwrap().name == e.name, what + ": enum lookup " + e.name)


def run_splits(workdir):
    rng = random.Random(20)
    n_trees = 0
    n_modules = 0
    depths = set()
    for name, decls in SCHEMAS.items():
        sdir = workdir / ("single_" + name)
        sdir.mkdir()
        single_path = sdir / "main.fcp"
        single_path.write_text(PREAMBLE + "".join(d[0] for d in decls))
        single = parse(single_path).unwrap()
        check(len(single.structs) == sum(1 for d in decls if d[0].startswith("struct")), name + ": single struct count")

        plans = []
        # every single contiguous self contained segment as one module
        for i in range(len(decls) + 1):
            for j in range(i, len(decls) + 1):
                if self_contained(decls[i:j]):
                    plans.append((i, j))
        if name in ("vehicle",):
            plans = plans[::2]
        plans += [None] * (25 if decls else 2)
        for k, force in enumerate(plans):
            root = workdir / ("%s_%d" % (name, k))
            root.mkdir()
            tree = Tree(root)
            write_file(tree, root / "main.fcp", decls, 0, rng, force)
            tree.flush()
            n_trees += 1
            n_modules += len(tree.modules)
            depths |= {m[0] for m in tree.modules}
            what = "%s split %d" % (name, k)
            result = parse(root / "main.fcp")
            check(result.is_ok(), what + ": " + repr(result))
            same_schema(result.unwrap(), single, what)
            if k % 7 == 0:
                # relative root path, and a second call on the same tree
                cwd = os.getcwd()
                os.chdir(root)
                try:
                    again = parse("main.fcp")
                    check(again.is_ok(), what + " (relative): " + repr(again))
                    same_schema(again.unwrap(), single, what + " (relative)")
                    check(again.unwrap().to_dict() == result.unwrap().to_dict(), what + ": repeat")
                finally:
                    os.chdir(cwd)
    check(depths >= {1, 2, 3}, "module depths 1..3 exercised: %r" % depths)
    return n_trees, n_modules


# --------------------------------------------------------------------------
# hand written trees: relative resolution, shadowing, visibility
# --------------------------------------------------------------------------
def put(root, rel, text):
    p = root / rel
    p.parent.mkdir(parents=True, exist_ok=True)
    p.write_text(text)
    return p


def run_handwritten(workdir):
    root = workdir / "hand"
    # the same module name at three levels, resolved relative to the importer
    put(root, "main.fcp", PREAMBLE + "mod common;\nmod sub.entry;\nstruct Top { a @0: RootT, b @1: Entry, }\n")
    put(root, "common.fcp", PREAMBLE + "struct RootT { v @0: u8, }\n")
    put(root, "sub/entry.fcp", PREAMBLE + "mod common;\nmod deep.er.common;\nstruct Entry { a @0: SubT, b @1: DeepT, }\n")
    put(root, "sub/common.fcp", PREAMBLE + "struct SubT { v @0: u16, }\n")
    put(root, "sub/deep/er/common.fcp", PREAMBLE + "mod sibling;\nstruct DeepT { v @0: Sib, }\n")
    put(root, "sub/deep/er/sibling.fcp", PREAMBLE + "enum Sib { S = 1, }\n")
    # decoys that must NOT be picked up
    put(root, "deep/er/common.fcp", PREAMBLE + "struct Decoy1 { v @0: u8, }\n")
    put(root, "sibling.fcp", PREAMBLE + "struct Decoy2 { v @0: u8, }\n")
    put(root, "sub/sibling.fcp", PREAMBLE + "struct Decoy3 { v @0: u8, }\n")
    single = put(
        root,
        "single/main.fcp",
        PREAMBLE
        + "struct RootT { v @0: u8, }\nstruct SubT { v @0: u16, }\nenum Sib { S = 1, }\n"
        + "struct DeepT { v @0: Sib, }\nstruct Entry { a @0: SubT, b @1: DeepT, }\n"
        + "struct Top { a @0: RootT, b @1: Entry, }\n",
    )
    split = parse(root / "main.fcp")
    check(split.is_ok(), "hand: " + repr(split))
    same_schema(split.unwrap(), parse(single).unwrap(), "hand")
    metas = {s.name: pathlib.Path(s.meta.filename) for s in split.unwrap().structs}
    check(metas["SubT"] == (root / "sub/common.fcp").resolve(), "hand: SubT comes from sub/common.fcp")
    check(metas["DeepT"] == (root / "sub/deep/er/common.fcp").resolve(), "hand: DeepT file")
    check(metas["RootT"] == root / "common.fcp", "hand: RootT file")

    # a struct wins over an enum of the same name; the enum is found otherwise
    put(root, "shadow.fcp", PREAMBLE + "mod shadow_e;\nstruct X { v @0: u8, }\nstruct U { x @0: X, y @1: Y, }\n")
    put(root, "shadow_e.fcp", PREAMBLE + "enum X { A = 0, }\nenum Y { B = 0, }\n")
    shadow = parse(root / "shadow.fcp").unwrap().to_dict()
    fields = shadow["structs"][1]["fields"]
    check(fields[0]["type"] == {"name": "X", "type": "Struct"}, "shadow: struct wins " + repr(fields[0]))
    check(fields[1]["type"] == {"name": "Y", "type": "Enum"}, "shadow: enum found " + repr(fields[1]))

    # importing the same module twice merges it twice (diamond), in order
    put(root, "twice.fcp", PREAMBLE + "mod common;\nstruct Mid { v @0: RootT, }\nmod common;\n")
    twice = parse(root / "twice.fcp").unwrap()
    check([s.name for s in twice.structs] == ["RootT", "Mid", "RootT"], "twice: structs")
    check([i.name for i in twice.impls] == ["RootT", "Mid", "RootT"], "twice: impls")

    # a module does not see what its importer declared before the import
    put(root, "vis.fcp", PREAMBLE + "struct Before { v @0: u8, }\nmod vis_m;\n")
    put(root, "vis_m.fcp", PREAMBLE + "struct Inner { v @0: Before, }\n")
    r = parse(root / "vis.fcp")
    check(r.is_err(), "vis: must fail")
    check(
        [m for m, _, _ in r.err().msg]
        == [
            "Type 'Before' cannot be found.",
            "Error parsing type in struct field",
            "Failed to parse field in struct Inner",
            "Failed to parse vis_m.fcp",
            "Failed to import %s" % (root / "vis_m.fcp"),
            "Failed to parse vis.fcp",
        ],
        "vis: messages " + repr(r),
    )
    # and the importer does not see a module's types before the import
    put(root, "late.fcp", PREAMBLE + "struct Early { v @0: RootT, }\nmod common;\n")
    r = parse(root / "late.fcp")
    check(r.is_err() and r.err().msg[0][0] == "Type 'RootT' cannot be found.", "late: " + repr(r))
    # a failed import merges nothing and stops the file
    put(root, "half.fcp", PREAMBLE + "mod common;\nmod missing.one;\nstruct After { v @0: u8, }\n")
    r = parse(root / "half.fcp")
    check(
        r.is_err() and [m for m, _, _ in r.err().msg] == ["File not found: one.fcp", "Failed to parse half.fcp"],
        "half: " + repr(r),
    )


# --------------------------------------------------------------------------
# errors injected into modules at depth 1, 2 and 3
# --------------------------------------------------------------------------
def chain_tree(root, relative):
    """main -> a.m1 -> b.c.m2 -> m3, every module declares one struct."""
    put(root, "main.fcp", PREAMBLE + "struct M0 { v @0: u8, }\n\nmod a.m1;\nstruct Use { v @0: T3, }\n")
    put(root, "a/m1.fcp", PREAMBLE + "mod b.c.m2;\nstruct T1 { v @0: T2, }\n")
    put(root, "a/b/c/m2.fcp", PREAMBLE + "struct T2a { v @0: u8, }\n\n\nmod m3;\nstruct T2 { v @0: T3, }\n")
    put(root, "a/b/c/m3.fcp", PREAMBLE + "struct T3 { v @0: u8, }\n")
    main_dir = pathlib.Path("") if relative else root
    # (file on disk, spelled path as the importer builds it, mod line in importer)
    m1 = (root / "a/m1.fcp", main_dir / "a/m1.fcp", 4)
    m2 = (root / "a/b/c/m2.fcp", root / "a" / "b/c/m2.fcp", 2)
    m3 = (root / "a/b/c/m3.fcp", root / "a/b/c" / "m3.fcp", 5)
    main = (root / "main.fcp", main_dir / "main.fcp", None)
    return [main, m1, m2, m3]


def expected_tail(chain, k, produced_by_importer):
    """Messages appended on the way out for an error in module k of the chain."""
    msgs = []
    level = k - 1 if produced_by_importer else k
    while level >= 0:
        msgs.append("Failed to parse " + chain[level][0].name)
        if level > 0:
            msgs.append("Failed to import %s" % chain[level][1])
        level -= 1
    return msgs


def run_errors(workdir):
    n = 0
    for relative in (False, True):
        for k in (1, 2, 3):
            for kind in ("missing", "char", "eof", "type", "version", "param", "nested_missing"):
                root = (workdir / ("err_%s_%d_%s" % (kind, k, relative))).resolve()
                chain = chain_tree(root, relative)
                victim, spelled, mod_line = chain[k]
                good = victim.read_text()
                node_file = None
                node_line = None
                if kind == "missing":
                    victim.unlink()
                    head = ["File not found: " + victim.name]
                    by_importer = True
                elif kind == "char":
                    victim.write_text(good + "struct Z { v @0: u8, }\n  $\n")
                    head = None  # starts with "Unexpected character '$'"
                    by_importer = True
                    node_file = str(spelled)
                    node_line = good.count("\n") + 2
                elif kind == "eof":
                    victim.write_text(good + "struct Z { v @0: u8,\n")
                    head = ["Unexpected EOF in " + victim.name]
                    by_importer = True
                    node_file = str(chain[k - 1][1] if k == 1 else chain[k - 1][0])
                    node_line = mod_line
                elif kind == "type":
                    victim.write_text(good + "\nstruct Z { ok @0: u8, v @1: [Optional[Nope], 2], }\n")
                    head = [
                        "Type 'Nope' cannot be found.",
                        "Error parsing optional type",
                        "Error parsing array type",
                        "Error parsing type in struct field",
                        "Failed to parse field in struct Z",
                    ]
                    by_importer = False
                    node_file = str(victim)
                    node_line = good.count("\n") + 2
                elif kind == "version":
                    victim.write_text(good.replace('version: "3"', 'version: "2"'))
                    head = ["Expected IDL version 3"]
                    by_importer = False
                    node_file = str(victim)
                    node_line = 1
                elif kind == "param":
                    victim.write_text(good + "struct Z { v @0: u8 | scale(2), }\n")
                    head = ["Invalid definition in %s: 'scale'" % victim.name]
                    by_importer = True
                    node_file = str(chain[k - 1][1] if k == 1 else chain[k - 1][0])
                    node_line = mod_line
                else:
                    victim.write_text(good + "mod not.there.at_all;\n")
                    head = ["File not found: at_all.fcp"]
                    by_importer = False

                cwd = os.getcwd()
                if relative:
                    os.chdir(root)
                try:
                    logger = Logger({}, enable_file_paths=False)
                    result = parse(chain[0][1], logger)
                finally:
                    os.chdir(cwd)
                what = "error %s depth %d relative=%s" % (kind, k, relative)
                check(result.is_err(), what + ": expected an error, got " + repr(result))
                msgs = [m for m, _, _ in result.err().msg]
                tail = expected_tail(chain, k, by_importer)
                if head is None:
                    check(
                        msgs[0].startswith("Unexpected character '$', expected one of: ["),
                        what + ": first message " + msgs[0],
                    )
                    check(msgs[1:] == tail, what + ": messages %r, expected tail %r" % (msgs, tail))
                else:
                    check(msgs == head + tail, what + ": messages %r, expected %r" % (msgs, head + tail))
                first_node = result.err().msg[0][1]
                if node_file is None:
                    check(first_node is None, what + ": no node expected")
                else:
                    check(first_node is not None, what + ": node expected")
                    check(
                        first_node.meta.filename == node_file,
                        what + ": node file %r, expected %r" % (first_node.meta.filename, node_file),
                    )
                    check(
                        first_node.meta.line == node_line,
                        what + ": node line %r, expected %r" % (first_node.meta.line, node_line),
                    )
                # every "Failed to import" carries the mod statement it belongs to
                for msg, node, _ in result.err().msg:
                    if msg.startswith("Failed to import"):
                        level = [str(c[1]) for c in chain].index(msg[len("Failed to import "):])
                        check(node is not None and node.meta.line == chain[level][2], what + ": import node line")
                        importer = chain[level - 1]
                        check(
                            node.meta.filename == str(importer[1] if level == 1 else importer[0]),
                            what + ": import node file",
                        )
                # the error names the module / the file and can be rendered
                logger.enable_file_paths = True
                rendered = logger.error(result.err())
                check(victim.name in rendered or kind == "nested_missing", what + ": rendering names the module")
                if kind == "nested_missing":
                    check("at_all.fcp" in rendered, what + ": rendering names the file")
                n += 1
    return n


# --------------------------------------------------------------------------
# the root file goes through the same front end as a module
# --------------------------------------------------------------------------
def run_root_errors(workdir):
    root = workdir / "rooterr"
    cases = [
        ("eof.fcp", PREAMBLE + "struct Z { v @0: u8,\n", ["Unexpected EOF in eof.fcp"], None),
        ("param.fcp", PREAMBLE + "struct Z { v @0: u8 | scale(2), }\n", ["Invalid definition in param.fcp: 'scale'"], None),
        ("char.fcp", PREAMBLE + "\n\n  $\n", None, 4),
        ("missing.fcp", PREAMBLE + "mod does.nt.exist;\n", ["File not found: exist.fcp", "Failed to parse missing.fcp"], None),
    ]
    for name, text, expected, line in cases:
        path = put(root, name, text)
        logger = Logger({}, enable_file_paths=False)
        r = parse(path, logger)
        check(r.is_err(), "root " + name)
        msgs = [m for m, _, _ in r.err().msg]
        node = r.err().msg[0][1]
        if expected is None:
            check(len(msgs) == 1 and msgs[0].startswith("Unexpected character '$', expected one of: ["), "root " + name + repr(msgs))
            check(node.meta.filename == str(path) and node.meta.line == line and node.meta.column == 3, "root char node")
            check(logger.sources[name] == text, "root source registered")
        else:
            check(msgs == expected, "root %s: %r" % (name, msgs))
            check(node is None, "root %s: node" % name)
        logger.error(r.err())
    # in-memory entry point: same front end, module files still come from disk
    ok = get_fcp_from_string(PREAMBLE + "struct A { a @0: u8, }\nenum E { X = 1, }\nstruct B { a @0: A, e @1: E, }\n")
    check(ok.is_ok() and [s.name for s in ok.unwrap().structs] == ["A", "B"], "from string")
    r = get_fcp_from_string(PREAMBLE + "struct A { a @0: u8,\n")
    check(r.is_err() and [m for m, _, _ in r.err().msg] == ["Unexpected EOF in main.fcp"], "from string eof " + repr(r))
    r = get_fcp_from_string(PREAMBLE + "mod surely_not_here_c20;\n")
    check(
        r.is_err() and [m for m, _, _ in r.err().msg] == ["File not found: surely_not_here_c20.fcp", "Failed to parse main.fcp"],
        "from string missing module " + repr(r),
    )


# --------------------------------------------------------------------------
# FcpV2.merge as used by the import
# --------------------------------------------------------------------------
def run_merge_api(workdir):
    root = workdir / "mergeapi"
    a_path = put(root, "a.fcp", PREAMBLE + "".join(d[0] for d in SCHEMA_VEHICLE))
    b_path = put(root, "b.fcp", PREAMBLE + "".join(d[0] for d in SCHEMA_FLAT))
    a, b = parse(a_path).unwrap(), parse(b_path).unwrap()
    keys = ("structs", "enums", "impls", "services", "devices")
    lists_a = {k: getattr(a, k) for k in keys}
    before_a = {k: list(getattr(a, k)) for k in keys}
    before_b = {k: list(getattr(b, k)) for k in keys}
    b.version = "9.9"
    check(a.merge(b) is None, "merge returns None")
    for k in keys:
        check(getattr(a, k) is lists_a[k], "merge keeps list object " + k)
        got, want = getattr(a, k), before_a[k] + before_b[k]
        check(len(got) == len(want) and all(x is y for x, y in zip(got, want)), "merge concatenates " + k)
        check(len(getattr(b, k)) == len(before_b[k]), "merge leaves the argument alone " + k)
    check(a.version == "3.0" and b.version == "9.9", "merge leaves the version alone")
    b.merge(b)
    for k in keys:
        want = before_b[k] + before_b[k]
        got = getattr(b, k)
        check(len(got) == len(want) and all(x is y for x, y in zip(got, want)), "self merge doubles " + k)
    # duplicated structs get their impls once per occurrence
    names = [(i.name, i.protocol) for i in b.get_matching_impls_or_default("can")]
    check(
        names == [("A", "can"), ("A", "can"), ("B", "default"), ("B", "default"), ("C", "can"), ("C", "can")] * 2,
        "impls or default with duplicates: %r" % names,
    )
    names = [(i.name, i.protocol) for i in b.get_matching_impls_or_default("default")]
    check(names == [(n, "default") for n in "AABBCC"] * 2, "default impls with duplicates: %r" % names)


def main():
    workdir = pathlib.Path(tempfile.mkdtemp(prefix="c20_")).resolve()
    try:
        n_trees, n_modules = run_splits(workdir)
        run_handwritten(workdir)
        n_errors = run_errors(workdir)
        run_root_errors(workdir)
        run_merge_api(workdir)
    finally:
        shutil.rmtree(workdir, ignore_errors=True)
    print(
        "%d module trees (%d module files), %d injected errors, %d checks"
        % (n_trees, n_modules, n_errors, CHECKS)
    )
    print("PASS")


if __name__ == "__main__":
    main()
