#!/venv/bin/python
"""C14 demo 2: CAN bindings between 65 and 128 bits must be rejected by the DBC
generator and by the C generation command, wherever the excess is located.

Run with
  PYTHONPATH=$R/src:$R/plugins/fcp_dbc:$R/plugins/fcp_can_c:$R/plugins/fcp_cpp:$R/plugins/fcp_nop
"""
import os
import re
import sys
import tempfile

from fcp.parser import get_fcp_from_string
from fcp.verifier import make_general_verifier
from fcp.codegen import GeneratorManager

HEADER = 'version: "3"\n'
IMPL = """
impl can for Foo {
    id: 10,
    device: "ecu",
}
"""

SCHEMAS = {
    # (total bits, schema)
    "aligned_72": (72, "struct Foo {\n a @0: u32,\n b @1: u32,\n c @2: u8,\n}\n"),
    "last_field_straddles_72": (72, "struct Foo {\n a @0: u8,\n b @1: u64,\n}\n"),
    "last_field_straddles_80": (80, "struct Foo {\n a @0: u32,\n b @1: u16,\n c @2: u32,\n}\n"),
    "one_bit_over_65": (65, "struct Foo {\n a @0: u32,\n b @1: u1,\n c @2: u32,\n}\n"),
    "array_element_straddles_72": (72, "struct Foo {\n a @0: [u24, 3],\n}\n"),
    "nested_struct_straddles_96": (
        96,
        "struct Bar {\n x @0: u64,\n}\nstruct Foo {\n a @0: u32,\n b @1: Bar,\n}\n",
    ),
    "middle_field_straddles_88": (88, "struct Foo {\n a @0: u16,\n b @1: u64,\n c @2: u8,\n}\n"),
}

SIGNAL_RE = re.compile(r"can_(?:de|en)code_signal_\w+\(\(\w+\),\s*(\d+),\s*(\d+),")
SG_RE = re.compile(r"^ SG_ (\w+) (?:m\d+ |M )?: (\d+)\|(\d+)@", re.M)


def c_generation(schema: str):
    fcp = get_fcp_from_string(schema).unwrap()
    out = tempfile.mkdtemp(prefix="c14_")
    try:
        result = GeneratorManager(make_general_verifier()).generate(
            "can_c", None, None, fcp, out
        )
        failed = not (hasattr(result, "is_ok") and result.is_ok())
    except BaseException:
        failed = True
    text = ""
    for name in os.listdir(out):
        if name.endswith(("_can.c", "_can.h")):
            with open(os.path.join(out, name)) as f:
                text += f.read()
    described = "foo" in text.lower()
    beyond = sorted({(int(s), int(n)) for s, n in SIGNAL_RE.findall(text) if int(s) + int(n) > 64})
    return failed, described, beyond


def dbc_generation(schema: str):
    import fcp_dbc

    fcp = get_fcp_from_string(schema).unwrap()
    try:
        results = fcp_dbc.Generator().generate(fcp, {"output": "out"})
    except BaseException:
        return True, False, []
    text = "".join(str(r["contents"]) for r in results)
    described = "BO_ 10 " in text
    beyond = sorted({(int(s), int(n)) for _, s, n in SG_RE.findall(text) if int(s) + int(n) > 64})
    return False, described, beyond


def main() -> int:
    ok = True
    for name, (bits, body) in SCHEMAS.items():
        schema = HEADER + body + IMPL
        for what, run in (("dbc", dbc_generation), ("can_c", c_generation)):
            failed, described, beyond = run(schema)
            good = failed and not described and not beyond
            print(
                f"{name} ({bits} bits) {what}: rejected={failed} "
                f"message_described={described} signals_beyond_bit_64={beyond}"
            )
            ok = ok and good
    print("PASS" if ok else "FAIL")
    return 0 if ok else 1


if __name__ == "__main__":
    sys.exit(main())
