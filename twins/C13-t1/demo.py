#!/usr/bin/env python
"""Differential test for property C13.

For a schema that uses every container kind, signed negatives and sub-byte
fields, the generated C++ run-time codec (DynamicSchema, loaded from the binary
reflection produced by the Python tool) is compared with the statically
generated C++ codec (StaticSchema) and with the Python reference codec:

  * encode: static bytes == dynamic bytes == python bytes
  * decode: static JSON and dynamic JSON equal the original value
            (enumerators numbered in the static codec, named in the dynamic one)
  * loader: bad tag / bad version are rejected, unknown struct names give
            nullopt from both codecs, results are stable over repeated calls

Run with PYTHONPATH pointing at the worktree (see README of the task); the env
var FCP_ROOT (default /tmp/twin-C13) is only used to locate the shipped test
schema.  Prints PASS and exits 0 when everything agrees.
"""

import json
import os
import random
import shutil
import struct
import subprocess
import sys
import tempfile
from pathlib import Path

from fcp.parser import get_fcp
from fcp.reflection import get_reflection_schema
import fcp.serde as fcp_serde
from fcp.serde import encode as py_encode
from fcp.serde import decode as py_decode
from fcp_cpp import Generator

FCP_ROOT = Path(os.environ.get("FCP_ROOT", "/tmp/twin-C13"))
JSON_INCLUDE = os.environ.get("JSON_INCLUDE", "/root/miniconda/include")

SCHEMA = """version: "3"

enum Mode {
    Off = 0,
    On = 1,
    Auto = 2,
    Fault = 5,
}

enum Flag {
    No = 0,
    Yes = 1,
}

enum Wide {
    First = 0,
    Second = 1,
    Last = 255,
}

enum Huge {
    Zero = 0,
    Mid = 300,
    Top = 65535,
}

struct Inner {
    a @ 0: u8,
    b @ 1: i16,
}

struct Nums {
    n1 @ 0: u8,
    n2 @ 1: i8,
    n3 @ 2: u16,
    n4 @ 3: i16,
    n5 @ 4: u24,
    n6 @ 5: i24,
    n7 @ 6: u32,
    n8 @ 7: i32,
    n9 @ 8: u64,
    n10 @ 9: i64,
    n11 @ 10: u40,
    n12 @ 11: i48,
}

struct Floats {
    f @ 0: f32,
    d @ 1: f64,
}

struct Text {
    s @ 0: str,
    t @ 1: str,
}

struct Arr {
    a @ 0: [u8, 4],
    b @ 1: [i16, 3],
    c @ 2: [[i8, 2], 2],
    e @ 3: [Wide, 2],
}

struct Dyn {
    a @ 0: [u8],
    b @ 1: [i32],
    c @ 2: [Inner],
    d @ 3: [str],
    e @ 4: [[i16]],
}

struct Opt {
    a @ 0: Optional[u8],
    b @ 1: Optional[i32],
    c @ 2: Optional[Inner],
    d @ 3: Optional[str],
    e @ 4: Optional[Huge],
}

struct Nested {
    i @ 0: Inner,
    arr @ 1: [Inner, 2],
    o @ 2: Optional[[u16]],
    w @ 3: Wide,
    h @ 4: Huge,
}

struct Reordered {
    third @ 2: i16,
    first @ 0: u8,
    second @ 1: Wide,
}

struct TailEnum {
    x @ 0: u16,
    m @ 1: Mode,
}

struct TailSigned {
    x @ 0: i32,
    n @ 1: i5,
}

struct Packed {
    a @ 0: u3,
    b @ 1: i5,
    c @ 2: Mode,
    d @ 3: i13,
    e @ 4: Flag,
    f @ 5: u7,
}

struct PackedArr {
    a @ 0: [i3, 5],
    b @ 1: u1,
    c @ 2: [Mode, 3],
    d @ 3: i7,
}
"""

ENUMS = {
    "Mode": {"Off": 0, "On": 1, "Auto": 2, "Fault": 5},
    "Flag": {"No": 0, "Yes": 1},
    "Wide": {"First": 0, "Second": 1, "Last": 255},
    "Huge": {"Zero": 0, "Mid": 300, "Top": 65535},
}


class E:
    """An enumerator: number for the static codec, name for the dynamic one."""

    def __init__(self, enum, name):
        self.enum, self.name = enum, name


def render(v, dynamic):
    if isinstance(v, E):
        return v.name if dynamic else ENUMS[v.enum][v.name]
    if isinstance(v, dict):
        return {k: render(x, dynamic) for k, x in v.items()}
    if isinstance(v, list):
        return [render(x, dynamic) for x in v]
    return v


def f32(x):
    return struct.unpack("f", struct.pack("f", x))[0]


def srange(bits):
    return -(2 ** (bits - 1)), 2 ** (bits - 1) - 1


def build_cases():
    rnd = random.Random(1313)
    cases = []  # (struct, value, check_encode)

    def add(name, value, enc=True):
        cases.append((name, value, enc))

    widths = [8, 8, 16, 16, 24, 24, 32, 32, 64, 64, 40, 48]
    signed = [False, True] * 5 + [False, True]

    def nums(pick):
        return {
            "n%d" % (i + 1): pick(w, s) for i, (w, s) in enumerate(zip(widths, signed))
        }

    add("Nums", nums(lambda w, s: 0))
    add("Nums", nums(lambda w, s: srange(w)[0] if s else 2**w - 1))
    add("Nums", nums(lambda w, s: srange(w)[1] if s else 2 ** (w - 1)))
    add("Nums", nums(lambda w, s: -1 if s else 1))
    for _ in range(6):
        add(
            "Nums",
            nums(
                lambda w, s: rnd.randint(*srange(w)) if s else rnd.randint(0, 2**w - 1)
            ),
        )

    for f, d in [(0.0, 0.0), (0.5, -1.25), (-3.75, 1e300), (f32(3.14159), 2.718281828), (f32(-1e-20), -0.0)]:
        add("Floats", {"f": f, "d": d})

    add("Text", {"s": "", "t": ""})
    add("Text", {"s": "a", "t": "hello, world"})
    add("Text", {"s": "x" * 300, "t": "~ !\"#$%&'()*+,-./0123456789"})

    add("Arr", {"a": [0, 0, 0, 0], "b": [0, 0, 0], "c": [[0, 0], [0, 0]], "e": [E("Wide", "First"), E("Wide", "First")]})
    add("Arr", {"a": [255, 1, 128, 127], "b": [-32768, 32767, -1], "c": [[-128, 127], [-1, 1]], "e": [E("Wide", "Last"), E("Wide", "Second")]})

    add("Dyn", {"a": [], "b": [], "c": [], "d": [], "e": []})
    add("Dyn", {
        "a": [1, 2, 3, 255],
        "b": [-2147483648, 2147483647, -1, 0],
        "c": [{"a": 7, "b": -300}, {"a": 255, "b": 32767}, {"a": 0, "b": -32768}],
        "d": ["", "abc", "z"],
        "e": [[], [-1], [1, -2, 3]],
    })
    add("Dyn", {"a": list(range(200)), "b": [rnd.randint(*srange(32)) for _ in range(50)], "c": [], "d": ["q" * 40], "e": [[-32768] * 9]})

    add("Opt", {"a": None, "b": None, "c": None, "d": None, "e": None})
    add("Opt", {"a": 9, "b": -123456, "c": {"a": 1, "b": -2}, "d": "some", "e": E("Huge", "Mid")})
    add("Opt", {"a": 255, "b": None, "c": {"a": 0, "b": 0}, "d": None, "e": E("Huge", "Top")})
    add("Opt", {"a": None, "b": -2147483648, "c": None, "d": "x", "e": E("Huge", "Zero")})

    add("Nested", {
        "i": {"a": 200, "b": -200},
        "arr": [{"a": 1, "b": -1}, {"a": 2, "b": -32768}],
        "o": [65535, 0, 1],
        "w": E("Wide", "Last"),
        "h": E("Huge", "Mid"),
    })
    add("Nested", {
        "i": {"a": 0, "b": 0},
        "arr": [{"a": 0, "b": 0}, {"a": 0, "b": 0}],
        "o": None,
        "w": E("Wide", "First"),
        "h": E("Huge", "Top"),
    })

    add("Reordered", {"third": -2, "first": 17, "second": E("Wide", "Second")})
    add("Reordered", {"third": 32767, "first": 255, "second": E("Wide", "Last")})

    for m in ENUMS["Mode"]:
        add("TailEnum", {"x": rnd.randint(0, 65535), "m": E("Mode", m)})
    for n in [-16, -1, 0, 1, 15, -7]:
        add("TailSigned", {"x": rnd.randint(*srange(32)), "n": n})

    # Sub-byte fields in the middle of a message: bytes come from the Python
    # reference encoder, both C++ codecs must decode them to the same value.
    modes = list(ENUMS["Mode"])
    flags = list(ENUMS["Flag"])
    packed = [
        {"a": 0, "b": 0, "c": E("Mode", "Off"), "d": 0, "e": E("Flag", "No"), "f": 0},
        {"a": 7, "b": -16, "c": E("Mode", "Fault"), "d": -4096, "e": E("Flag", "Yes"), "f": 127},
        {"a": 7, "b": 15, "c": E("Mode", "Auto"), "d": 4095, "e": E("Flag", "Yes"), "f": 127},
        {"a": 1, "b": -1, "c": E("Mode", "On"), "d": -1, "e": E("Flag", "No"), "f": 1},
    ]
    for _ in range(12):
        packed.append({
            "a": rnd.randint(0, 7),
            "b": rnd.randint(-16, 15),
            "c": E("Mode", rnd.choice(modes)),
            "d": rnd.randint(-4096, 4095),
            "e": E("Flag", rnd.choice(flags)),
            "f": rnd.randint(0, 127),
        })
    for p in packed:
        add("Packed", p, enc=False)
    for _ in range(8):
        add("PackedArr", {
            "a": [rnd.randint(-4, 3) for _ in range(5)],
            "b": rnd.randint(0, 1),
            "c": [E("Mode", rnd.choice(modes)) for _ in range(3)],
            "d": rnd.randint(-64, 63),
        }, enc=False)
    add("PackedArr", {"a": [-4, 3, -1, 0, -4], "b": 1, "c": [E("Mode", "Fault")] * 3, "d": -64}, enc=False)
    return cases


DRIVER = r"""
#include <fstream>
#include <iostream>
#include <sstream>
#include <cmath>
#include <limits>
#include "fcp.h"
#include "dynamic.h"

using json = nlohmann::json;

static int failures = 0;
#define CHECK(cond, what) do { if (!(cond)) { failures++; std::cerr << "FAIL: " << what << std::endl; } } while (0)

static std::string slurp(const std::string& p) {
    std::ifstream f(p, std::ios::binary);
    std::stringstream ss; ss << f.rdbuf(); return ss.str();
}

int main() {
    auto bin = slurp("output.bin");
    fcp::dynamic::DynamicSchema dyn{};
    dyn.LoadBinarySchema(bin);
    fcp::StaticSchema sta{};

    // loader rejects wrong tag / version with the documented messages
    {
        auto bad = bin; bad[0] = 'x';
        fcp::dynamic::DynamicSchema d2{};
        std::string msg;
        try { d2.LoadBinarySchema(bad); } catch (const std::runtime_error& e) { msg = e.what(); }
        CHECK(msg == "Invalid schema", "bad tag: " << msg);
    }
    {
        auto bad = bin; bad[3] = static_cast<char>(bad[3] + 1);
        fcp::dynamic::DynamicSchema d2{};
        std::string msg;
        try { d2.LoadBinarySchema(bad); } catch (const std::runtime_error& e) { msg = e.what(); }
        CHECK(msg == "Invalid schema version", "bad version: " << msg);
    }
    // the file loader is the same thing
    fcp::dynamic::DynamicSchema dyn_file{};
    dyn_file.LoadBinarySchemaFromFile("output.bin");

    CHECK(!dyn.EncodeJson("NoSuchStruct", json::object()).has_value(), "dynamic unknown encode");
    CHECK(!sta.EncodeJson("NoSuchStruct", json::object()).has_value(), "static unknown encode");
    CHECK(!dyn.DecodeJson("NoSuchStruct", {1, 2, 3}).has_value(), "dynamic unknown decode");
    CHECK(!sta.DecodeJson("NoSuchStruct", {1, 2, 3}).has_value(), "static unknown decode");

    // bit buffer: every width 1..64 at every bit offset 0..7, signed and unsigned,
    // against an independent reference; PushWord/GetWord round trip
    {
        std::uint64_t seed = 0x9E3779B97F4A7C15ULL;
        auto next = [&seed]() { seed ^= seed << 13; seed ^= seed >> 7; seed ^= seed << 17; return seed; };
        for (unsigned width = 1; width <= 64; width++) {
            for (unsigned offset = 0; offset < 8; offset++) {
                for (int rep = 0; rep < 6; rep++) {
                    std::uint64_t raw = rep == 0 ? 0 : rep == 1 ? ~0ULL : rep == 2 ? (1ULL << (width - 1)) : next();
                    std::uint64_t field = width == 64 ? raw : (raw & ((1ULL << width) - 1));
                    fcp::Buffer w{0};
                    if (offset > 0) { w.PushWord(next(), offset); }
                    w.PushWord(field, width);
                    w.PushWord(next(), 5);
                    auto bytes = w.GetData();
                    CHECK(bytes.size() == (offset + width + 5 + 7) / 8, "buffer size w=" << width << " o=" << offset);
                    // reference read straight from the bytes
                    std::uint64_t ref = 0;
                    for (unsigned i = 0; i < width; i++) {
                        unsigned bit = offset + i;
                        ref |= static_cast<std::uint64_t>((bytes[bit >> 3] >> (bit & 7)) & 1) << i;
                    }
                    CHECK(ref == field, "push w=" << width << " o=" << offset);
                    std::int64_t sref = static_cast<std::int64_t>(ref);
                    if (width < 64 && ((ref >> (width - 1)) & 1)) {
                        sref = static_cast<std::int64_t>(static_cast<__int128>(ref) - (static_cast<__int128>(1) << width));
                    }
                    fcp::Buffer ru{bytes.begin(), bytes.end()};
                    if (offset > 0) { ru.GetWord(offset); }
                    CHECK(ru.GetWord(width) == ref, "unsigned read w=" << width << " o=" << offset);
                    fcp::Buffer rs{bytes.begin(), bytes.end()};
                    if (offset > 0) { rs.GetWord(offset, true); }
                    auto got = rs.GetWord(width, true);
                    CHECK(static_cast<std::int64_t>(got) == sref, "signed read w=" << width << " o=" << offset << " got " << got << " ref " << sref);
                    CHECK(rs.GetWord(5) == ru.GetWord(5), "cursor after read w=" << width << " o=" << offset);
                }
            }
        }
    }

    auto cases = json::parse(slurp("cases.json"));
    int n = 0;
    for (int round = 0; round < 2; round++) {
        for (const auto& c : cases) {
            std::string name = c["struct"];
            std::vector<std::uint8_t> bytes = c["bytes"].get<std::vector<std::uint8_t>>();
            json js = c["static"], jd = c["dynamic"];
            std::string tag = name + " #" + std::to_string(c["index"].get<int>());

            if (c["encode"].get<bool>()) {
                auto es = sta.EncodeJson(name, js);
                auto ed = dyn.EncodeJson(name, jd);
                auto ef = dyn_file.EncodeJson(name, jd);
                CHECK(es.has_value() && ed.has_value() && ef.has_value(), tag << " encode has value");
                if (es.has_value() && ed.has_value() && ef.has_value()) {
                    CHECK(es.value() == ed.value(), tag << " static bytes != dynamic bytes: " << json(es.value()) << " vs " << json(ed.value()));
                    CHECK(ed.value() == bytes, tag << " dynamic bytes != python bytes: " << json(ed.value()) << " vs " << json(bytes));
                    CHECK(ef.value() == ed.value(), tag << " file-loaded schema differs");
                }
            }
            auto ds = sta.DecodeJson(name, bytes);
            auto dd = dyn.DecodeJson(name, bytes);
            CHECK(ds.has_value() && dd.has_value(), tag << " decode has value");
            if (ds.has_value() && dd.has_value()) {
                CHECK(ds.value() == js, tag << " static decode: " << ds.value() << " expected " << js);
                CHECK(dd.value() == jd, tag << " dynamic decode: " << dd.value() << " expected " << jd);
            }
            n++;
        }
    }
    std::cout << "cases " << n << " failures " << failures << std::endl;
    return failures == 0 ? 0 : 1;
}
"""


def generate(fcp_v2, outdir):
    for result in Generator().generate(fcp_v2, {"output": str(outdir)}):
        assert result["type"] == "file"
        (outdir / Path(result["path"]).name).write_text(str(result["contents"]))


def main():
    work = Path(tempfile.mkdtemp(prefix="c13-demo-"))
    try:
        (work / "schema.fcp").write_text(SCHEMA)
        fcp_v2 = get_fcp(work / "schema.fcp").unwrap()
        reflection_schema = get_reflection_schema().unwrap()
        binary = py_encode(reflection_schema, "Fcp", fcp_v2.reflection())
        assert bytes(binary[:3]) == b"fcp"
        # the reflection binary is deterministic
        assert binary == py_encode(reflection_schema, "Fcp", fcp_v2.reflection())
        (work / "output.bin").write_bytes(bytes(binary))
        # ... and the Python codec reads its own reflection binary back
        reflected = py_decode(reflection_schema, "Fcp", binary)
        assert reflected["tag"] == [0x66, 0x63, 0x70]
        assert reflected["version"] == 3000
        assert [s["name"] for s in reflected["structs"]] == [s.name for s in fcp_v2.structs]
        assert [e["name"] for e in reflected["enums"]] == [e.name for e in fcp_v2.enums]
        for got, want in zip(reflected["structs"], fcp_v2.reflection()["structs"]):
            assert [f["type"] for f in got["fields"]] == [f["type"] for f in want["fields"]], got["name"]
            assert [f["field_id"] for f in got["fields"]] == sorted(f["field_id"] for f in want["fields"])
        # unknown type objects are rejected by the Python encoder
        try:
            fcp_serde._encode(fcp_serde._Buffer(), fcp_v2, "not a type", 1)
            raise AssertionError("expected ValueError")
        except ValueError as e:
            assert str(e) == "Unmatched type not a type", str(e)

        generate(fcp_v2, work)

        cases = []
        for index, (name, value, enc) in enumerate(build_cases()):
            static_json = render(value, dynamic=False)
            cases.append(
                {
                    "index": index,
                    "struct": name,
                    "encode": enc,
                    "static": static_json,
                    "dynamic": render(value, dynamic=True),
                    "bytes": list(py_encode(fcp_v2, name, static_json)),
                }
            )
        (work / "cases.json").write_text(json.dumps(cases))
        (work / "driver.cpp").write_text(DRIVER)

        cxx = shutil.which("g++") or shutil.which("clang++")
        subprocess.run(
            [cxx, "-std=c++17", "-O0", "-w", "-isystem", JSON_INCLUDE, "-I", str(work), "driver.cpp", "-o", "driver"],
            cwd=work,
            check=True,
        )
        out = subprocess.run(["./driver"], cwd=work, capture_output=True, text=True)
        sys.stdout.write(out.stdout)
        sys.stderr.write(out.stderr[-4000:])
        if out.returncode != 0:
            print("FAIL")
            return 1
        # also make sure the shipped test schema still generates and reflects
        shipped = get_fcp(FCP_ROOT / "plugins/fcp_cpp/tests/schemas/test.fcp").unwrap()
        assert bytes(py_encode(reflection_schema, "Fcp", shipped.reflection())[:3]) == b"fcp"
        print("PASS")
        return 0
    finally:
        shutil.rmtree(work, ignore_errors=True)


if __name__ == "__main__":
    sys.exit(main())
