#!/venv/bin/python
"""Differential test for property C12: reflection is a lossless, faithful
description of the schema.

The implementation under test (found through PYTHONPATH) is compared against
three things that live only in this file:

  * an ORACLE that rebuilds the expected reflection record by walking the parsed
    AST objects attribute by attribute (it never calls any ``reflection()``),
  * a REFERENCE ENCODER for the wire format of reflection.fcp whose layout table
    is written out by hand below (little endian bit stream, fields in id order,
    u32 length prefixes, one presence byte for Optional),
  * hand written literal expectations for a schema whose values are visible in
    the source text.

Exit status 0 and the word PASS when every check holds.
"""

import io
import os
import random
import struct as pystruct
import sys
import tempfile
from pathlib import Path

FCP_ROOT = Path(os.environ.get("FCP_ROOT", "/tmp/twin-C12"))

import fcp  # noqa: E402
from fcp import serde as fcp_serde  # noqa: E402
from fcp.parser import get_fcp, get_fcp_from_string  # noqa: E402
from fcp.reflection import get_reflection_schema  # noqa: E402
from fcp.serde import encode, decode  # noqa: E402
from fcp.specs import type as T  # noqa: E402
from fcp.specs.v2 import FcpV2, encode_version  # noqa: E402
from fcp.specs.impl import Impl  # noqa: E402
from fcp.specs.signal_block import SignalBlock  # noqa: E402
from fcp.specs.struct_field import StructField  # noqa: E402
from fcp.specs.struct import Struct  # noqa: E402
from fcp.specs.metadata import MetaData  # noqa: E402

CHECKS = 0
FAILURES = []


def check(cond, what):
    global CHECKS
    CHECKS += 1
    if not cond:
        FAILURES.append(what)
        print("FAIL:", what)


def raises(fn, exc_type, what, text=None):
    try:
        fn()
    except exc_type as e:  # noqa: PERF203
        if text is not None:
            check(text in str(e), f"{what}: message {str(e)!r} lacks {text!r}")
        else:
            check(True, what)
        return e
    except BaseException as e:  # noqa: BLE001
        check(False, f"{what}: raised {type(e).__name__}({e}) instead of {exc_type.__name__}")
        return e
    check(False, f"{what}: did not raise")
    return None


# ---------------------------------------------------------------------------
# Oracle: expected record from the AST, without calling reflection()
# ---------------------------------------------------------------------------


def o_meta(m):
    if m is None:
        return None
    return {
        "line": m.line,
        "end_line": m.end_line,
        "column": m.column,
        "end_column": m.end_column,
        "start_pos": m.start_pos,
        "end_pos": m.end_pos,
        "filename": m.filename,
    }


def o_type(t):
    chain = []
    while True:
        if isinstance(t, T.ArrayType):
            chain.append({"name": "Array", "type": "Array", "size": t.size})
            t = t.underlying_type
        elif isinstance(t, T.DynamicArrayType):
            chain.append({"name": "DynamicArray", "type": "DynamicArray", "size": 1})
            t = t.underlying_type
        elif isinstance(t, T.OptionalType):
            chain.append({"name": "Optional", "type": "Optional", "size": 1})
            t = t.underlying_type
        else:
            break
    if isinstance(t, T.UnsignedType):
        chain.append({"name": t.name, "type": "unsigned", "size": 1})
    elif isinstance(t, T.SignedType):
        chain.append({"name": t.name, "type": "signed", "size": 1})
    elif isinstance(t, T.FloatType):
        chain.append({"name": "f32", "type": "float", "size": 1})
    elif isinstance(t, T.DoubleType):
        chain.append({"name": "f64", "type": "double", "size": 1})
    elif isinstance(t, T.StringType):
        chain.append({"name": "str", "type": "str", "size": 1})
    elif isinstance(t, T.EnumType):
        chain.append({"name": t.name, "type": "Enum", "size": 1})
    elif isinstance(t, T.StructType):
        chain.append({"name": t.name, "type": "Struct", "size": 1})
    else:
        raise AssertionError(f"oracle: unknown type {t!r}")
    return chain


def o_kv(d):
    return [{"name": k, "value": str(v)} for k, v in d.items()]


def oracle(ast):
    structs = []
    for s in ast.structs:
        order = sorted(range(len(s.fields)), key=lambda i: (s.fields[i].field_id, i))
        fields = []
        for i in order:
            f = s.fields[i]
            fields.append(
                {
                    "name": f.name,
                    "field_id": f.field_id,
                    "type": o_type(f.type),
                    "unit": f.unit,
                    "min_value": f.min_value,
                    "max_value": f.max_value,
                    "meta": o_meta(f.meta),
                }
            )
        structs.append({"name": s.name, "fields": fields, "meta": o_meta(s.meta)})
    enums = [
        {
            "name": e.name,
            "enumeration": [
                {"name": v.name, "value": v.value, "meta": o_meta(v.meta)}
                for v in e.enumeration
            ],
            "meta": o_meta(e.meta),
        }
        for e in ast.enums
    ]
    impls = [
        {
            "name": i.name,
            "protocol": i.protocol,
            "type": i.type,
            "fields": o_kv(i.fields),
            "signals": [
                {"name": sb.name, "fields": o_kv(sb.fields), "meta": o_meta(sb.meta)}
                for sb in i.signals
            ],
            "meta": o_meta(i.meta),
        }
        for i in ast.impls
    ]
    services = [
        {
            "name": s.name,
            "id": s.id,
            "methods": [
                {
                    "name": m.name,
                    "id": m.id,
                    "input": m.input,
                    "output": m.output,
                    "meta": o_meta(m.meta),
                }
                for m in s.methods
            ],
            "meta": o_meta(s.meta),
        }
        for s in ast.services
    ]
    major, minor = ast.version.split(".")
    return {
        "tag": [ord("f"), ord("c"), ord("p")],
        "version": int(major) * 1000 + int(minor),
        "structs": structs,
        "enums": enums,
        "impls": impls,
        "services": services,
    }


# ---------------------------------------------------------------------------
# Reference encoder for reflection.fcp (layout written out by hand)
# ---------------------------------------------------------------------------

LAYOUT = {
    "MetaData": [
        ("line", "i32"), ("end_line", "i32"), ("column", "i32"), ("end_column", "i32"),
        ("start_pos", "i32"), ("end_pos", "i32"), ("filename", "str"),
    ],
    "Type": [("name", "str"), ("size", "u32"), ("type", "str")],
    "StructField": [
        ("name", "str"), ("field_id", "u32"), ("type", ("list", "Type")),
        ("unit", ("opt", "str")), ("min_value", ("opt", "f64")),
        ("max_value", ("opt", "f64")), ("meta", ("opt", "MetaData")),
    ],
    "Struct": [("name", "str"), ("fields", ("list", "StructField")), ("meta", ("opt", "MetaData"))],
    "Enumeration": [("name", "str"), ("value", "i32"), ("meta", ("opt", "MetaData"))],
    "Enum": [("name", "str"), ("enumeration", ("list", "Enumeration")), ("meta", ("opt", "MetaData"))],
    "DictField": [("name", "str"), ("value", "str")],
    "SignalBlock": [("name", "str"), ("fields", ("list", "DictField")), ("meta", ("opt", "MetaData"))],
    "Impl": [
        ("name", "str"), ("protocol", "str"), ("type", "str"),
        ("fields", ("list", "DictField")), ("signals", ("list", "SignalBlock")),
        ("meta", ("opt", "MetaData")),
    ],
    "Method": [("name", "str"), ("id", "u32"), ("input", "str"), ("output", "str"), ("meta", ("opt", "MetaData"))],
    "Service": [("name", "str"), ("id", "u32"), ("methods", ("list", "Method")), ("meta", ("opt", "MetaData"))],
    "Fcp": [
        ("tag", ("arr", "u8", 3)), ("version", "u16"), ("structs", ("list", "Struct")),
        ("enums", ("list", "Enum")), ("impls", ("list", "Impl")), ("services", ("list", "Service")),
    ],
}


def ref_encode(kind, value, out):
    if isinstance(kind, tuple):
        if kind[0] == "list":
            out += pystruct.pack("<I", len(value))
            for v in value:
                ref_encode(kind[1], v, out)
        elif kind[0] == "opt":
            if value is None:
                out.append(0)
            else:
                out.append(1)
                ref_encode(kind[1], value, out)
        elif kind[0] == "arr":
            for i in range(kind[2]):
                ref_encode(kind[1], value[i], out)
        return
    if kind == "str":
        out += pystruct.pack("<I", len(value))
        out += bytes(ord(c) & 0xFF for c in value)
    elif kind == "u8":
        out.append(value & 0xFF)
    elif kind == "u16":
        out += pystruct.pack("<H", value & 0xFFFF)
    elif kind == "u32":
        out += pystruct.pack("<I", value & 0xFFFFFFFF)
    elif kind == "i32":
        out += pystruct.pack("<I", value & 0xFFFFFFFF)
    elif kind == "f64":
        out += pystruct.pack("<d", value)
    else:
        for name, k in LAYOUT[kind]:
            ref_encode(k, value[name], out)


def ref_bytes(record):
    out = bytearray()
    ref_encode("Fcp", record, out)
    return out


# ---------------------------------------------------------------------------
# Schemas
# ---------------------------------------------------------------------------

LITERAL = '''version: "3"

enum Mode { Idle = 0, Run = 1, Fault = 7, }

struct Inner {
    x @0: i16 | unit("mV") | range(-12.5, 99.75),
    y @1: f32,
}

struct Outer {
    last @5: [Optional[[Mode, 3]]],
    first @0: u8 | unit("C"),
    mid @2: Inner,
    txt @1: str | range(0.0, 1.0),
    opt @3: Optional[Inner],
    mat @4: [[f64, 2], 4],
}

impl can for Outer as OuterCan {
    id: 513,
    label: "hello world",
    list: [1, 2, foo],
    ratio: -0.25,
    signal first { bitstart: 0, bitlength: 8, scale: 0.5, endianness: "little", },
    signal mid { mux: first, },
}

impl can for Inner {
    id: 7,
}

service Ctl @3 {
    method Get(Inner) @0 returns Outer,
    method Set(Outer) @9 returns Inner,
}

service Empty2 @4 {
    method Ping(Inner) @1 returns Inner,
}

device ecu { services: [Ctl], rpc_get_id: 1, }
'''

FIXED = [
    'version: "3"\n',
    'version: "3"\nstruct A { a @0: u1, }\n',
    'version: "3"\nenum E { A = 0, }\n',
    'version: "3"\nenum E { A = -3, B = 2147483647, C = -2147483647, }\nstruct S { e @0: E, }\n',
    'version: "3"\nstruct A { a @0: u64, b @1: i64, c @2: f64, d @3: f32, e @4: str, }\n',
    'version: "3"\nstruct A { a @3: u8, b @1: u8, c @2: u8, d @0: u8, }\n',
    'version: "3"\nstruct A { a @0: Optional[Optional[[[[u7, 2], 3]]]], }\n',
    'version: "3"\nstruct A { a @0: u8 | unit(""), b @1: f64 | range(-1.7976931348623157e308, 1.7976931348623157e308), c @2: u8 | range(0.0, 0.0), }\n',
    'version: "3"\nstruct A { a @0: u8, }\nimpl p for A { signal a { k: "", }, }\n',
    'version: "3"\nstruct A { a @0: u8, }\nimpl p for A as B { k: 1, }\nimpl q for A as C { k: [a, [b, 1]], signal a { z: -1, y: 2.5, }, signal a { z: 3, }, }\n',
    'version: "3"\nstruct A { a @0: u8, }\nstruct B { a @0: A, b @1: [A, 2], c @2: [A], d @3: Optional[A], }\nservice S @0 { method M(A) @0 returns B, }\nservice S2 @65535 { method M(B) @4294967295 returns A, method N(A) @1 returns A, }\n',
    'version: "3"\n/* c */ struct A { // x\n a @0 : u8 ,\n }\n\n\n\tstruct   B{b@4294967295:i8|unit("long unit with spaces / and % signs")|range(1.5,2.5),}\n',
]


def random_schema(rng):
    lines = ['version: "3"', ""]
    enums, structs = [], []
    prims = ["u1", "u7", "u8", "u13", "u32", "u64", "i2", "i8", "i16", "i31", "i64", "f32", "f64", "str"]

    def rtype(depth):
        r = rng.random()
        if depth < 3 and r < 0.15:
            return f"[{rtype(depth + 1)}, {rng.choice([1, 2, 3, 17, 255])}]"
        if depth < 3 and r < 0.30:
            return f"[{rtype(depth + 1)}]"
        if depth < 3 and r < 0.45:
            return f"Optional[{rtype(depth + 1)}]"
        if r < 0.60 and enums:
            return rng.choice(enums)
        if r < 0.75 and structs:
            return rng.choice(structs)
        return rng.choice(prims)

    def rvalue(depth=0):
        r = rng.random()
        if r < 0.3:
            return str(rng.choice([0, 1, -1, 255, 2**31, -(2**40), rng.randrange(-1000, 1000)]))
        if r < 0.45:
            return repr(rng.choice([0.5, -2.25, 1e10, 3.0, 1e-7]))
        if r < 0.65:
            return '"' + "".join(rng.choice("abc XYZ09_-+/%.,:;()[]{}'") for _ in range(rng.randrange(0, 9))) + '"'
        if r < 0.8:
            return rng.choice(["little", "big", "foo_bar", "x1"])
        if depth < 2:
            return "[" + ", ".join(rvalue(depth + 1) for _ in range(rng.randrange(1, 4))) + "]"
        return "7"

    n_items = rng.randrange(1, 7)
    for k in range(n_items):
        if rng.random() < 0.35:
            name = f"En{k}"
            vals = rng.sample(range(-5, 300), rng.randrange(1, 6))
            body = " ".join(f"V{j} = {v}," for j, v in enumerate(vals))
            lines.append(f"enum {name} {{ {body} }}")
            enums.append(name)
        else:
            name = f"St{k}"
            nf = rng.randrange(1, 6)
            ids = rng.sample(range(0, 40), nf)
            flds = []
            for j, fid in enumerate(ids):
                decl = f"    f{j} @{fid}: {rtype(0)}"
                if rng.random() < 0.4:
                    decl += ' | unit("' + rng.choice(["", "C", "m/s", "kg m^2", "%"]) + '")'
                if rng.random() < 0.4:
                    lo = rng.choice([-1e9, -1.5, 0.0, 2.0])
                    decl += f" | range({lo!r}, {lo + rng.choice([0.0, 0.5, 1e6])!r})"
                flds.append(decl + ",")
            lines.append(f"struct {name} {{")
            lines += flds
            lines.append("}")
            structs.append((name, nf))
            structs[-1] = name
            # binding(s) for this struct
            for b in range(rng.randrange(0, 3)):
                lines.append(f"impl {rng.choice(['can', 'udp', 'p2'])} for {name} as {name}B{b} {{")
                for e in range(rng.randrange(0, 4)):
                    lines.append(f"    k{e}: {rvalue()},")
                nsig = rng.randrange(0, 3)
                if nsig == 0 and lines[-1].endswith("{"):
                    lines.append("    id: 1,")
                for s in range(nsig):
                    kv = " ".join(f"s{q}: {rvalue()}," for q in range(rng.randrange(1, 4)))
                    lines.append(f"    signal f{rng.randrange(0, nf)} {{ {kv} }},")
                lines.append("}")
    if structs:
        for k in range(rng.randrange(0, 3)):
            lines.append(f"service Sv{k} @{rng.randrange(0, 70000)} {{")
            for m in range(rng.randrange(1, 4)):
                lines.append(
                    f"    method M{m}({rng.choice(structs)}) @{rng.randrange(0, 300)} returns {rng.choice(structs)},"
                )
            lines.append("}")
    return "\n".join(lines) + "\n"


# ---------------------------------------------------------------------------
# The property, checked on one AST
# ---------------------------------------------------------------------------

RS = get_reflection_schema().unwrap()


def check_ast(ast, label):
    snapshot = repr(ast)
    record = ast.reflection()
    expected = oracle(ast)
    check(record == expected, f"{label}: reflection() differs from oracle")
    check(list(record) == ["tag", "version", "structs", "enums", "impls", "services"], f"{label}: top level keys/order")
    again = ast.reflection()
    check(again == record and again is not record, f"{label}: second reflection() call differs")
    check(again["tag"] is not record["tag"], f"{label}: tag list shared between calls")
    check(repr(ast) == snapshot, f"{label}: reflection() mutated the AST")

    wire = encode(RS, "Fcp", record)
    check(isinstance(wire, bytearray), f"{label}: encode() result type")
    ref = ref_bytes(expected)
    check(bytes(wire) == bytes(ref), f"{label}: wire bytes differ from reference encoder")
    check(bytes(encode(RS, "Fcp", record)) == bytes(wire), f"{label}: encode() not repeatable")

    back = decode(RS, "Fcp", wire)
    check(back == record, f"{label}: decode(encode(record)) != record")
    check(back == expected, f"{label}: decode(encode(record)) != oracle")
    check(bytes(encode(RS, "Fcp", back)) == bytes(wire), f"{label}: re-encoding the decoded record changes bytes")
    check(decode(RS, "Fcp", bytearray(wire) + bytearray(b"\xff\x00\xaa")) == record, f"{label}: trailing bytes disturb decode")
    if len(wire) > 9:
        raises(lambda: decode(RS, "Fcp", wire[:-1]), ValueError, f"{label}: truncated buffer", "buffer overrrun")
    return record, wire


def parse(src, label):
    r = get_fcp_from_string(src)
    check(r.is_ok(), f"{label}: schema rejected: {r.err() if r.is_err() else ''}")
    return r.unwrap()


def section_generic():
    n = 0
    for i, src in enumerate([LITERAL] + FIXED):
        check_ast(parse(src, f"fixed[{i}]"), f"fixed[{i}]")
        n += 1
    rng = random.Random(0xC12)
    for i in range(int(os.environ.get("C12_RANDOM", "40"))):
        src = random_schema(rng)
        r = get_fcp_from_string(src)
        if r.is_err():
            check(False, f"random[{i}] rejected: {r.err()}\n{src}")
            continue
        check_ast(r.unwrap(), f"random[{i}]")
        n += 1
    files = sorted((FCP_ROOT / "tests" / "schemas" / "syntax").glob("*.fcp"))
    files += [FCP_ROOT / "example" / "example.fcp", FCP_ROOT / "example" / "temperature.fcp"]
    files += [FCP_ROOT / "src" / "fcp" / "reflection" / "reflection.fcp"]
    check(len(files) >= 12, "repository schemas found")
    for f in files:
        r = get_fcp(str(f))
        check(r.is_ok(), f"{f.name}: rejected")
        if r.is_ok():
            check_ast(r.unwrap(), f"file {f.name}")
            n += 1
    # the reflection schema describes itself
    rec, _ = check_ast(RS, "reflection schema (self description)")
    check([s["name"] for s in rec["structs"]] == list(LAYOUT), "self description lists the 12 reflection structs in order")
    for s in rec["structs"]:
        check([f["name"] for f in s["fields"]] == [n_ for n_, _ in LAYOUT[s["name"]]], f"self description field order of {s['name']}")
    return n


def section_literal():
    """Values that are visible in the LITERAL source text."""
    rec, wire = check_ast(parse(LITERAL, "literal"), "literal")
    check(rec["tag"] == [0x66, 0x63, 0x70] and rec["version"] == 3000, "literal: tag/version")
    check(bytes(wire[:5]) == b"fcp\xb8\x0b", "literal: wire starts with tag and version 3000")
    st = {s["name"]: s for s in rec["structs"]}
    check(list(st) == ["Inner", "Outer"], "literal: struct list")
    outer = st["Outer"]["fields"]
    check([f["name"] for f in outer] == ["first", "txt", "mid", "opt", "mat", "last"], "literal: fields in id order")
    check([f["field_id"] for f in outer] == [0, 1, 2, 3, 4, 5], "literal: field ids")
    by = {f["name"]: f for f in outer}
    check(by["first"]["unit"] == "C" and by["first"]["min_value"] is None and by["first"]["max_value"] is None, "literal: first unit/range")
    check(by["txt"]["unit"] is None and by["txt"]["min_value"] == 0.0 and by["txt"]["max_value"] == 1.0, "literal: txt range")
    check(by["first"]["type"] == [{"name": "u8", "type": "unsigned", "size": 1}], "literal: u8 chain")
    check(by["txt"]["type"] == [{"name": "str", "type": "str", "size": 1}], "literal: str chain")
    check(by["mid"]["type"] == [{"name": "Inner", "type": "Struct", "size": 1}], "literal: struct chain")
    check(by["opt"]["type"] == [{"name": "Optional", "type": "Optional", "size": 1}, {"name": "Inner", "type": "Struct", "size": 1}], "literal: optional chain")
    check(
        by["mat"]["type"]
        == [
            {"name": "Array", "type": "Array", "size": 4},
            {"name": "Array", "type": "Array", "size": 2},
            {"name": "f64", "type": "double", "size": 1},
        ],
        "literal: nested array chain (outer size first)",
    )
    check(
        by["last"]["type"]
        == [
            {"name": "DynamicArray", "type": "DynamicArray", "size": 1},
            {"name": "Optional", "type": "Optional", "size": 1},
            {"name": "Array", "type": "Array", "size": 3},
            {"name": "Mode", "type": "Enum", "size": 1},
        ],
        "literal: dyn/opt/array/enum chain",
    )
    inner = {f["name"]: f for f in st["Inner"]["fields"]}
    check(inner["x"]["unit"] == "mV" and inner["x"]["min_value"] == -12.5 and inner["x"]["max_value"] == 99.75, "literal: Inner.x unit/range")
    check(inner["x"]["type"] == [{"name": "i16", "type": "signed", "size": 1}], "literal: i16 chain")
    check(inner["y"]["type"] == [{"name": "f32", "type": "float", "size": 1}], "literal: f32 chain")
    check(inner["x"]["meta"]["line"] == 6 and inner["x"]["meta"]["filename"] == "main.fcp", "literal: meta of Inner.x")
    en = rec["enums"]
    check(len(en) == 1 and en[0]["name"] == "Mode", "literal: enum list")
    check([(e["name"], e["value"]) for e in en[0]["enumeration"]] == [("Idle", 0), ("Run", 1), ("Fault", 7)], "literal: enumerators")
    im = rec["impls"]
    check([(i["name"], i["protocol"], i["type"]) for i in im] == [("Inner", "default", "Inner"), ("Outer", "default", "Outer"), ("OuterCan", "can", "Outer"), ("Inner", "can", "Inner")], "literal: impl list")
    check(im[0]["fields"] == [] and im[0]["signals"] == [], "literal: default impl is empty")
    check(
        im[2]["fields"]
        == [
            {"name": "id", "value": "513"},
            {"name": "label", "value": "hello world"},
            {"name": "list", "value": "[1, 2, 'foo']"},
            {"name": "ratio", "value": "-0.25"},
        ],
        "literal: extension fields",
    )
    check(
        [(s["name"], s["fields"]) for s in im[2]["signals"]]
        == [
            ("first", [{"name": "bitstart", "value": "0"}, {"name": "bitlength", "value": "8"}, {"name": "scale", "value": "0.5"}, {"name": "endianness", "value": "little"}]),
            ("mid", [{"name": "mux", "value": "first"}]),
        ],
        "literal: signal blocks",
    )
    check(all(s["meta"] is not None and s["meta"]["line"] in (24, 25) for s in im[2]["signals"]), "literal: signal block meta")
    check(im[3]["fields"] == [{"name": "id", "value": "7"}] and im[3]["signals"] == [], "literal: second binding")
    sv = rec["services"]
    check([(s["name"], s["id"]) for s in sv] == [("Ctl", 3), ("Empty2", 4)], "literal: services")
    check([(m["name"], m["id"], m["input"], m["output"]) for m in sv[0]["methods"]] == [("Get", 0, "Inner", "Outer"), ("Set", 9, "Outer", "Inner")], "literal: methods")


def section_handbuilt():
    """ASTs built by hand: nodes without metadata, insertion order of dicts, ties."""
    ast = FcpV2(
        structs=[
            Struct(
                name="S",
                fields=[
                    StructField("b", 1, T.OptionalType(T.ArrayType(T.DynamicArrayType(T.StringType()), 5))),
                    StructField("a", 0, T.UnsignedType("u3"), unit="x", min_value=-0.0, max_value=1e300),
                    StructField("a2", 0, T.SignedType("i3")),
                    StructField("d", 7, T.DoubleType(), min_value=float("inf"), max_value=float("-inf")),
                ],
            )
        ],
        impls=[
            Impl("I", "p", "S", {"z": 1, "a": None, "m": {"q": [1, "2"]}, "": ""}, [
                SignalBlock("b", {"z": 0, "y": (1, 2)}, MetaData(1, 2, 3, 4, 5, 6, "f.fcp")),
                SignalBlock("a", {}, MetaData(0, 0, 0, 0, 0, 0, "")),
            ]),
            Impl("J", "", "", {}, []),
        ],
    )
    rec, _ = check_ast(ast, "handbuilt")
    check([f["name"] for f in rec["structs"][0]["fields"]] == ["a", "a2", "b", "d"], "handbuilt: stable id order with a tie")
    check(rec["structs"][0]["meta"] is None and rec["impls"][1]["meta"] is None, "handbuilt: missing meta is None")
    check(
        rec["impls"][0]["fields"]
        == [{"name": "z", "value": "1"}, {"name": "a", "value": "None"}, {"name": "m", "value": "{'q': [1, '2']}"}, {"name": "", "value": ""}],
        "handbuilt: extension fields keep insertion order and use str()",
    )
    check(rec["impls"][0]["signals"][0]["fields"] == [{"name": "z", "value": "0"}, {"name": "y", "value": "(1, 2)"}], "handbuilt: signal fields")
    check(rec["impls"][0]["signals"][1]["fields"] == [], "handbuilt: empty signal block")
    check(
        rec["structs"][0]["fields"][2]["type"]
        == [
            {"name": "Optional", "type": "Optional", "size": 1},
            {"name": "Array", "type": "Array", "size": 5},
            {"name": "DynamicArray", "type": "DynamicArray", "size": 1},
            {"name": "str", "type": "str", "size": 1},
        ],
        "handbuilt: opt/array/dyn/str chain",
    )
    for t in [T.UnsignedType("u8"), T.ArrayType(T.OptionalType(T.EnumType("E")), 2), T.StructType("Q"), T.FloatType()]:
        a, b = t.reflection(), t.reflection()
        check(a == b == o_type(t) and a is not b and isinstance(a, list), f"type {t!r}: fresh equal lists")
        check(all(list(e) == ["name", "type", "size"] for e in a), f"type {t!r}: entry key order")
        a.append("junk")
        a[0]["name"] = "junk"
        check(t.reflection() == o_type(t), f"type {t!r}: caller mutation leaks into later calls")


def section_errors():
    raises(lambda: T.Type().reflection(), ValueError, "Type().reflection()", "Don't use Type directly")
    raises(lambda: T.ArrayType(T.Type(), 2).reflection(), ValueError, "Array of abstract Type", "Don't use Type directly")
    raises(lambda: T.OptionalType(T.DynamicArrayType(T.Type())).reflection(), ValueError, "Optional[Dyn[abstract]]", "Don't use Type directly")
    raises(lambda: StructField("a", 0, T.Type()).reflection(), ValueError, "field of abstract Type", "Don't use Type directly")
    raises(lambda: encode_version("3"), ValueError, "encode_version('3')")
    raises(lambda: encode_version("1.2.3"), ValueError, "encode_version('1.2.3')")
    raises(lambda: encode_version("a.b"), ValueError, "encode_version('a.b')")
    check(encode_version("3.0") == 3000 and encode_version("12.34") == 12034 and encode_version("0.0") == 0, "encode_version values")
    bad = FcpV2(version="x")
    raises(lambda: bad.reflection(), ValueError, "reflection() with a malformed version")
    ok = FcpV2(version="2.5")
    check(ok.reflection() == {"tag": [102, 99, 112], "version": 2005, "structs": [], "enums": [], "impls": [], "services": []}, "empty AST, version 2.5")

    rec = parse(LITERAL, "errors").reflection()
    for key in ["tag", "version", "structs", "enums", "impls", "services"]:
        broken = {k: v for k, v in rec.items() if k != key}
        e = raises(lambda: encode(RS, "Fcp", broken), KeyError, f"encode without '{key}'")
        check(e is not None and e.args == (key,), f"encode without '{key}': KeyError argument")
    e1 = raises(lambda: encode(RS, "Nope", rec), Exception, "encode with unknown struct name")
    e2 = raises(lambda: decode(RS, "Nope", bytearray(4)), Exception, "decode with unknown struct name")
    check(type(e1) is type(e2) and type(e1).__name__ == "UnwrapError", f"unknown struct error type ({type(e1).__name__}/{type(e2).__name__})")
    raises(lambda: decode(RS, "Fcp", bytearray()), ValueError, "decode of empty buffer", "buffer overrrun")
    raises(lambda: decode(RS, "Fcp", bytearray(b"fcp\xb8\x0b\x01\x00\x00")), ValueError, "decode of short buffer", "buffer overrrun")
    # a length prefix that points past the end
    raises(lambda: decode(RS, "Fcp", bytearray(b"fcp\xb8\x0b\xff\xff\xff\x7f" + b"\0" * 16)), ValueError, "huge count, short buffer", "buffer overrrun")

    class Alien:
        def __repr__(self):
            return "<alien>"

    buf = fcp_serde._Buffer()
    raises(lambda: fcp_serde._encode(buf, RS, Alien(), 1), ValueError, "_encode with unknown type", "Unmatched type <alien>")
    raises(lambda: fcp_serde._encode(buf, RS, T.Type(), 1), ValueError, "_encode with abstract Type", "Unmatched type ")
    check(buf.buffer == [] and buf.bitaddr == 0, "failed _encode leaves the buffer untouched")
    e = raises(lambda: fcp_serde._decode(buf, RS, Alien()), ValueError, "_decode with unknown type")
    check(e is not None and str(e) == "Unmatched type", "_decode unknown type message")
    raises(lambda: fcp_serde._decode(buf, RS, T.Type()), ValueError, "_decode with abstract Type", "Unmatched type")
    # NumericType itself is not encodable (only its four concrete subclasses are)
    nt = T.NumericType()
    nt.name, nt.type = "u8", "unsigned"
    raises(lambda: fcp_serde._encode(buf, RS, nt, 1), ValueError, "_encode with bare NumericType", "Unmatched type")
    raises(lambda: fcp_serde._decode(buf, RS, nt), ValueError, "_decode with bare NumericType", "Unmatched type")
    # unknown enum / struct names inside types
    raises(lambda: fcp_serde._encode(buf, RS, T.EnumType("NoSuchEnum"), 1), Exception, "_encode with unknown enum")
    raises(lambda: fcp_serde._encode(buf, RS, T.StructType("NoSuchStruct"), {}), Exception, "_encode with unknown struct")

    # subclasses of the concrete types are dispatched like their parents
    class MyU(T.UnsignedType):
        pass

    class MyOpt(T.OptionalType):
        pass

    b1, b2 = fcp_serde._Buffer(), fcp_serde._Buffer()
    fcp_serde._encode(b1, RS, MyOpt(MyU("u12")), 0xABC)
    fcp_serde._encode(b2, RS, T.OptionalType(T.UnsignedType("u12")), 0xABC)
    check(b1.buffer == b2.buffer == [1, 0xBC, 0x0A] and b1.bitaddr == 20, "subclassed types encode like their parents")
    b1.bitaddr = 0
    check(fcp_serde._decode(b1, RS, MyOpt(MyU("u12"))) == 0xABC, "subclassed types decode like their parents")


def section_cli():
    from click.testing import CliRunner
    from fcp.__main__ import encode as encode_cmd, main as main_cmd

    refl_path = str(FCP_ROOT / "src" / "fcp" / "reflection" / "reflection.fcp")
    with tempfile.TemporaryDirectory() as d:
        src = Path(d) / "lit.fcp"
        src.write_text(LITERAL)
        out = Path(d) / "out.bin"
        res = CliRunner().invoke(encode_cmd, [refl_path, str(src), str(out)])
        check(res.exit_code == 0 and res.output == "", f"cli encode: exit {res.exit_code}, output {res.output!r}, exc {res.exception!r}")
        ast = get_fcp(str(src)).unwrap()
        check(out.exists() and out.read_bytes() == bytes(ref_bytes(oracle(ast))), "cli encode: file bytes equal the reference encoding")
        check(decode(RS, "Fcp", bytearray(out.read_bytes())) == ast.reflection(), "cli encode: file decodes to the record")
        out2 = Path(d) / "out2.bin"
        res = CliRunner().invoke(main_cmd, ["encode", refl_path, str(FCP_ROOT / "example" / "example.fcp"), str(out2)])
        ex = get_fcp(str(FCP_ROOT / "example" / "example.fcp")).unwrap()
        check(res.exit_code == 0 and out2.read_bytes() == bytes(ref_bytes(oracle(ex))), "cli encode through the group: example.fcp")
        # data schema that does not parse: an error is printed, nothing is written
        badsrc = Path(d) / "bad.fcp"
        badsrc.write_text('version: "3"\nstruct A { a @0: Missing, }\n')
        out3 = Path(d) / "out3.bin"
        res = CliRunner().invoke(encode_cmd, [refl_path, str(badsrc), str(out3)])
        check(res.exit_code == 0 and not out3.exists() and "Missing" in res.output, f"cli encode: bad data schema ({res.output[:80]!r})")
        # schema argument that does not parse: same
        out4 = Path(d) / "out4.bin"
        res = CliRunner().invoke(encode_cmd, [str(badsrc), str(src), str(out4)])
        check(res.exit_code == 0 and not out4.exists() and "Missing" in res.output, "cli encode: bad reflection schema argument")
        # a schema argument without an 'Fcp' struct: the command fails, nothing is written
        out5 = Path(d) / "out5.bin"
        res = CliRunner().invoke(encode_cmd, [str(src), str(src), str(out5)])
        check(res.exit_code != 0 and not out5.exists() and type(res.exception).__name__ == "UnwrapError", f"cli encode: schema without Fcp struct ({res.exception!r})")


def section_reflection_schema():
    a = get_reflection_schema()
    b = get_reflection_schema()
    check(a.is_ok() and b.is_ok(), "get_reflection_schema() is Ok")
    check(a.unwrap() is not b.unwrap(), "get_reflection_schema() returns an independent AST per call")
    check(repr(a.unwrap()) == repr(b.unwrap()), "get_reflection_schema() repeatable")
    check([s.name for s in a.unwrap().structs] == list(LAYOUT), "reflection schema struct names")
    # damaging one copy must not influence later calls
    a.unwrap().structs.clear()
    c = get_reflection_schema().unwrap()
    check([s.name for s in c.structs] == list(LAYOUT), "mutating a returned schema does not leak")


def main(extra_sections=()):
    print("fcp package:", os.path.dirname(fcp.__file__))
    n = section_generic()
    section_literal()
    section_handbuilt()
    section_errors()
    section_cli()
    section_reflection_schema()
    for s in extra_sections:
        s()
    print(f"{n} schemas, {CHECKS} checks, {len(FAILURES)} failures")
    if FAILURES:
        print("FAIL")
        return 1
    print("PASS")
    return 0


def section_focus_decode_dispatch():
    """Focus of this twin: type dispatch inside fcp.serde._decode."""
    src = '''version: "3"
enum Small { A = 0, B = 1, }
enum Wide { A = 0, Z = 300, }
struct In { a @0: u3, b @1: i5, }
struct All {
    u @0: u13,
    i @1: i7,
    f @2: f32,
    d @3: f64,
    s @4: str,
    e1 @5: Small,
    e2 @6: Wide,
    st @7: In,
    arr @8: [i4, 3],
    dyn @9: [In],
    opt @10: Optional[[Optional[u2]]],
    none @11: Optional[In],
    tail @12: u1,
}
'''
    sch = parse(src, "focus schema")
    value = {
        "u": 0x1ABC, "i": -3, "f": 0.15625, "d": -1e-300, "s": "hi there", "e1": 1, "e2": 300,
        "st": {"a": 5, "b": -15}, "arr": [-7, 7, -1], "dyn": [{"a": 0, "b": 15}, {"a": 7, "b": -1}],
        "opt": [None, 3, 0], "none": None, "tail": 1,
    }
    wire = encode(sch, "All", value)
    # independent bit level reference: (value, width) pairs, least significant bit first
    bits = []

    def put(v, n):
        bits.append((v & ((1 << n) - 1), n))

    put(0x1ABC, 13); put(-3, 7)
    for b in pystruct.pack("<f", 0.15625) + pystruct.pack("<d", -1e-300):
        put(b, 8)
    put(8, 32)
    for c in b"hi there":
        put(c, 8)
    put(1, 1); put(300, 9); put(5, 3); put(-15, 5)
    for v in (-7, 7, -1):
        put(v, 4)
    put(2, 32); put(0, 3); put(15, 5); put(7, 3); put(-1, 5)
    put(1, 8); put(3, 32); put(0, 8); put(1, 8); put(3, 2); put(1, 8); put(0, 2)
    put(0, 8); put(1, 1)
    acc, pos = 0, 0
    for v, n in bits:
        acc |= v << pos
        pos += n
    ref = acc.to_bytes((pos + 7) // 8, "little")
    check(bytes(wire) == ref, "focus: every type kind, unaligned, matches the bit level reference")
    back = decode(sch, "All", wire)
    expect = dict(value)
    check(back == expect, f"focus: decode of every type kind ({back})")
    check(list(back) == list(value), "focus: decoded struct keys in id order")
    check(type(back["f"]) is float and type(back["d"]) is float and type(back["u"]) is int and type(back["s"]) is str, "focus: python types of decoded values")
    check(back["opt"] == [None, 3, 0] and back["none"] is None, "focus: optionals")
    check(decode(sch, "All", bytearray(ref)) == decode(sch, "All", bytearray(ref)), "focus: decode repeatable")
    for cut in range(len(ref)):
        try:
            decode(sch, "All", bytearray(ref[:cut]))
        except ValueError as e:
            check(str(e) == "buffer overrrun", f"focus: cut at {cut}: {e}")
        else:
            check(False, f"focus: cut at {cut} did not fail")

    # direct _decode calls, one per branch, on a known bit stream at an odd offset
    def buf_from(pairs, lead=3):
        b = fcp_serde._Buffer()
        b.push_word(0b101, lead)
        for v, n in pairs:
            b.push_word(v & ((1 << n) - 1), n)
        b.bitaddr = lead
        return b

    cases = [
        (T.UnsignedType("u11"), [(1234, 11)], 1234),
        (T.UnsignedType("u64"), [(2**64 - 1, 64)], 2**64 - 1),
        (T.SignedType("i11"), [(-1000, 11)], -1000),
        (T.SignedType("i8"), [(127, 8)], 127),
        (T.SignedType("i8"), [(-127, 8)], -127),
        (T.FloatType(), [(b, 8) for b in pystruct.pack("<f", -2.5)], -2.5),
        (T.DoubleType(), [(b, 8) for b in pystruct.pack("<d", 1e100)], 1e100),
        (T.StringType(), [(3, 32), (ord("a"), 8), (ord("b"), 8), (ord("c"), 8)], "abc"),
        (T.StringType(), [(0, 32)], ""),
        (T.EnumType("Small"), [(1, 1)], 1),
        (T.EnumType("Wide"), [(257, 9)], 257),
        (T.StructType("In"), [(6, 3), (-2, 5)], {"a": 6, "b": -2}),
        (T.ArrayType(T.UnsignedType("u3"), 4), [(1, 3), (2, 3), (3, 3), (4, 3)], [1, 2, 3, 4]),
        (T.ArrayType(T.UnsignedType("u3"), 0), [], []),
        (T.DynamicArrayType(T.StructType("In")), [(1, 32), (1, 3), (1, 5)], [{"a": 1, "b": 1}]),
        (T.DynamicArrayType(T.StringType()), [(0, 32)], []),
        (T.OptionalType(T.UnsignedType("u5")), [(1, 8), (21, 5)], 21),
        (T.OptionalType(T.UnsignedType("u5")), [(255, 8), (21, 5)], 21),
        (T.OptionalType(T.UnsignedType("u5")), [(0, 8)], None),
        (T.OptionalType(T.ArrayType(T.DynamicArrayType(T.OptionalType(T.EnumType("Wide"))), 2)), [(1, 8), (1, 32), (1, 8), (300, 9), (2, 32), (0, 8), (1, 8), (7, 9)], [[300], [None, 7]]),
    ]
    for t, pairs, want in cases:
        b = buf_from(pairs)
        got = fcp_serde._decode(b, sch, t)
        used = sum(n for _, n in pairs)
        check(got == want and type(got) is type(want), f"focus: _decode {t!r} -> {got!r}, wanted {want!r}")
        check(b.bitaddr == 3 + used, f"focus: _decode {t!r} consumed {b.bitaddr - 3} bits, wanted {used}")

    # exact classes, subclasses and strangers
    class MyArr(T.ArrayType):
        pass

    class MyStruct(T.StructType):
        pass

    class MyStr(T.StringType):
        pass

    class MyEnum(T.EnumType):
        pass

    class MyF(T.FloatType):
        pass

    class MyD(T.DoubleType):
        pass

    class MyS(T.SignedType):
        pass

    class MyDyn(T.DynamicArrayType):
        pass

    check(fcp_serde._decode(buf_from([(6, 3), (-2, 5)]), sch, MyStruct("In")) == {"a": 6, "b": -2}, "focus: StructType subclass")
    check(fcp_serde._decode(buf_from([(1, 3), (2, 3)]), sch, MyArr(T.UnsignedType("u3"), 2)) == [1, 2], "focus: ArrayType subclass")
    check(fcp_serde._decode(buf_from([(1, 32), (65, 8)]), sch, MyStr()) == "A", "focus: StringType subclass")
    check(fcp_serde._decode(buf_from([(200, 9)]), sch, MyEnum("Wide")) == 200, "focus: EnumType subclass")
    check(fcp_serde._decode(buf_from([(b, 8) for b in pystruct.pack("<f", 0.5)]), sch, MyF()) == 0.5, "focus: FloatType subclass")
    check(fcp_serde._decode(buf_from([(b, 8) for b in pystruct.pack("<d", 0.1)]), sch, MyD()) == 0.1, "focus: DoubleType subclass")
    check(fcp_serde._decode(buf_from([(-2, 4)]), sch, MyS("i4")) == -2, "focus: SignedType subclass")
    check(fcp_serde._decode(buf_from([(2, 32), (1, 1), (0, 1)]), sch, MyDyn(T.EnumType("Small"))) == [1, 0], "focus: DynamicArrayType subclass")
    for stranger in (None, 5, "u8", T.UnsignedType, T.Type(), object()):
        b = buf_from([(1, 8)])
        e = raises(lambda: fcp_serde._decode(b, sch, stranger), ValueError, f"focus: _decode with {stranger!r}")
        check(e is not None and e.args == ("Unmatched type",) and b.bitaddr == 3, f"focus: _decode with {stranger!r}: args and untouched cursor")
    # an unknown type nested below known ones surfaces the same error
    b = buf_from([(1, 8), (1, 32), (0, 8)])
    e = raises(lambda: fcp_serde._decode(b, sch, T.OptionalType(T.DynamicArrayType(T.Type()))), ValueError, "focus: nested stranger")
    check(e is not None and str(e) == "Unmatched type" and b.bitaddr == 3 + 40, "focus: nested stranger consumed only the prefixes")
    e = raises(lambda: fcp_serde._decode(buf_from([(0, 9)]), sch, T.EnumType("Nope")), Exception, "focus: unknown enum name")
    check(type(e).__name__ == "UnwrapError", f"focus: unknown enum error type {type(e).__name__}")
    e = raises(lambda: fcp_serde._decode(buf_from([(0, 9)]), sch, T.StructType("Nope")), Exception, "focus: unknown struct name")
    check(type(e).__name__ == "UnwrapError", f"focus: unknown struct error type {type(e).__name__}")
    raises(lambda: fcp_serde._decode(buf_from([(2, 32), (65, 8), (200, 8)]), sch, T.StringType()), UnicodeDecodeError, "focus: non ascii string bytes")


if __name__ == "__main__":
    sys.exit(main(extra_sections=(section_focus_decode_dispatch,)))
