#!/venv/bin/python
"""Differential demo for property C13.

"Schema loaded at run time from reflection behaves like the compiled one."

For two schemas the demo
  * generates the C++ headers with the fcp_cpp plug-in found through PYTHONPATH,
  * writes the binary reflection with the Python serde codec,
  * compiles one small driver per schema that holds both fcp::StaticSchema and an
    fcp::dynamic::DynamicSchema loaded from that binary,
  * encodes a spread of values (boundaries, negatives, nested containers, every
    enumerator) with both codecs and compares the bytes,
  * decodes the canonical bytes (produced by the Python codec) with both codecs
    and compares the values (enumerators: dynamic gives names, static numbers),
  * repeats calls / interleaves them to show that no state leaks between calls,
  * and, before all that, compares the Python codec (which writes the reflection
    binary) with a frozen naive copy of itself: reflection binaries, values,
    schema objects modified between calls, self referential structs, errors.

Run with
  PYTHONPATH=$R/src:$R/plugins/fcp_dbc:$R/plugins/fcp_can_c:$R/plugins/fcp_cpp:$R/plugins/fcp_nop \
      /venv/bin/python demo.py

Known limit of today's code, kept out of the byte comparison on purpose: the
run-time *encoder* pads every field to a byte boundary, so for structs with
sub-byte fields that are not last only decoding is compared with the static
codec; the run-time encoding of those is pinned to the bytes the unchanged tree
produces instead (GOLDEN_DYNAMIC).
"""

import json
import os
import random
import shutil
import subprocess
import sys
import tempfile
from pathlib import Path

from fcp.parser import get_fcp_from_string
from fcp.reflection import get_reflection_schema
from fcp.serde import encode as py_encode, decode as py_decode
from fcp.specs import type as T
from fcp_cpp import Generator

FCP_ROOT = os.environ.get("FCP_ROOT", "/tmp/twin3-C13")
JSON_INCLUDE = os.environ.get("JSON_INCLUDE", "/root/miniconda/include")

RICH = """version: "3"

enum Color { Red = 0, Green = 1, Blue = 2, Amber = 5, }
enum Flag { Off = 0, On = 1, }
enum Only { Zero = 0, }
enum Pow { P0 = 0, P4 = 4, }
enum Wide { W0 = 0, W255 = 255, W256 = 256, }

struct Point { x @ 0: i16, y @ 1: i16, }

struct Ints {
    a @ 0: u8, b @ 1: i8, c @ 2: u16, d @ 3: i16, e @ 4: u24, f @ 5: i24,
    g @ 6: u32, h @ 7: i32, i @ 8: u64, j @ 9: i64, k @ 10: u40, l @ 11: i48,
}

struct Packed {
    a @ 0: u3, b @ 1: i5, c @ 2: u12, d @ 3: i4, e @ 4: Color, f @ 5: Flag,
    g @ 6: u1, h @ 7: i7, i @ 8: Wide, j @ 9: Only, k @ 10: Pow,
}

struct PackedArrays {
    cs @ 0: [Color, 5], fl @ 1: [Flag], nib @ 2: [i4, 3], oc @ 3: Optional[Color], w @ 4: [Wide],
}

struct Reordered { last @ 2: u8, first @ 0: u16, mid @ 1: i32, }

struct Floats { a @ 0: f32, b @ 1: f64, c @ 2: [f32, 2], }

struct Containers {
    fixed @ 0: [i16, 3], dyn @ 1: [u16], pts @ 2: [Point], opt @ 3: Optional[i32],
    optp @ 4: Optional[Point], name @ 5: str, grid @ 6: [[u8, 2], 2], tail @ 7: Color,
}

struct Deep {
    names @ 0: [str], optarr @ 1: Optional[[i8]], arropt @ 2: [Optional[u16], 2],
    inner @ 3: Containers, pts @ 4: [Point, 2], wide @ 5: Wide,
}

struct Nest {
    names @ 0: [str], optarr @ 1: Optional[[i8]], arropt @ 2: [Optional[u16], 2],
    pts @ 3: [Point, 2], inner @ 4: Containers,
}

struct TailColor { a @ 0: u8, b @ 1: Color, }
struct TailFlag { a @ 0: i32, b @ 1: Flag, }
struct TailWide { a @ 0: str, b @ 1: Wide, }
struct TailOnly { a @ 0: u16, b @ 1: Only, }
struct TailPow { a @ 0: u16, b @ 1: Pow, }
"""

SMALL = """version: "3"

enum E { S0 = 0, S1 = 1, S2 = 2, }

struct S1 { s1 @ 0: u8 | unit("m/s"), s2 @ 1: u8 | unit("C"), }

impl can for S1 { id: 10, device: "ecu1", bus: "bus1", }

struct S2 { s1 @ 0: u8, s2 @ 1: u8, s3 @ 2: E, }
struct S9 { s1 @ 0: [S1], }
struct S10 { s1 @ 0: Optional[u8], }
struct S11 { s1 @ 0: u16, }

impl can for S11 { id: 11, endianess: "big", }

struct S12 { s1 @ 0: S1, }

service Service1 @0 { method Method1(S2) @0 returns S9, }
"""

# struct name -> True when the run-time encoder is byte-compatible today
SCHEMAS = {
    "rich": (
        RICH,
        {
            "Point": True, "Ints": True, "Packed": False, "PackedArrays": False,
            "Reordered": True, "Floats": True, "Containers": True, "Deep": False, "Nest": True,
            "TailColor": True, "TailFlag": True, "TailWide": True, "TailOnly": True,
            "TailPow": True,
        },
    ),
    "small": (SMALL, {"S1": True, "S2": True, "S9": True, "S10": True, "S11": True, "S12": True}),
}

# bytes the run-time encoder of the unchanged tree produces (every field byte padded)
GOLDEN_DYNAMIC = {
    ("rich", "Packed", '{"a":5,"b":-3,"c":4095,"d":-8,"e":"Amber","f":"On","g":1,"h":-64,"i":"W256","j":"Zero","k":"P4"}'):
        "051dff0f080501014000010004",
    ("rich", "Packed", '{"a":0,"b":15,"c":1,"d":7,"e":"Blue","f":"Off","g":0,"h":63,"i":"W255","j":"Zero","k":"P0"}'):
        "000f010007020000" "3fff000000",
    ("rich", "PackedArrays", '{"cs":["Red","Green","Blue","Amber","Red"],"fl":["On","Off","On"],"nib":[-8,7,-1],"oc":"Amber","w":["W256","W0"]}'):
        "0001020500" "03000000010001" "08070f" "0105" "0200000000010000",
}

HARNESS = r"""
#include <iostream>
#include <iomanip>
#include <fstream>
#include <sstream>
#include <string>
#include <vector>
#include <cmath>
#include <limits>
#include "fcp.h"
#include "dynamic.h"

using json = nlohmann::json;

static std::string hex(const std::vector<std::uint8_t>& v) {
    std::stringstream ss;
    for (auto b : v) ss << std::hex << std::setw(2) << std::setfill('0') << (int)b;
    return ss.str();
}
static std::vector<std::uint8_t> unhex(const std::string& s) {
    std::vector<std::uint8_t> v;
    for (std::size_t i = 0; i + 1 < s.size(); i += 2) v.push_back((std::uint8_t)std::stoi(s.substr(i, 2), nullptr, 16));
    return v;
}

int main(int argc, char** argv) {
    if (argc < 3) return 2;
    fcp::dynamic::DynamicSchema dyn{};
    dyn.LoadBinarySchemaFromFile(argv[1]);
    fcp::dynamic::DynamicSchema dyn_copy = dyn;  // a copy must behave like the original
    fcp::StaticSchema stat{};
    std::ifstream in(argv[2]);
    std::string line;
    while (std::getline(in, line)) {
        if (line.empty()) continue;
        std::stringstream ls(line);
        std::string op, which, name; ls >> op >> which >> name;
        std::string rest; std::getline(ls, rest);
        while (!rest.empty() && rest[0] == ' ') rest.erase(0, 1);
        const fcp::ISchema* schema = &stat;
        if (which == "dyn") schema = &dyn;
        if (which == "cpy") schema = &dyn_copy;
        try {
            if (op == "E") {
                auto r = schema->EncodeJson(name, json::parse(rest));
                std::cout << (r.has_value() ? hex(r.value()) : std::string("nullopt")) << "\n";
            } else {
                auto r = schema->DecodeJson(name, unhex(rest));
                std::cout << (r.has_value() ? r.value().dump() : std::string("nullopt")) << "\n";
            }
        } catch (const std::exception& e) {
            std::cout << "EXC " << e.what() << "\n";
        }
    }
    return 0;
}
"""

F32 = [0.0, -0.5, 1.5, 1024.25, -3.0, 2.0**100, -(2.0**-20)]
F64 = [0.0, 0.1, -1e300, 3.141592653589793, 2.0**-1000, -7.0]
STRS = ["", "a", "hello world", "~!@ 09AZaz"]


class Sampler:
    """Deterministic values for a type: boundaries first, then pseudo random ones."""

    def __init__(self, fcp, seed):
        self.fcp = fcp
        self.rnd = random.Random(seed)

    def pick(self, k, choices):
        return choices[k % len(choices)] if k < len(choices) else self.rnd.choice(choices)

    def value(self, t, k):
        if isinstance(t, T.UnsignedType):
            n = t.get_length()
            return self.pick(k, [0, 2**n - 1, 1, 2 ** (n - 1), 2 ** (n - 1) - 1, self.rnd.randrange(2**n)])
        if isinstance(t, T.SignedType):
            n = t.get_length()
            lo, hi = -(2 ** (n - 1)), 2 ** (n - 1) - 1
            return self.pick(k, [0, lo, hi, -1, 1, self.rnd.randint(lo, hi)])
        if isinstance(t, T.FloatType):
            return self.pick(k, F32)
        if isinstance(t, T.DoubleType):
            return self.pick(k, F64)
        if isinstance(t, T.StringType):
            return self.pick(k, STRS)
        if isinstance(t, T.EnumType):
            enum = self.fcp.get_enum(t.name).unwrap()
            return self.pick(k, [e.value for e in enum.enumeration])
        if isinstance(t, T.StructType):
            struct = self.fcp.get_struct(t.name).unwrap()
            return {f.name: self.value(f.type, k + i) for i, f in enumerate(struct.fields)}
        if isinstance(t, T.ArrayType):
            return [self.value(t.underlying_type, k + i) for i in range(t.size)]
        if isinstance(t, T.DynamicArrayType):
            n = [0, 1, 3, 2, 5][k % 5]
            # Optional[[T]] with an empty list is skipped: json::empty() makes the
            # run-time encoder treat it as "none" today
            return [self.value(t.underlying_type, k + i) for i in range(n)]
        if isinstance(t, T.OptionalType):
            if k % 3 == 0:
                return None
            inner = self.value(t.underlying_type, k)
            if inner == [] or inner == {}:
                return None
            return inner
        raise AssertionError(t)


def with_names(fcp, t, v):
    """Same value the way the run-time codec speaks: enumerators by name."""
    if v is None:
        return None
    if isinstance(t, T.EnumType):
        enum = fcp.get_enum(t.name).unwrap()
        return next(e.name for e in sorted(enum.enumeration, key=lambda e: e.name) if e.value == v)
    if isinstance(t, T.StructType):
        struct = fcp.get_struct(t.name).unwrap()
        return {f.name: with_names(fcp, f.type, v[f.name]) for f in struct.fields}
    if isinstance(t, (T.ArrayType, T.DynamicArrayType)):
        return [with_names(fcp, t.underlying_type, x) for x in v]
    if isinstance(t, T.OptionalType):
        return with_names(fcp, t.underlying_type, v)
    return v


def dumps(v):
    return json.dumps(v, separators=(",", ":"))


def build(name, source, workdir):
    fcp = get_fcp_from_string(source).unwrap()
    out = workdir / name
    out.mkdir()
    for r in Generator().generate(fcp, {"output": str(out)}):
        Path(r["path"]).write_text(r["contents"])
    binary = py_encode(get_reflection_schema().unwrap(), "Fcp", fcp.reflection())
    (out / "output.bin").write_bytes(binary)
    (out / "harness.cpp").write_text(HARNESS)
    proc = subprocess.Popen(
        ["g++", "--std=c++17", "-Wall", "-Wextra", "-Wshadow", "-Wno-unused-parameter", "-Werror",
         "-isystem", JSON_INCLUDE, "-I", str(out), "harness.cpp", "-o", "harness"],
        cwd=out, stdout=subprocess.PIPE, stderr=subprocess.STDOUT,
    )
    return fcp, out, proc, binary


# --------------------------------------------------------------------------
# Python codec (fcp.serde) against a frozen, deliberately naive copy of what
# the codec does today: every struct/enum is looked up again for every value.
# --------------------------------------------------------------------------
import copy
import struct as pystruct

from fcp.specs.struct_field import StructField
from fcp.specs.enum import Enumeration


def ref_encode(fcp, name, data):
    bits = []

    def put(word, n):
        bits.extend((word >> i) & 1 for i in range(n))

    def enc(t, v):
        if isinstance(t, (T.UnsignedType, T.SignedType)):
            put(v, t.get_length())
        elif isinstance(t, T.FloatType):
            for b in pystruct.pack("f", v):
                put(b, 8)
        elif isinstance(t, T.DoubleType):
            for b in pystruct.pack("d", v):
                put(b, 8)
        elif isinstance(t, T.StringType):
            put(len(v), 32)
            for c in v:
                put(ord(c), 8)
        elif isinstance(t, T.EnumType):
            put(v, fcp.get_enum(t.name).unwrap().get_packed_size())
        elif isinstance(t, T.StructType):
            st = fcp.get_struct(t.name).unwrap()
            for f in sorted(st.fields, key=lambda f: f.field_id):
                enc(f.type, v[f.name])
        elif isinstance(t, T.ArrayType):
            for i in range(t.size):
                enc(t.underlying_type, v[i])
        elif isinstance(t, T.DynamicArrayType):
            put(len(v), 32)
            for x in v:
                enc(t.underlying_type, x)
        elif isinstance(t, T.OptionalType):
            put(0 if v is None else 1, 8)
            if v is not None:
                enc(t.underlying_type, v)
        else:
            raise ValueError("Unmatched type " + str(t))

    enc(T.StructType(name), data)
    out = bytearray((len(bits) + 7) // 8)
    for i, b in enumerate(bits):
        out[i >> 3] |= b << (i & 7)
    return out


def ref_decode(fcp, name, raw):
    pos = [0]

    def get(n):
        word = 0
        for i in range(n):
            a = pos[0] + i
            if (a >> 3) >= len(raw):
                raise ValueError("buffer overrrun")
            word |= ((raw[a >> 3] >> (a & 7)) & 1) << i
        pos[0] += n
        return word

    def dec(t):
        if isinstance(t, T.UnsignedType):
            return get(t.get_length())
        if isinstance(t, T.SignedType):
            n = t.get_length()
            w = get(n)
            return int(-(2**n - w)) if w > 2**n / 2 else int(w)  # sic: today's rule
        if isinstance(t, T.FloatType):
            return float(pystruct.unpack("f", bytearray(get(8) for _ in range(4)))[0])
        if isinstance(t, T.DoubleType):
            return float(pystruct.unpack("d", bytearray(get(8) for _ in range(8)))[0])
        if isinstance(t, T.StringType):
            n = get(32)
            return bytearray(get(8) for _ in range(n)).decode("ascii")
        if isinstance(t, T.EnumType):
            return get(fcp.get_enum(t.name).unwrap().get_packed_size())
        if isinstance(t, T.StructType):
            st = fcp.get_struct(t.name).unwrap()
            return {f.name: dec(f.type) for f in sorted(st.fields, key=lambda f: f.field_id)}
        if isinstance(t, T.ArrayType):
            return [dec(t.underlying_type) for _ in range(t.size)]
        if isinstance(t, T.DynamicArrayType):
            n = get(32)
            return [dec(t.underlying_type) for _ in range(n)]
        if isinstance(t, T.OptionalType):
            return dec(t.underlying_type) if get(8) != 0 else None
        raise ValueError("Unmatched type")

    return dec(T.StructType(name))


def outcome(fn, *args):
    try:
        return ("ok", fn(*args))
    except BaseException as e:  # noqa: B902 - error parity is part of the contract
        return ("exc", type(e).__name__, str(e))


def python_codec_checks(check):
    refl = get_reflection_schema().unwrap()
    schemas = {n: get_fcp_from_string(src).unwrap() for n, (src, _) in SCHEMAS.items()}
    schemas["reflection"] = refl

    # 1. the reflection binaries themselves (what the C++ run-time codec loads)
    for n, fcp in schemas.items():
        image = fcp.reflection()
        got = py_encode(refl, "Fcp", image)
        check(got == ref_encode(refl, "Fcp", image), "py: reflection binary of " + n)
        check(py_decode(refl, "Fcp", got) == ref_decode(refl, "Fcp", got), "py: reflection decode of " + n)
        check(py_encode(refl, "Fcp", image) == got, "py: reflection binary repeatable " + n)

    # 2. values of every struct of the demo schemas, two sweeps (second sweep == repeated calls)
    for sweep in range(2):
        for n in ("rich", "small"):
            fcp = schemas[n]
            sampler = Sampler(fcp, 99)
            for st in fcp.structs:
                for k in range(10):
                    v = sampler.value(T.StructType(st.name), k)
                    got = py_encode(fcp, st.name, v)
                    check(got == ref_encode(fcp, st.name, v), "py: encode %s.%s %s" % (n, st.name, dumps(v)))
                    check(py_decode(fcp, st.name, got) == ref_decode(fcp, st.name, got),
                          "py: decode %s.%s %s" % (n, st.name, got.hex()))

    # 3. the schema object is mutable: nothing may be remembered from one call to the next
    fcp = copy.deepcopy(schemas["rich"])
    v = {"last": 1, "first": 0x0203, "mid": -4}
    before = py_encode(fcp, "Reordered", v)
    st = fcp.get_struct("Reordered").unwrap()
    ids = {f.name: f.field_id for f in st.fields}
    st.get_field("last").field_id, st.get_field("first").field_id = ids["first"], ids["last"]
    after = py_encode(fcp, "Reordered", v)
    check(before == ref_encode(schemas["rich"], "Reordered", v), "py: before field id swap")
    check(after == ref_encode(fcp, "Reordered", v) and after != before, "py: after field id swap")
    check(py_decode(fcp, "Reordered", after) == v, "py: decode after field id swap")
    st.fields.append(StructField("extra", 7, T.SignedType("i12")))
    v2 = dict(v, extra=-2048 + 1)
    check(py_encode(fcp, "Reordered", v2) == ref_encode(fcp, "Reordered", v2), "py: after adding a field")
    check(py_decode(fcp, "Reordered", ref_encode(fcp, "Reordered", v2)) == v2, "py: decode after adding a field")

    tc = {"a": 200, "b": 5}
    narrow = py_encode(fcp, "TailColor", tc)
    fcp.get_enum("Color").unwrap().enumeration.append(Enumeration("Violet", 9))
    wide = py_encode(fcp, "TailColor", dict(tc, b=9))
    check(narrow == ref_encode(schemas["rich"], "TailColor", tc), "py: enum before widening")
    check(wide == ref_encode(fcp, "TailColor", dict(tc, b=9)) and wide[1] == 9, "py: enum after widening")
    pk = Sampler(fcp, 5).value(T.StructType("Packed"), 4)
    check(py_encode(fcp, "Packed", pk) == ref_encode(fcp, "Packed", pk), "py: packed after widening")
    check(py_encode(schemas["rich"], "Packed", pk) == ref_encode(schemas["rich"], "Packed", pk),
          "py: same names, other schema object")
    check(py_encode(fcp, "Packed", pk) != py_encode(schemas["rich"], "Packed", pk), "py: the two schemas differ")

    # 4. a struct that contains itself (only reachable through the API) and one used many times
    node = copy.deepcopy(schemas["small"])
    s1 = node.get_struct("S1").unwrap()
    s1.fields.append(StructField("next", 2, T.OptionalType(T.StructType("S1"))))
    chain = None
    for i in range(6):
        chain = {"s1": i, "s2": 255 - i, "next": chain}
    raw = py_encode(node, "S1", chain)
    check(raw == ref_encode(node, "S1", chain), "py: self referential struct")
    check(py_decode(node, "S1", raw) == chain, "py: self referential struct decode")
    many = {"s1": [{"s1": i, "s2": i + 1, "next": None} for i in range(40)]}
    check(py_encode(node, "S9", many) == ref_encode(node, "S9", many), "py: 40 elements of one struct")

    # 5. same errors at the same inputs, and a failed call leaves nothing behind
    fcp = schemas["rich"]
    for args in (("NoSuchStruct", {}), ("Point", {"x": 1}), ("Containers", {"fixed": [1]}),
                 ("TailColor", {"a": 1}), ("Point", None)):
        check(outcome(py_encode, fcp, *args) == outcome(ref_encode, fcp, *args), "py: encode error " + repr(args))
    for args in (("NoSuchStruct", bytearray(4)), ("Point", bytearray(3)), ("Containers", bytearray(5)),
                 ("TailColor", bytearray(1)), ("TailColor", bytearray())):
        check(outcome(py_decode, fcp, *args) == outcome(ref_decode, fcp, *args), "py: decode error " + repr(args))
    dangling = copy.deepcopy(fcp)
    dangling.enums = [e for e in dangling.enums if e.name != "Color"]
    for args in (("TailColor", {"a": 1, "b": 2}), ("Containers", Sampler(fcp, 1).value(T.StructType("Containers"), 3))):
        check(outcome(py_encode, dangling, *args) == outcome(ref_encode, dangling, *args), "py: dangling enum " + args[0])
    check(outcome(py_decode, dangling, "TailColor", bytearray(2)) == outcome(ref_decode, dangling, "TailColor", bytearray(2)),
          "py: dangling enum decode")
    check(py_encode(fcp, "Point", {"x": -1, "y": 2}) == bytearray(b"\xff\xff\x02\x00"), "py: works after errors")


def main():
    failures = []
    checks = 0

    def check(cond, msg):
        nonlocal checks
        checks += 1
        if not cond:
            failures.append(msg)

    python_codec_checks(check)

    workdir = Path(tempfile.mkdtemp(prefix="c13demo"))
    try:
        built = {n: build(n, src, workdir) for n, (src, _) in SCHEMAS.items()}
        for n, (fcp, out, proc, binary) in built.items():
            log = proc.communicate()[0].decode()
            if proc.returncode != 0:
                print(log)
                print("FAIL: generated C++ for schema %s does not compile" % n)
                return 1

        for n, (fcp, out, proc, binary) in built.items():
            aligned = SCHEMAS[n][1]
            # the binary the run-time codec loads is a faithful image of the schema
            refl = get_reflection_schema().unwrap()
            back = py_decode(refl, "Fcp", bytearray(binary))
            check([s["name"] for s in back["structs"]] == [s.name for s in fcp.structs], n + ": structs in binary")
            check(py_encode(refl, "Fcp", back) == binary, n + ": reflection round trip")

            sampler = Sampler(fcp, 1234)
            lines, expect = [], []
            for sname in aligned:
                st = T.StructType(sname)
                for k in range(14):
                    v = sampler.value(st, k)
                    vn = with_names(fcp, st, v)
                    canonical = bytes(py_encode(fcp, sname, v)).hex()
                    lines += ["E sta %s %s" % (sname, dumps(v)), "E dyn %s %s" % (sname, dumps(vn)),
                              "E cpy %s %s" % (sname, dumps(vn)), "E dyn %s %s" % (sname, dumps(vn)),
                              "D sta %s %s" % (sname, canonical), "D dyn %s %s" % (sname, canonical),
                              "D cpy %s %s" % (sname, canonical), "D dyn %s %s" % (sname, canonical)]
                    expect.append((sname, v, vn, canonical))
            golden = [(k, h) for k, h in GOLDEN_DYNAMIC.items() if k[0] == n]
            for (_, sname, js), _ in golden:
                lines.append("E dyn %s %s" % (sname, js))
            lines += ["E dyn NoSuchStruct {}", "E sta NoSuchStruct {}", "D dyn NoSuchStruct 00", "D sta NoSuchStruct 00"]
            (out / "cases.txt").write_text("\n".join(lines) + "\n")
            res = subprocess.run([str(out / "harness"), "output.bin", "cases.txt"], cwd=out, capture_output=True)
            if res.returncode != 0:
                print(res.stdout.decode()[-2000:], res.stderr.decode()[-2000:])
                print("FAIL: driver for schema %s crashed (%d)" % (n, res.returncode))
                return 1
            got = res.stdout.decode().splitlines()
            check(len(got) == len(lines), n + ": one answer per case")
            it = iter(got)
            for sname, v, vn, canonical in expect:
                e_sta, e_dyn, e_cpy, e_dyn2, d_sta, d_dyn, d_cpy, d_dyn2 = (next(it) for _ in range(8))
                tag = "%s.%s %s" % (n, sname, dumps(v))
                check(e_sta == canonical, tag + ": static bytes == python bytes: " + e_sta)
                if aligned[sname]:
                    check(e_dyn == e_sta, tag + ": run-time bytes %s != static %s" % (e_dyn, e_sta))
                check(e_dyn == e_cpy == e_dyn2, tag + ": run-time encode repeatable")
                check(not d_sta.startswith("EXC") and json.loads(d_sta) == v, tag + ": static decode " + d_sta)
                check(not d_dyn.startswith("EXC") and json.loads(d_dyn) == vn, tag + ": run-time decode " + d_dyn)
                check(d_dyn == d_cpy == d_dyn2, tag + ": run-time decode repeatable")
            for (_, sname, js), want in golden:
                g = next(it)
                check(g == want, "%s.%s golden run-time bytes %s != %s" % (n, sname, g, want))
            check([next(it) for _ in range(4)] == ["nullopt"] * 4, n + ": unknown struct is nullopt")
    finally:
        shutil.rmtree(workdir, ignore_errors=True)

    if failures:
        for f in failures[:20]:
            print("MISMATCH", f)
        print("FAIL (%d of %d checks)" % (len(failures), checks))
        return 1
    print("PASS (%d checks)" % checks)
    return 0


if __name__ == "__main__":
    sys.exit(main())
