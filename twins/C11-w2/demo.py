#!/venv/bin/python
"""Differential demo for property C11 (parser is total), focused on error values.

Every input - valid, truncated, mutated, random, out-of-domain literals, and
multi-file schemas whose imported modules are themselves valid / malformed /
truncated / ill-typed / missing - must make the parser return either
Ok(FcpV2) or Err(FcpError); no exception may escape; every error must render
(with and without python file paths) and every cited source line must exist
in the named source and be the line that is displayed.

On top of that the demo looks at the error values themselves: every message
of an error still unpacks as (msg, node, (python file, python line)) and
compares equal to that plain tuple, the python origin is the code that
reported the message (not the error module's own bookkeeping), the legacy
ErrorLogger renders the same errors, and errors reported by the verifier on
parsed schemas render too.

The normalised transcript of all outcomes is additionally compared with a
digest recorded on the unchanged tree, so the demo is a differential test:
python origin line numbers ("[parser.py:NN]"), the hash-order of the
"expected one of" list and the temporary directory name are normalised away,
everything else must be byte-identical.

Run with
  PYTHONPATH=$FCP_ROOT/src:... /venv/bin/python demo.py
"""

import hashlib
import json
import os
import pathlib
import random
import re
import shutil
import sys
import tempfile
import traceback

FCP_ROOT = pathlib.Path(os.environ.get("FCP_ROOT", "/tmp/twin3-C11"))

from fcp.parser import get_fcp, get_fcp_from_string  # noqa: E402
from fcp.error import Logger, FcpError, error  # noqa: E402
from fcp.error_logger import ErrorLogger  # noqa: E402
from fcp.verifier import make_general_verifier  # noqa: E402
from fcp.result import Ok, Err  # noqa: E402
from fcp.specs.v2 import FcpV2  # noqa: E402

EXPECTED_DIGEST = "c20e352957ff626f6350aae74f079c66dcd7ffabf6b3b25722390cefcf88b668"

failures = []
transcript = []


def fail(msg):
    failures.append(msg)
    if len(failures) <= 10:
        print("FAIL:", msg)


# --------------------------------------------------------------------------
# normalisation


def normalise(text, tmp=None):
    text = re.sub(r"\[(\w+\.py):\d+\]", r"[\1:*]", text)

    def sort_expected(m):
        items = sorted(re.findall(r"'([^']*)'", m.group(1)))
        return "expected one of: " + repr(items)

    text = re.sub(r"expected one of: (\[[^\]]*\])", sort_expected, text)
    if tmp is not None:
        text = text.replace(str(tmp), "<TMP>")
        text = text.replace(str(pathlib.Path(tmp).resolve()), "<TMP>")
    return text


# --------------------------------------------------------------------------
# the property


def check_outcome(label, result, logger, tmp=None):
    """Check one parse outcome and append its normalised form to the transcript."""
    if isinstance(result, Ok):
        value = result.unwrap()
        if not isinstance(value, FcpV2):
            fail(f"{label}: Ok carries {type(value).__name__}")
            return
        transcript.append(
            f"{label}\nOK {json.dumps(value.to_dict(), sort_keys=True)}\n"
            f"{normalise(repr(value), tmp)}\n"
        )
        return

    if not isinstance(result, Err):
        fail(f"{label}: parser returned {type(result).__name__}")
        return

    check_error(label, result.err(), logger, tmp)


def check_error(label, err, logger, tmp=None):
    """Check one error value and append its normalised form to the transcript."""
    if not isinstance(err, FcpError):
        fail(f"{label}: Err carries {type(err).__name__}: {err!r}")
        return

    rendered = {}
    for paths in (True, False):
        renderer = Logger(logger.sources, enable_file_paths=paths)
        try:
            text = renderer.error(err)
        except Exception:
            fail(f"{label}: error does not render:\n{traceback.format_exc()}")
            return
        if not isinstance(text, str) or text == "":
            fail(f"{label}: rendering is not a non-empty string")
        rendered[paths] = text

    if not isinstance(repr(err), str):
        fail(f"{label}: repr(err) is not a string")

    # every frame unpacks as (msg, node, (python file, python line))
    shape = []
    for frame in err.msg:
        msg, node, (pyfile, pyline) = frame
        if not isinstance(msg, str) or not isinstance(pyline, int):
            fail(f"{label}: odd frame {frame!r}")
        if not isinstance(pyfile, pathlib.Path):
            fail(f"{label}: python origin is not a path: {pyfile!r}")
        if len(frame) != 3 or frame != (msg, node, (pyfile, pyline)):
            fail(f"{label}: frame is not the plain triple any more")
        if frame[0] is not msg or frame[1] is not node or frame[2][1] != pyline:
            fail(f"{label}: frame does not index positionally")
        check_python_origin(label, err.msg.index(frame), pyfile, pyline)
        shape.append((pyfile.name, node is not None))
        if node is None:
            continue
        name = pathlib.Path(node.meta.filename).name
        if name not in logger.sources:
            fail(f"{label}: cited source {name} is not registered")
            continue
        lines = logger.sources[name].split("\n")
        if not (1 <= node.meta.line <= len(lines)):
            fail(f"{label}: cited line {node.meta.line} not in {name}")
            continue
        cited = lines[node.meta.line - 1]
        if f"[{name}:{node.meta.line}]" not in rendered[True]:
            fail(f"{label}: citation [{name}:{node.meta.line}] missing")
        if cited not in rendered[True] or cited not in rendered[False]:
            fail(f"{label}: cited line text is not displayed")

    # every "[x.fcp:N]" in the diagnostic points at an existing line
    for name, line in re.findall(r"\[([\w.]+\.fcp):(\d+)\]", rendered[True]):
        if name not in logger.sources:
            fail(f"{label}: diagnostic names unknown source {name}")
        elif not (1 <= int(line) <= len(logger.sources[name].split("\n"))):
            fail(f"{label}: diagnostic cites missing line {name}:{line}")

    legacy = []
    for paths in (True, False):
        try:
            legacy.append(ErrorLogger(logger.sources, paths).error(err))
        except Exception:
            fail(f"{label}: legacy ErrorLogger fails:\n{traceback.format_exc()}")
            return

    transcript.append(
        f"{label}\nERR {shape}\n{normalise(repr(err), tmp)}\n"
        f"{normalise(rendered[True], tmp)}\n{normalise(rendered[False], tmp)}\n"
        f"{normalise(legacy[0], tmp)}\n{normalise(legacy[1], tmp)}\n"
    )


_python_sources = {}


def check_python_origin(label, position, pyfile, pyline):
    """The python origin of a message is the statement that reported it."""
    if pyfile not in _python_sources:
        _python_sources[pyfile] = pyfile.read_text().split("\n")
    lines = _python_sources[pyfile]
    if not (1 <= pyline <= len(lines)):
        fail(f"{label}: python origin {pyfile.name}:{pyline} does not exist")
        return
    window = "\n".join(lines[max(0, pyline - 3) : pyline + 2])
    if position == 0:
        # root causes are created by error(...) in error.py, or directly
        if "FcpError(" not in window:
            fail(f"{label}: root origin {pyfile.name}:{pyline} creates no FcpError")
        if pyfile.name == "error.py" and "return Err(FcpError(" not in window:
            fail(f"{label}: root origin is not the error() helper")
    else:
        if pyfile.name == "error.py" or "results_in(" not in window:
            fail(f"{label}: origin {pyfile.name}:{pyline} does not call results_in")


def here():
    return sys._getframe(1).f_lineno


def run_error_unit_checks():
    """Errors built by hand: origins follow the reporting statement."""
    this = pathlib.Path(__file__).name

    line = here(); direct = FcpError("boom")  # noqa: E702
    (frame,) = direct.msg
    if frame[2][0].name != this or frame[2][1] != line or frame[1] is not None:
        fail(f"direct FcpError origin is {frame[2]!r}, expected {this}:{line}")

    line2 = here(); same = direct.results_in("then this", node=None)  # noqa: E702
    if same is not direct or len(direct.msg) != 2:
        fail("results_in does not extend the error in place")
    if direct.msg[1][2][0].name != this or direct.msg[1][2][1] != line2:
        fail(f"results_in origin is {direct.msg[1][2]!r}, expected {this}:{line2}")
    if repr(direct) != "boom\nthen this":
        fail(f"repr is {repr(direct)!r}")

    def report(msg):
        return error(msg)

    wrapped = report("wrapped").err()
    if wrapped.msg[0][2][0].name != "error.py":
        fail(f"error() origin is {wrapped.msg[0][2]!r}")

    chained = error("first").map_err(lambda e: e.results_in("second"))
    if [m for m, _, _ in chained.err().msg] != ["first", "second"]:
        fail("map_err/results_in chain lost a message")
    if chained.err().msg[1][2][0].name != this:
        fail("lambda origin is not the demo")

    # two errors never share their message lists
    a, b = FcpError("a"), FcpError("b")
    a.results_in("a2")
    if len(b.msg) != 1 or len(a.msg) != 2:
        fail("errors share state")

    for paths in (True, False):
        logger = Logger({}, enable_file_paths=paths)
        text = logger.error(direct)
        expected_lines = 4 if paths else 2
        if text.count("\n") != expected_lines or not text.endswith("\n"):
            fail(f"rendering of a node-less error has an odd shape: {text!r}")
        transcript.append(f"unit:{paths}\n{normalise(text)}")
        if ErrorLogger({}, paths).error(direct) != text:
            fail("legacy ErrorLogger disagrees on a node-less error")

    empty = FcpError("x")
    empty.msg.clear()
    if Logger({}).error(empty) != "" or repr(empty) != "":
        fail("an error without messages does not render as the empty string")


def run_verifier_errors():
    schemas = {
        "dup_types": 'version: "3"\nstruct A { x @0: u8, }\n\nstruct A { y @0: u8, }\n',
        "dup_enum_names": 'version: "3"\nenum E {\n A = 0,\n A = 1,\n}\n',
        "dup_enum_values": 'version: "3"\nenum E {\n A = 0,\n B = 0,\n}\n',
        "dup_impls": 'version: "3"\nstruct A { x @0: u8, }\nimpl p for A { id: 1, }\nimpl p for A { id: 2, }\n',
        "dup_signals": 'version: "3"\nstruct A { x @0: u8, }\nimpl p for A {\n signal x { a: 1, },\n signal x { a: 2, },\n}\n',
        "fine": 'version: "3"\nstruct A { x @0: u8, }\n',
    }
    for name, source in schemas.items():
        logger = Logger({}, enable_file_paths=True)
        parsed = get_fcp_from_string(source, logger)
        if not parsed.is_ok():
            fail(f"verifier:{name}: schema does not parse")
            continue
        try:
            verdict = make_general_verifier().verify(parsed.unwrap())
        except Exception:
            fail(f"verifier:{name}: verifier raised:\n{traceback.format_exc()}")
            continue
        if verdict.is_err():
            check_error(f"verifier:{name}", verdict.err(), logger)
        else:
            transcript.append(f"verifier:{name}\nOK")
    for path in sorted((FCP_ROOT / "tests" / "schemas" / "verifier").glob("*.fcp")):
        logger = Logger({}, enable_file_paths=True)
        parsed = get_fcp(path, logger)
        if parsed.is_ok():
            verdict = make_general_verifier().verify(parsed.unwrap())
            if verdict.is_err():
                check_error(f"verifier:{path.name}", verdict.err(), logger, FCP_ROOT)


def run_string(label, source, shared_logger=False):
    logger = None if shared_logger else Logger({}, enable_file_paths=True)
    try:
        if shared_logger:
            result = get_fcp_from_string(source)
            logger = Logger({"main.fcp": source})
        else:
            result = get_fcp_from_string(source, logger)
    except BaseException:
        fail(f"{label}: exception escaped:\n{traceback.format_exc()}")
        return None
    check_outcome(label, result, logger)
    return result


def run_file(label, path, tmp):
    logger = Logger({}, enable_file_paths=True)
    try:
        result = get_fcp(str(path), logger)
    except BaseException:
        fail(f"{label}: exception escaped:\n{traceback.format_exc()}")
        return None
    check_outcome(label, result, logger, tmp)
    return result


# --------------------------------------------------------------------------
# inputs

VALID = {
    "basic": """version: "3"

struct foo {
    var1 @ 0: u8,
    var2 @ 1: i16 | unit("V") range(-3.0, 5.5),
    var3 @ 2: f32,
    var4 @ 3: f64 | unit("m/s"),
    var5 @ 4: str,
}
""",
    "compose": """version: "3"
/* block comment */
enum E {
    A = 0,
    B = 1, // trailing
}

struct inner { x @0: u3, e @1: E, }

struct outer {
    a @0: inner,
    b @1: [inner, 4],
    c @2: [E],
    d @3: Optional[[u8, 2]],
    e @4: [[i7, 2], 3],
}
""",
    "impl": """version: "3"
struct A { f1 @0: u8, f2 @1: u16, }
impl can for A {
    id: 2,
    device: ecu,
    signal f1 { bitstart: 0, bitlength: 8, },
    signal f2 { bitstart: 8, endianess: "big", mux_ids: [1, 2, 3], },
}
impl can for A as A2 { id: 3, }
service S @1 {
    method M(A) @0 returns A,
    method N(A) @1 returns A,
}
device ecu { services: [S], rate: 1.5, name: "x", }
""",
}

OUT_OF_DOMAIN = {
    "float_id": 'version: "3"\nstruct A { x @0.5: u8, }\n',
    "neg_id": 'version: "3"\nstruct A { x @-1: u8, }\n',
    "string_enum_value": 'version: "3"\nenum E { A = "x", }\n',
    "ident_enum_value": 'version: "3"\nenum E { A = B, }\n',
    "array_enum_value": 'version: "3"\nenum E { A = [1, 2], }\n',
    "float_enum_value": 'version: "3"\nenum E { A = 1.5, }\n',
    "empty_enum": 'version: "3"\nenum E { }\n',
    "unknown_param": 'version: "3"\nstruct A { x @0: u8 | foo(1), }\n',
    "range_arity_1": 'version: "3"\nstruct A { x @0: u8 | range(1), }\n',
    "range_arity_0": 'version: "3"\nstruct A { x @0: u8 | range, }\n',
    "range_arity_3": 'version: "3"\nstruct A { x @0: u8 | range(1, 2, 3), }\n',
    "unit_arity_0": 'version: "3"\nstruct A { x @0: u8 | unit(), }\n',
    "unit_number": 'version: "3"\nstruct A { x @0: u8 | unit(3), }\n',
    "range_ints": 'version: "3"\nstruct A { x @0: u8 | range(-3, 5), }\n',
    "range_strings": 'version: "3"\nstruct A { x @0: u8 | range("a", "b"), }\n',
    "float_array_size": 'version: "3"\nstruct A { x @0: [u8, 1.5], }\n',
    "exp_array_size": 'version: "3"\nstruct A { x @0: [u8, 1e3], }\n',
    "neg_array_size": 'version: "3"\nstruct A { x @0: [u8, -2], }\n',
    "u0": 'version: "3"\nstruct A { x @0: u0, }\n',
    "u99": 'version: "3"\nstruct A { x @0: u99, }\n',
    "u100": 'version: "3"\nstruct A { x @0: u100, }\n',
    "unknown_type": 'version: "3"\nstruct A { x @0: B, }\n',
    "unknown_in_array": 'version: "3"\nstruct A { x @0: [B, 3], }\n',
    "unknown_in_opt_dyn": 'version: "3"\nstruct A { x @0: Optional[[B]], }\n',
    "forward_ref": 'version: "3"\nstruct A { x @0: B, }\nstruct B { y @0: u8, }\n',
    "self_ref": 'version: "3"\nstruct A { x @0: A, }\n',
    "second_field_bad": 'version: "3"\nstruct A { x @0: u8,\n y @1: Q,\n z @2: R, }\n',
    "two_bad_structs": 'version: "3"\nstruct A { x @0: Q, }\nstruct B { x @0: R, }\n',
    "wrong_version": 'version: "2"\nstruct A { x @0: u8, }\n',
    "wrong_version_and_type": 'version: "4"\nstruct A { x @0: Q, }\n',
    "no_version": "struct A { x @0: u8, }\n",
    "only_version": 'version: "3"',
    "float_service_id": 'version: "3"\nstruct A { x @0: u8, }\nservice S @1.5 { method M(A) @0 returns A, }\n',
    "float_method_id": 'version: "3"\nstruct A { x @0: u8, }\nservice S @1 { method M(A) @0.5 returns A, }\n',
    "dup_struct": 'version: "3"\nstruct A { x @0: u8, }\nstruct A { y @0: u8, }\nstruct B { a @0: A, }\n',
    "struct_enum_same_name": 'version: "3"\nenum A { X = 0, }\nstruct A { x @0: u8, }\nstruct B { a @0: A, }\n',
    "impl_no_as_name": 'version: "3"\nstruct A { x @0: u8, }\nimpl p for A B { id: 1, }\n',
    "impl_dup_fields": 'version: "3"\nstruct A { x @0: u8, }\nimpl p for A { id: 1, id: 2, }\n',
    "mod_missing_inmem": 'version: "3"\nmod nothere;\n',
    "mod_dotted_missing": 'version: "3"\nmod a.b.c;\nstruct A { x @0: u8, }\n',
    "empty": "",
    "spaces": "  \n\t\n",
    "comment_only": "// nothing\n",
    "unterminated_comment": 'version: "3"\n/* never closed',
    "unterminated_string": 'version: "3',
    "tabs": 'version: "3"\nstruct A {\n\tx @0:\tQ,\n}\n',
    "crlf": 'version: "3"\r\nstruct A { x @0: u8, }\r\n',
    "unicode": 'version: "3"\nstruct Aé { x @0: u8, }\n',
    "nul": 'version: "3"\nstruct A { x @0: u8, }\x00',
    "last_line_no_newline_bad": 'version: "3"\nstruct A { x @0: u8, } $',
    "bad_char_line1": '$version: "3"',
    "bad_after_blank_lines": 'version: "3"\n\n\n\n   ?\n',
}


TOKEN = re.compile(r'[A-Za-z_]\w*|-?\d+(?:\.\d+)?|"[^"\n]*"|\S')


def mutations(rng, source, count):
    tokens = TOKEN.findall(source)
    replacements = ["struct", "enum", "{", "}", ",", "@", ":", "u8", "7", "1.5",
                    '"s"', "[", "]", "mod", ";", "Optional", "|", "(", ")", "=",
                    "impl", "for", "as", "signal", "x", "$", "version"]
    out = []
    for _ in range(count):
        toks = list(tokens)
        i = rng.randrange(len(toks))
        kind = rng.choice(["delete", "duplicate", "swap", "replace"])
        if kind == "delete":
            del toks[i]
        elif kind == "duplicate":
            toks.insert(i, toks[i])
        elif kind == "swap":
            j = rng.randrange(len(toks))
            toks[i], toks[j] = toks[j], toks[i]
        else:
            toks[i] = rng.choice(replacements)
        sep = rng.choice([" ", "\n", " \n  "])
        out.append((kind, sep.join(toks)))
    return out


def random_texts(rng, count):
    alphabet = list('abuisf0123456789 \n\t{}[](),:;@|="./*_-$') + [
        "struct ", "enum ", 'version: "3"\n', "mod ", "impl ", "Optional", "u8",
    ]
    for _ in range(count):
        yield "".join(rng.choice(alphabet) for _ in range(rng.randrange(0, 60)))


# --------------------------------------------------------------------------
# multi-file schemas

MODULES = {
    "good.fcp": 'version: "3"\nenum Colour { Red = 0, Green = 1, }\nstruct Point { x @0: i16, y @1: i16, c @2: Colour, }\n',
    "nested.fcp": 'version: "3"\nmod good;\nstruct Line { a @0: Point, b @1: Point, }\n',
    "sub/leaf.fcp": 'version: "3"\nstruct Leaf { v @0: u8, }\n',
    "sub/branch.fcp": 'version: "3"\nmod leaf;\nstruct Branch { l @0: [Leaf, 2], }\n',
    "badchar.fcp": 'version: "3"\nstruct P { x @0: u8, }\n\n  % oops\n',
    "truncated.fcp": 'version: "3"\nstruct P { x @0: u8,',
    "emptyfile.fcp": "",
    "illtyped.fcp": 'version: "3"\nstruct P { x @0.5: u8, }\n',
    "emptyenum.fcp": 'version: "3"\nenum Nope { }\n',
    "unknowntype.fcp": 'version: "3"\nstruct P {\n x @0: u8,\n y @1: Missing,\n}\n',
    "oldversion.fcp": 'version: "2"\nstruct P { x @0: u8, }\n',
    "imports_missing.fcp": 'version: "3"\nmod ghost;\n',
    "imports_badchar.fcp": 'version: "3"\n\nmod badchar;\n',
    "imports_truncated.fcp": 'version: "3"\n\n\nmod truncated;\n',
    "imports_illtyped.fcp": 'version: "3"\nmod illtyped;\n',
    "imports_unknowntype.fcp": 'version: "3"\nmod unknowntype;\n',
}

MAINS = {
    "use_good": 'version: "3"\nmod good;\nstruct S { p @0: Point, c @1: [Colour, 3], }\n',
    "use_nested": 'version: "3"\nmod nested;\nstruct S { l @0: Line, p @1: Optional[Point], }\n',
    "use_dotted": 'version: "3"\nmod sub.leaf;\nstruct S { l @0: Leaf, }\n',
    "use_dotted_nested": 'version: "3"\nmod sub.branch;\nstruct S { b @0: Branch, l @1: Leaf, }\n',
    "use_twice": 'version: "3"\nmod good;\nmod good;\nstruct S { p @0: Point, }\n',
    "two_mods": 'version: "3"\nmod good;\nmod sub.leaf;\nstruct S { p @0: Point, l @1: Leaf, }\n',
    "mod_after_use": 'version: "3"\nstruct S { p @0: Point, }\nmod good;\n',
    "mod_badchar": 'version: "3"\n// a comment line\nmod badchar;\nstruct S { x @0: u8, }\n',
    "mod_truncated": 'version: "3"\n\nmod truncated;\n',
    "mod_emptyfile": 'version: "3"\nmod emptyfile;\n',
    "mod_illtyped": 'version: "3"\nmod illtyped;\n',
    "mod_emptyenum": 'version: "3"\nmod emptyenum;\n',
    "mod_unknowntype": 'version: "3"\nmod unknowntype;\nstruct S { x @0: u8, }\n',
    "mod_oldversion": 'version: "3"\nmod oldversion;\n',
    "mod_missing": 'version: "3"\nmod ghost;\n',
    "mod_missing_dotted": 'version: "3"\nmod sub.ghost;\n',
    "mod_imports_missing": 'version: "3"\nmod imports_missing;\n',
    "mod_imports_badchar": 'version: "3"\nmod imports_badchar;\n',
    "mod_imports_truncated": 'version: "3"\nmod imports_truncated;\n',
    "mod_imports_illtyped": 'version: "3"\nmod imports_illtyped;\n',
    "mod_imports_unknowntype": 'version: "3"\nmod imports_unknowntype;\n',
    "good_then_bad": 'version: "3"\nmod good;\nmod badchar;\n',
    "bad_then_good": 'version: "3"\nmod truncated;\nmod good;\n',
    "good_then_local_error": 'version: "3"\nmod good;\nstruct S { p @0: Pint, }\n',
    "main_truncated": 'version: "3"\nmod good;\nstruct S { p @0: Point',
    "main_badchar": 'version: "3"\nmod good;\n#\n',
}


def run_multi_file():
    tmp = pathlib.Path(tempfile.mkdtemp(prefix="c11demo"))
    try:
        for name, text in MODULES.items():
            path = tmp / name
            path.parent.mkdir(parents=True, exist_ok=True)
            path.write_text(text)
        for name, text in MAINS.items():
            path = tmp / (name + ".fcp")
            path.write_text(text)
            first = run_file(f"file:{name}", path, tmp)
            # repeated call: same outcome, nothing left over from the first
            second = run_file(f"file:{name}", path, tmp)
            if first is not None and second is not None:
                if transcript[-1] != transcript[-2]:
                    fail(f"file:{name}: repeated parse differs")
        # every module parsed on its own as a top-level file too
        for name in MODULES:
            run_file(f"top:{name}", tmp / name, tmp)
        # a path that does not end in .fcp and one given as pathlib.Path
        odd = tmp / "noext"
        odd.write_text(MAINS["use_good"])
        run_file("file:noext", odd, tmp)
        logger = Logger({}, enable_file_paths=False)
        result = get_fcp(tmp / "use_nested.fcp", logger)
        check_outcome("file:pathlib", result, logger, tmp)
    finally:
        shutil.rmtree(tmp, ignore_errors=True)


def run_repository_schemas():
    for scope in ("syntax", "error", "verifier"):
        for path in sorted((FCP_ROOT / "tests" / "schemas" / scope).glob("*.fcp")):
            result = run_file(f"repo:{scope}/{path.name}", path, FCP_ROOT)
            if result is None:
                continue
            expected = path.with_suffix(".json")
            if scope == "syntax" and expected.exists():
                if not result.is_ok():
                    fail(f"{path.name}: valid schema rejected")
                elif result.unwrap().to_dict() != json.loads(expected.read_text()):
                    fail(f"{path.name}: AST differs from the pinned json")
            expected = path.with_suffix(".txt")
            if scope == "error" and expected.exists():
                logger = Logger({}, enable_file_paths=False)
                again = get_fcp(path, logger)
                if not again.is_err() or logger.error(again.err()) != expected.read_text():
                    fail(f"{path.name}: diagnostic differs from the pinned text")


def main():
    rng = random.Random(20240611)

    for name, source in VALID.items():
        result = run_string(f"valid:{name}", source)
        if result is None or not result.is_ok():
            fail(f"valid:{name}: valid schema rejected")
        run_string(f"valid-default-logger:{name}", source, shared_logger=True)

    for name, source in OUT_OF_DOMAIN.items():
        run_string(f"ood:{name}", source)

    # every prefix of the valid schemas
    for name, source in VALID.items():
        for cut in range(len(source)):
            run_string(f"prefix:{name}:{cut}", source[:cut])

    for name, source in VALID.items():
        for n, (kind, text) in enumerate(mutations(rng, source, 60)):
            run_string(f"mutation:{name}:{n}:{kind}", text)

    for n, text in enumerate(random_texts(rng, 150)):
        run_string(f"random:{n}", text)

    run_multi_file()
    run_repository_schemas()
    run_error_unit_checks()
    run_verifier_errors()

    digest = hashlib.sha256("\x1e".join(transcript).encode()).hexdigest()
    print(f"{len(transcript)} outcomes checked, digest {digest}")
    if os.environ.get("C11_DUMP"):
        pathlib.Path(os.environ["C11_DUMP"]).write_text("\x1e".join(transcript))
    if digest != EXPECTED_DIGEST:
        fail(f"transcript digest {digest} != recorded {EXPECTED_DIGEST}")

    if failures:
        print(f"FAIL ({len(failures)} problems)")
        return 1
    print("PASS")
    return 0


if __name__ == "__main__":
    sys.exit(main())
