#!/venv/bin/python
"""C01 demo 2: Python codec round-trip of messages with several fixed arrays.

Exits 0 / prints PASS when decode(encode(v)) == v for all the exercised values,
exits 1 / prints FAIL otherwise.
"""
import sys

from fcp.parser import get_fcp_from_string
from fcp.serde import encode, decode
from fcp.verifier import make_general_verifier

SCHEMA = """version: "3"

enum Mode {
    Off = 0,
    On = 1,
    Auto = 2,
}

struct Point {
    x @0: i16,
    y @1: i16,
}

struct OneArray {
    mac @0: [u8, 6],
    crc @1: u16,
}

struct TwoArrays {
    mac @0: [u8, 6],
    ip @1: [u8, 4],
    port @2: u16,
}

struct Nested {
    corners @0: [Point, 2],
    path @1: [Point, 3],
    modes @2: [[Mode, 2], 2],
    grid @3: [[Mode, 3], 2],
}
"""

CASES = [
    # control: a single fixed array per message
    ("OneArray", {"mac": [1, 2, 3, 4, 5, 6], "crc": 0xABCD}),
    # same element type, different sizes
    ("TwoArrays", {"mac": [1, 2, 3, 4, 5, 6], "ip": [10, 0, 0, 1], "port": 8080}),
    (
        "Nested",
        {
            "corners": [{"x": 1, "y": -2}, {"x": 3, "y": -4}],
            "path": [{"x": 5, "y": 6}, {"x": 7, "y": 8}, {"x": -9, "y": 10}],
            "modes": [[0, 1], [2, 0]],
            "grid": [[0, 1, 2], [2, 1, 0]],
        },
    ),
]


def main() -> int:
    fcp = get_fcp_from_string(SCHEMA).unwrap()
    assert make_general_verifier().verify(fcp).is_ok()

    ok = True
    for name, value in CASES:
        try:
            encoded = encode(fcp, name, value)
            decoded = decode(fcp, name, encoded)
        except Exception as e:  # noqa: BLE001
            print("  exception for", name, value, "->", repr(e))
            ok = False
            continue
        if decoded != value:
            print("  mismatch for", name, "\n    in :", value, "\n    out:", decoded, "\n    hex:", encoded.hex())
            ok = False

    print("PASS" if ok else "FAIL")
    return 0 if ok else 1


if __name__ == "__main__":
    sys.exit(main())
