#!/venv/bin/python
"""C20 demo 1: a module that lives in a sub-directory imports a sibling module.

main.fcp            : mod sensors.temperature;   (dotted path, resolved next to main.fcp)
sensors/temperature : mod units;                 (must resolve to sensors/units.fcp)
sensors/units       : enum Unit, struct Scale

The split schema must give the same structs / enums / impls / services /
devices as the equivalent single file.
"""
import os
import pathlib
import sys
import tempfile

from fcp.parser import get_fcp
from fcp.error import Logger

UNITS = """
enum Unit {
    Celsius = 0,
    Kelvin = 1,
}

struct Scale {
    unit @0: Unit,
    factor @1: f32,
}
"""

TEMPERATURE = """
struct Temperature {
    value @0: i16 | unit("C"),
    scale @1: Scale,
}

impl can for Temperature {
    id: 16,
}
"""

MAIN = """
struct SensorInformation {
    temperature @0: Temperature,
    unit @1: Unit,
}

service SensorService @0 {
    method GetTemperature(Scale) @0 returns SensorInformation,
}

device ecu {
    services: [SensorService],
}
"""

PRE = 'version: "3"\n'


def write(root, files):
    for name, text in files.items():
        path = pathlib.Path(root) / name
        path.parent.mkdir(parents=True, exist_ok=True)
        path.write_text(text)


def summary(fcp):
    d = fcp.to_dict()
    return {
        "structs": {s["name"]: s for s in d["structs"]},
        "enums": {e["name"]: e for e in d["enums"]},
        "impls": {(i["name"], i["protocol"]): i for i in d["impls"]},
        "services": {s["name"]: s for s in d["services"]},
        "devices": {s["name"]: s for s in d["devices"]},
    }


def main():
    with tempfile.TemporaryDirectory() as tmp:
        single = os.path.join(tmp, "single")
        split = os.path.join(tmp, "split")
        write(single, {"main.fcp": PRE + UNITS + TEMPERATURE + MAIN})
        write(
            split,
            {
                "main.fcp": PRE + "mod sensors.temperature;\n" + MAIN,
                "sensors/temperature.fcp": PRE + "mod units;\n" + TEMPERATURE,
                "sensors/units.fcp": PRE + UNITS,
            },
        )

        reference = get_fcp(os.path.join(single, "main.fcp"), Logger({}))
        if reference.is_err():
            print("FAIL: single-file schema does not parse:", reference.err())
            return 1

        logger = Logger({})
        result = get_fcp(os.path.join(split, "main.fcp"), logger)
        if result.is_err():
            print("FAIL: split schema is rejected although the single file is fine:")
            print(repr(result.err()))
            return 1

        if summary(result.unwrap()) != summary(reference.unwrap()):
            print("FAIL: split schema differs from the single-file schema")
            print(" single:", reference.unwrap().to_dict())
            print(" split :", result.unwrap().to_dict())
            return 1

    print("PASS")
    return 0


if __name__ == "__main__":
    sys.exit(main())
