#!/usr/bin/env python
"""C02 demo 3: floats inside arrays are IEEE-754 words in both directions.

A fixed-size array of f32 and a dynamic array of f64 are encoded and the
result compared with the canonical bytes (little endian IEEE-754 words back
to back, u32 count in front of the dynamic array); the canonical bytes are
then decoded and must give the original floats back.
"""
import struct
import sys
import tempfile
from pathlib import Path

from fcp.parser import get_fcp
from fcp.serde import encode, decode

SCHEMA = """version: "3"

struct Imu {
    accel @ 0: [f32, 3],
    seq @ 1: u8,
}

struct Trace {
    id @ 0: u8,
    samples @ 1: [f64],
}
"""

CASES = [
    (
        "Imu",
        {"accel": [1.0, -2.5, 0.0], "seq": 9},
        struct.pack("<fffB", 1.0, -2.5, 0.0, 9),
    ),
    (
        "Trace",
        {"id": 3, "samples": [0.5, -1024.0]},
        struct.pack("<BIdd", 3, 2, 0.5, -1024.0),
    ),
]


def main() -> int:
    with tempfile.TemporaryDirectory() as d:
        path = Path(d) / "demo.fcp"
        path.write_text(SCHEMA)
        fcp = get_fcp(path).unwrap()

    ok = True
    for name, value, canonical in CASES:
        try:
            encoded = bytes(encode(fcp, name, value))
            if encoded != canonical:
                print(f"{name}: encoded   {encoded.hex()}")
                print(f"{name}: canonical {canonical.hex()}")
                ok = False
        except Exception as e:  # noqa: BLE001
            print(f"{name}: encode raised {e!r}")
            ok = False
        try:
            decoded = decode(fcp, name, bytearray(canonical))
            if decoded != value or not all(
                type(a) is type(b)
                for k in value
                if isinstance(value[k], list)
                for a, b in zip(decoded[k], value[k])
            ):
                print(f"{name}: decoded {decoded} expected {value}")
                ok = False
        except Exception as e:  # noqa: BLE001
            print(f"{name}: decode of {canonical.hex()} raised {e!r}")
            ok = False

    print("PASS" if ok else "FAIL")
    return 0 if ok else 1


if __name__ == "__main__":
    sys.exit(main())
