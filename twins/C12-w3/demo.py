#!/usr/bin/env python
"""Differential test for property C12.

"Reflection is a lossless, faithful description of the schema": for every
accepted schema the reflection record
  * equals an independently computed description of the AST (reference walker
    written in this file, no call to any .reflection() method),
  * lists the values declared in the source (hand written expectations),
  * is serialised by fcp.serde with the built-in reflection schema to exactly
    the bytes an independent byte packer (written in this file) produces,
  * decodes back to the very same record.

Run with PYTHONPATH pointing at the worktree under test.  Prints PASS and
exits 0 when everything holds.
"""

import json
import os
import pathlib
import random
import struct
import sys
import tempfile

from fcp.parser import get_fcp_from_string, get_fcp
from fcp.reflection import get_reflection_schema
from fcp.serde import encode, decode
from fcp.specs.v2 import FcpV2, encode_version
from fcp.specs.struct import Struct
from fcp.specs.struct_field import StructField
from fcp.specs.enum import Enum, Enumeration
from fcp.specs.impl import Impl
from fcp.specs.signal_block import SignalBlock
from fcp.specs.service import Service
from fcp.specs.method import Method
from fcp.specs.metadata import MetaData
from fcp.specs.type import (
    Type,
    ArrayType,
    StructType,
    EnumType,
    DynamicArrayType,
    OptionalType,
    StringType,
    UnsignedType,
    SignedType,
    FloatType,
    DoubleType,
)

FCP_ROOT = pathlib.Path(os.environ.get("FCP_ROOT", "/tmp/twin3-C12"))

CHECKS = 0


def check(cond, what):
    global CHECKS
    CHECKS += 1
    if not cond:
        print("FAIL:", what)
        sys.exit(1)


def same(a, b):
    """Equal values AND equal key order / types all the way down."""
    return a == b and json.dumps(a) == json.dumps(b)


def same_values(a, b):
    """Equal values and types all the way down, key order not considered."""
    return a == b and json.dumps(a, sort_keys=True) == json.dumps(b, sort_keys=True)


# member order (by field id) of the records declared in reflection.fcp
ID_ORDER = [
    ["line", "end_line", "column", "end_column", "start_pos", "end_pos", "filename"],
    ["name", "size", "type"],
    ["name", "field_id", "type", "unit", "min_value", "max_value", "meta"],
    ["name", "fields", "meta"],
    ["name", "value", "meta"],
    ["name", "enumeration", "meta"],
    ["name", "value"],
    ["name", "protocol", "type", "fields", "signals", "meta"],
    ["name", "id", "input", "output", "meta"],
    ["name", "id", "methods", "meta"],
    ["tag", "version", "structs", "enums", "impls", "services"],
]


def in_id_order(x):
    """The record with the members of every dict put in field-id order."""
    if isinstance(x, dict):
        (order,) = [o for o in ID_ORDER if sorted(o) == sorted(x)]
        return {k: in_id_order(x[k]) for k in order}
    if isinstance(x, list):
        return [in_id_order(v) for v in x]
    return x


# --------------------------------------------------------------------------
# Reference 1: description of the AST, written without any .reflection()
# --------------------------------------------------------------------------


def ref_meta(meta):
    if not meta:
        return None
    return {
        "line": meta.line,
        "end_line": meta.end_line,
        "column": meta.column,
        "end_column": meta.end_column,
        "start_pos": meta.start_pos,
        "end_pos": meta.end_pos,
        "filename": meta.filename,
    }


def ref_type_chain(t):
    chain = []
    while True:
        if isinstance(t, ArrayType):
            chain.append({"name": "Array", "type": "Array", "size": t.size})
            t = t.underlying_type
        elif isinstance(t, DynamicArrayType):
            chain.append({"name": "DynamicArray", "type": "DynamicArray", "size": 1})
            t = t.underlying_type
        elif isinstance(t, OptionalType):
            chain.append({"name": "Optional", "type": "Optional", "size": 1})
            t = t.underlying_type
        elif isinstance(t, StringType):
            chain.append({"name": "str", "type": "str", "size": 1})
            return chain
        elif isinstance(t, EnumType):
            chain.append({"name": t.name, "type": "Enum", "size": 1})
            return chain
        elif isinstance(t, StructType):
            chain.append({"name": t.name, "type": "Struct", "size": 1})
            return chain
        elif isinstance(t, UnsignedType):
            chain.append({"name": t.name, "type": "unsigned", "size": 1})
            return chain
        elif isinstance(t, SignedType):
            chain.append({"name": t.name, "type": "signed", "size": 1})
            return chain
        elif isinstance(t, FloatType):
            chain.append({"name": "f32", "type": "float", "size": 1})
            return chain
        elif isinstance(t, DoubleType):
            chain.append({"name": "f64", "type": "double", "size": 1})
            return chain
        else:
            raise AssertionError("unknown type " + repr(t))


def ref_dict_fields(fields):
    out = []
    for k in fields:
        out.append({"name": k, "value": str(fields[k])})
    return out


def ref_record(fcp):
    structs = []
    for s in fcp.structs:
        fields = []
        # stable insertion sort by id, written out by hand
        ordered = []
        for f in s.fields:
            pos = len(ordered)
            while pos > 0 and ordered[pos - 1].field_id > f.field_id:
                pos -= 1
            ordered.insert(pos, f)
        for f in ordered:
            fields.append(
                {
                    "name": f.name,
                    "field_id": f.field_id,
                    "type": ref_type_chain(f.type),
                    "unit": f.unit,
                    "min_value": f.min_value,
                    "max_value": f.max_value,
                    "meta": ref_meta(f.meta),
                }
            )
        structs.append({"name": s.name, "fields": fields, "meta": ref_meta(s.meta)})

    enums = []
    for e in fcp.enums:
        enums.append(
            {
                "name": e.name,
                "enumeration": [
                    {"name": x.name, "value": x.value, "meta": ref_meta(x.meta)}
                    for x in e.enumeration
                ],
                "meta": ref_meta(e.meta),
            }
        )

    impls = []
    for i in fcp.impls:
        impls.append(
            {
                "name": i.name,
                "protocol": i.protocol,
                "type": i.type,
                "fields": ref_dict_fields(i.fields),
                "signals": [
                    {
                        "name": sb.name,
                        "fields": ref_dict_fields(sb.fields),
                        "meta": ref_meta(sb.meta),
                    }
                    for sb in i.signals
                ],
                "meta": ref_meta(i.meta),
            }
        )

    services = []
    for sv in fcp.services:
        services.append(
            {
                "name": sv.name,
                "id": sv.id,
                "methods": [
                    {
                        "name": m.name,
                        "id": m.id,
                        "input": m.input,
                        "output": m.output,
                        "meta": ref_meta(m.meta),
                    }
                    for m in sv.methods
                ],
                "meta": ref_meta(sv.meta),
            }
        )

    major, minor = fcp.version.split(".")
    return {
        "tag": [0x66, 0x63, 0x70],
        "version": int(major) * 1000 + int(minor),
        "structs": structs,
        "enums": enums,
        "impls": impls,
        "services": services,
    }


# --------------------------------------------------------------------------
# Reference 2: byte packer for the layout declared in reflection.fcp.
# Every member of the reflection schema is a whole number of bytes.
# --------------------------------------------------------------------------


class Out:
    def __init__(self):
        self.b = bytearray()

    def uint(self, v, nbytes):
        self.b += (v & ((1 << (8 * nbytes)) - 1)).to_bytes(nbytes, "little")

    def text(self, s):
        self.uint(len(s), 4)
        self.b += bytes(ord(c) & 0xFF for c in s)

    def opt(self, v, writer):
        if v is None:
            self.uint(0, 1)
        else:
            self.uint(1, 1)
            writer(v)

    def seq(self, xs, writer):
        self.uint(len(xs), 4)
        for x in xs:
            writer(x)

    def f64(self, v):
        self.b += struct.pack("=d", v)

    # --- records, members in field-id order of reflection.fcp
    def meta(self, m):
        for k in ("line", "end_line", "column", "end_column", "start_pos", "end_pos"):
            self.uint(m[k], 4)
        self.text(m["filename"])

    def type_(self, t):
        self.text(t["name"])
        self.uint(t["size"], 4)
        self.text(t["type"])

    def struct_field(self, f):
        self.text(f["name"])
        self.uint(f["field_id"], 4)
        self.seq(f["type"], self.type_)
        self.opt(f["unit"], self.text)
        self.opt(f["min_value"], self.f64)
        self.opt(f["max_value"], self.f64)
        self.opt(f["meta"], self.meta)

    def struct_(self, s):
        self.text(s["name"])
        self.seq(s["fields"], self.struct_field)
        self.opt(s["meta"], self.meta)

    def enumeration(self, e):
        self.text(e["name"])
        self.uint(e["value"], 4)
        self.opt(e["meta"], self.meta)

    def enum(self, e):
        self.text(e["name"])
        self.seq(e["enumeration"], self.enumeration)
        self.opt(e["meta"], self.meta)

    def dict_field(self, d):
        self.text(d["name"])
        self.text(d["value"])

    def signal_block(self, s):
        self.text(s["name"])
        self.seq(s["fields"], self.dict_field)
        self.opt(s["meta"], self.meta)

    def impl(self, i):
        self.text(i["name"])
        self.text(i["protocol"])
        self.text(i["type"])
        self.seq(i["fields"], self.dict_field)
        self.seq(i["signals"], self.signal_block)
        self.opt(i["meta"], self.meta)

    def method(self, m):
        self.text(m["name"])
        self.uint(m["id"], 4)
        self.text(m["input"])
        self.text(m["output"])
        self.opt(m["meta"], self.meta)

    def service(self, s):
        self.text(s["name"])
        self.uint(s["id"], 4)
        self.seq(s["methods"], self.method)
        self.opt(s["meta"], self.meta)

    def fcp(self, r):
        assert len(r["tag"]) == 3
        for x in r["tag"]:
            self.uint(x, 1)
        self.uint(r["version"], 2)
        self.seq(r["structs"], self.struct_)
        self.seq(r["enums"], self.enum)
        self.seq(r["impls"], self.impl)
        self.seq(r["services"], self.service)


def ref_bytes(record):
    out = Out()
    out.fcp(record)
    return out.b


# --------------------------------------------------------------------------
# The property, checked on one schema
# --------------------------------------------------------------------------

REFLECTION_SCHEMA = get_reflection_schema().unwrap()


def check_schema(fcp, label):
    rec = fcp.reflection()
    expected = ref_record(fcp)
    check(same(rec, expected), f"{label}: record differs from reference description")

    # every node of the AST is listed
    check(len(rec["structs"]) == len(fcp.structs), f"{label}: struct count")
    check(len(rec["enums"]) == len(fcp.enums), f"{label}: enum count")
    check(len(rec["impls"]) == len(fcp.impls), f"{label}: impl count")
    check(len(rec["services"]) == len(fcp.services), f"{label}: service count")
    for s, rs in zip(fcp.structs, rec["structs"]):
        check(len(s.fields) == len(rs["fields"]), f"{label}: field count {s.name}")
        check(
            sorted(f.name for f in s.fields) == sorted(f["name"] for f in rs["fields"]),
            f"{label}: field names {s.name}",
        )

    blob = encode(REFLECTION_SCHEMA, "Fcp", rec)
    check(isinstance(blob, bytearray), f"{label}: encode returns bytearray")
    check(blob == ref_bytes(expected), f"{label}: bytes differ from reference packer")

    back = decode(REFLECTION_SCHEMA, "Fcp", blob)
    check(same_values(back, rec), f"{label}: decode(encode(record)) != record")
    check(same(back, in_id_order(expected)), f"{label}: decoded record != reference")

    # repeated calls: same again, results are not shared with earlier results
    rec2 = fcp.reflection()
    check(same(rec2, expected), f"{label}: second reflection() differs")
    scribble(rec)
    rec3 = fcp.reflection()
    check(same(rec3, expected), f"{label}: reflection() after caller mutated result")
    check(encode(REFLECTION_SCHEMA, "Fcp", rec3) == blob, f"{label}: second encode")
    check(
        same(decode(REFLECTION_SCHEMA, "Fcp", bytearray(blob)), in_id_order(expected)),
        f"{label}: second decode",
    )
    # truncated input never decodes silently
    for cut in (1, len(blob) // 2):
        if cut >= len(blob):
            continue
        try:
            decode(REFLECTION_SCHEMA, "Fcp", blob[: len(blob) - cut])
        except ValueError as e:
            check(str(e) == "buffer overrrun", f"{label}: truncated message {e}")
        else:
            check(False, f"{label}: truncated input decoded")
    return expected


def scribble(x):
    """Destroy a record in place (lists and dicts)."""
    if isinstance(x, dict):
        for k in list(x):
            scribble(x[k])
            x[k] = "scribbled"
        x["extra"] = 1
    elif isinstance(x, list):
        for v in x:
            scribble(v)
        x.append("scribbled")


# --------------------------------------------------------------------------
# Inputs
# --------------------------------------------------------------------------

RICH = """version: "3"
// every node kind
enum E { A = 0, B = 1, C = 7, }
enum Single { Only = 0, }
enum Wide { Lo = 3, Hi = 1000000, Neg = -5, }
struct T { x @0: f64 | range(0.0, 10.0), }
struct S {
  a @0: u8 | unit("V") | range(-1.5, 2.5),
  b @2: [[i13, 2], 3],
  c @1: Optional[[E]],
  d @3: f32 | unit("m/s"),
  e @4: T,
  f @5: str,
  g @9: [Optional[[[T, 4]]], 2] | unit(""),
  h @7: Optional[Optional[str]],
  i @8: i64 | range(-9.223372036854776e18, 1.0e300),
}
impl can for S as Foo {
  id: 10,
  name: "hello",
  arr: [1, 2, 3],
  mixed: [a, "b", 2.5, [1, [2]]],
  dev: ecu,
  ratio: -0.25,
  signal a { bitstart: 0, mux: "x", },
  signal b { scale: 1.5e-3, },
}
impl can for T { id: 11, }
impl lin for S { signal f { endian: little, }, }
service Svc @3 { method M(S) @1 returns T, method N(T) @2 returns S, }
service Other @4294967295 { method Z(T) @0 returns T, }
device ecu { services: [Svc], }
"""


def hand_checked():
    fcp = get_fcp_from_string(RICH).unwrap()
    rec = check_schema(fcp, "rich")

    s = rec["structs"][1]
    check(s["name"] == "S", "rich: struct S")
    check(
        [f["name"] for f in s["fields"]] == ["a", "c", "b", "d", "e", "f", "h", "i", "g"],
        "rich: fields in id order",
    )
    check(
        [f["field_id"] for f in s["fields"]] == [0, 1, 2, 3, 4, 5, 7, 8, 9],
        "rich: field ids",
    )
    by_name = {f["name"]: f for f in s["fields"]}
    a = by_name["a"]
    check(
        (a["unit"], a["min_value"], a["max_value"]) == ("V", -1.5, 2.5),
        "rich: unit/range of a",
    )
    check(a["type"] == [{"name": "u8", "type": "unsigned", "size": 1}], "rich: type a")
    check(
        by_name["b"]["type"]
        == [
            {"name": "Array", "type": "Array", "size": 3},
            {"name": "Array", "type": "Array", "size": 2},
            {"name": "i13", "type": "signed", "size": 1},
        ],
        "rich: type b",
    )
    check(
        by_name["c"]["type"]
        == [
            {"name": "Optional", "type": "Optional", "size": 1},
            {"name": "DynamicArray", "type": "DynamicArray", "size": 1},
            {"name": "E", "type": "Enum", "size": 1},
        ],
        "rich: type c",
    )
    check(
        by_name["g"]["type"]
        == [
            {"name": "Array", "type": "Array", "size": 2},
            {"name": "Optional", "type": "Optional", "size": 1},
            {"name": "DynamicArray", "type": "DynamicArray", "size": 1},
            {"name": "Array", "type": "Array", "size": 4},
            {"name": "T", "type": "Struct", "size": 1},
        ],
        "rich: type g",
    )
    check(by_name["g"]["unit"] == "", "rich: empty unit kept")
    check(
        by_name["h"]["type"]
        == [
            {"name": "Optional", "type": "Optional", "size": 1},
            {"name": "Optional", "type": "Optional", "size": 1},
            {"name": "str", "type": "str", "size": 1},
        ],
        "rich: type h",
    )
    check(by_name["d"]["unit"] == "m/s" and by_name["d"]["min_value"] is None, "rich: d")
    check(by_name["e"]["type"] == [{"name": "T", "type": "Struct", "size": 1}], "rich: e")
    check(by_name["f"]["type"] == [{"name": "str", "type": "str", "size": 1}], "rich: f")
    check(
        (by_name["i"]["min_value"], by_name["i"]["max_value"])
        == (-9.223372036854776e18, 1.0e300),
        "rich: range i",
    )
    check(rec["structs"][0]["fields"][0]["min_value"] == 0.0, "rich: T.x range")

    check(
        [(e["name"], [(x["name"], x["value"]) for x in e["enumeration"]]) for e in rec["enums"]]
        == [
            ("E", [("A", 0), ("B", 1), ("C", 7)]),
            ("Single", [("Only", 0)]),
            ("Wide", [("Lo", 3), ("Hi", 1000000), ("Neg", -5)]),
        ],
        "rich: enums",
    )

    impls = [(i["name"], i["protocol"], i["type"]) for i in rec["impls"]]
    check(
        impls
        == [
            ("T", "default", "T"),
            ("S", "default", "S"),
            ("Foo", "can", "S"),
            ("T", "can", "T"),
            ("S", "lin", "S"),
        ],
        "rich: impls",
    )
    foo = rec["impls"][2]
    check(
        foo["fields"]
        == [
            {"name": "id", "value": "10"},
            {"name": "name", "value": "hello"},
            {"name": "arr", "value": "[1, 2, 3]"},
            {"name": "mixed", "value": "['a', 'b', 2.5, [1, [2]]]"},
            {"name": "dev", "value": "ecu"},
            {"name": "ratio", "value": "-0.25"},
        ],
        "rich: Foo extension fields",
    )
    check(
        [(sb["name"], sb["fields"]) for sb in foo["signals"]]
        == [
            ("a", [{"name": "bitstart", "value": "0"}, {"name": "mux", "value": "x"}]),
            ("b", [{"name": "scale", "value": "0.0015"}]),
        ],
        "rich: Foo signal blocks",
    )
    check(foo["signals"][0]["meta"]["line"] == 25, "rich: signal meta line")
    check(rec["impls"][4]["signals"][0]["fields"] == [{"name": "endian", "value": "little"}], "rich: lin")
    check(rec["impls"][0]["fields"] == [] and rec["impls"][0]["signals"] == [], "rich: default impl")
    check(
        [
            (s_["name"], s_["id"], [(m["name"], m["id"], m["input"], m["output"]) for m in s_["methods"]])
            for s_ in rec["services"]
        ]
        == [
            ("Svc", 3, [("M", 1, "S", "T"), ("N", 2, "T", "S")]),
            ("Other", 4294967295, [("Z", 0, "T", "T")]),
        ],
        "rich: services",
    )
    check(rec["tag"] == [0x66, 0x63, 0x70] and rec["version"] == 3000, "rich: header")
    check(rec["structs"][1]["meta"]["filename"] == "main.fcp", "rich: meta filename")
    check(rec["structs"][1]["meta"]["line"] == 7, "rich: meta line")

    # the record follows the schema when it is edited afterwards
    fcp.structs[1].fields[0].unit = "mV"
    fcp.structs[1].fields.append(StructField("late", 6, ArrayType(UnsignedType("u3"), 5)))
    fcp.structs.append(Struct(name="Late", fields=[StructField("z", 0, StructType("S"))]))
    fcp.impls[2].fields["added"] = [1.0]
    fcp.impls[2].signals.append(SignalBlock("late", {"k": "v"}, fcp.impls[2].signals[0].meta))
    fcp.enums[0].enumeration.append(Enumeration("D", 8))
    fcp.services[0].methods.append(Method("Late", 9, "Late", "S", None))
    fcp.version = "3.7"
    rec = check_schema(fcp, "rich-edited")
    check(rec["version"] == 3007, "edited: version")
    s = rec["structs"][1]
    check(s["fields"][0]["unit"] == "mV", "edited: unit")
    check([f["name"] for f in s["fields"]][6] == "late", "edited: late field sorted by id")
    check(s["fields"][6]["meta"] is None, "edited: no meta")
    check(rec["structs"][2]["name"] == "Late", "edited: struct")
    check(rec["impls"][2]["fields"][-1] == {"name": "added", "value": "[1.0]"}, "edited: impl field")
    check(rec["impls"][2]["signals"][-1]["name"] == "late", "edited: signal")
    check(rec["enums"][0]["enumeration"][-1]["name"] == "D", "edited: enumerator")
    check(rec["services"][0]["methods"][-1]["name"] == "Late", "edited: method")


SMALL = [
    ("minimal", 'version: "3"\nstruct A { x @0: u1, }\n'),
    ("only-enum", 'version: "3"\nenum E { X = 0, }\n'),
    ("empty", 'version: "3"\n'),
    (
        "ids-out-of-order",
        'version: "3"\nstruct A { c @2: u8, a @0: u8, b @1: u8, z @40: u64, y @39: i2, }\n',
    ),
    (
        "duplicate-ids",
        'version: "3"\nstruct A { c @1: u8, a @1: u16, b @0: u8, d @1: str, }\n',
    ),
    (
        "deep",
        'version: "3"\nstruct A { x @0: ' + "[" * 12 + "u7" + ", 2]" * 12 + ", }\n",
    ),
    (
        "deep-mixed",
        'version: "3"\nenum E { A = 1, }\nstruct A { x @0: '
        + "Optional[[[" * 6
        + "E"
        + ", 3]]]" * 6
        + ", }\n",
    ),
    (
        "long-names",
        'version: "3"\nstruct ' + "N" * 300 + " { " + "f" * 257 + ' @0: u8 | unit("' + "u" * 1000 + '"), }\n',
    ),
    (
        "impl-only-signals",
        'version: "3"\nstruct A { x @0: u8, y @1: u8, }\nimpl p for A { signal x { a: 1, }, signal y { a: 2, }, signal x { a: 3, }, }\n',
    ),
    (
        "same-struct-twice",
        'version: "3"\nstruct A { x @0: u8, }\nstruct B { a @0: A, b @1: [A, 2], c @2: [A], d @3: Optional[A], }\nstruct A { y @0: u16, }\n',
    ),
    (
        "ranges",
        'version: "3"\nstruct A { x @0: i32 | range(-0.0, 0.0), y @1: u8 | range(1.0e-320, 1.7976931348623157e308) | unit("x y"), z @2: f32 | unit("%") | range(-1.0, 1.0), }\n',
    ),
]


def repo_schemas():
    found = []
    for pattern in (
        "tests/schemas/syntax/*.fcp",
        "tests/schemas/verifier/*.fcp",
        "example/**/*.fcp",
        "plugins/*/tests/schemas/**/*.fcp",
        "plugins/*/tests/**/*.fcp",
        "docs/**/*.fcp",
        "src/fcp/reflection/reflection.fcp",
    ):
        found += sorted(FCP_ROOT.glob(pattern))
    seen = []
    for p in found:
        if p not in seen:
            seen.append(p)
    return seen


# ---------------------------------------------------------------- random


def rand_ident(rng, used, prefix):
    while True:
        n = prefix + "".join(rng.choice("abcXYZ_09") for _ in range(rng.randint(0, 6)))
        if n not in used and n not in ("Optional", "str", "f32", "f64"):
            used.add(n)
            return n


def rand_type(rng, structs, enums, depth):
    r = rng.random()
    if depth > 0 and r < 0.45:
        k = rng.choice(["arr", "dyn", "opt"])
        inner = rand_type(rng, structs, enums, depth - 1)
        if k == "arr":
            return "[" + inner + ", " + str(rng.choice([1, 2, 3, 255, 65536, 4294967295])) + "]"
        if k == "dyn":
            return "[" + inner + "]"
        return "Optional[" + inner + "]"
    leaves = ["u" + str(rng.randint(1, 64)), "i" + str(rng.randint(1, 64)), "f32", "f64", "str"]
    if structs:
        leaves.append(rng.choice(structs))
    if enums:
        leaves.append(rng.choice(enums))
    return rng.choice(leaves)


def rand_value(rng, depth=2):
    k = rng.randint(0, 4 if depth else 3)
    if k == 0:
        return str(rng.choice([0, 1, -1, 2**31, -(2**40), rng.randint(-1000, 1000)]))
    if k == 1:
        return repr(rng.choice([0.5, -2.25, 1e10, 1e-7, 123456.789]))
    if k == 2:
        return '"' + "".join(rng.choice("abc XYZ-/%:.[]{}") for _ in range(rng.randint(0, 12))) + '"'
    if k == 3:
        return "id" + str(rng.randint(0, 99))
    return "[" + ", ".join(rand_value(rng, depth - 1) for _ in range(rng.randint(1, 4))) + "]"


def rand_schema(rng):
    used = set()
    out = ['version: "3"']
    structs, enums = [], []
    for _ in range(rng.randint(0, 3)):
        name = rand_ident(rng, used, "E")
        vals = rng.sample(range(0, 5000), rng.randint(1, 6))
        if rng.random() < 0.2:
            vals[0] = -vals[0]
        members = set()
        out.append(
            "enum " + name + " { " + " ".join(rand_ident(rng, members, "k") + " = " + str(v) + "," for v in vals) + " }"
        )
        enums.append(name)
    for _ in range(rng.randint(1, 5)):
        name = rand_ident(rng, used, "S")
        n = rng.randint(1, 8)
        ids = rng.sample(range(0, 3 * n), n)
        fnames = set()
        fields = []
        for fid in ids:
            f = rand_ident(rng, fnames, "f") + " @" + str(fid) + ": " + rand_type(rng, structs, enums, rng.randint(0, 4))
            if rng.random() < 0.4:
                f += ' | unit("' + rng.choice(["V", "m/s", "", "deg C", "%"]) + '")'
            if rng.random() < 0.4:
                lo = rng.choice([-1.5, 0.0, -1e9, 2.0 ** -30])
                f += " | range(" + repr(lo) + ", " + repr(lo + rng.choice([0.0, 1.0, 1e12])) + ")"
            fields.append(f + ",")
        out.append("struct " + name + " {\n  " + "\n  ".join(fields) + "\n}")
        structs.append(name)
        for _ in range(rng.randint(0, 2)):
            body = []
            for _ in range(rng.randint(0, 4)):
                body.append("k" + str(rng.randint(0, 9)) + ": " + rand_value(rng) + ",")
            for _ in range(rng.randint(0, 3)):
                sig = ["s" + str(rng.randint(0, 9)) + ": " + rand_value(rng) + "," for _ in range(rng.randint(1, 3))]
                body.append("signal sig" + str(rng.randint(0, 5)) + " { " + " ".join(sig) + " },")
            rng.shuffle(body)
            if not body:
                body = ["id: 1,"]
            alias = " as Al" + str(rng.randint(0, 99)) if rng.random() < 0.5 else ""
            out.append("impl " + rng.choice(["can", "lin", "default"]) + " for " + name + alias + " { " + " ".join(body) + " }")
    for _ in range(rng.randint(0, 2)):
        name = rand_ident(rng, used, "Svc")
        ms = [
            "method m" + str(i) + "(" + rng.choice(structs) + ") @" + str(rng.randint(0, 2**32 - 1)) + " returns " + rng.choice(structs) + ","
            for i in range(rng.randint(1, 4))
        ]
        out.append("service " + name + " @" + str(rng.randint(0, 1000)) + " { " + " ".join(ms) + " }")
    return "\n".join(out) + "\n"


# ---------------------------------------------------------------- type chains by hand


def type_chains():
    u = UnsignedType("u5")
    cases = [
        (u, [("u5", "unsigned", 1)]),
        (SignedType("i64"), [("i64", "signed", 1)]),
        (FloatType(), [("f32", "float", 1)]),
        (DoubleType(), [("f64", "double", 1)]),
        (StringType(), [("str", "str", 1)]),
        (EnumType("E"), [("E", "Enum", 1)]),
        (StructType("Array"), [("Array", "Struct", 1)]),
        (ArrayType(u, 0), [("Array", "Array", 0), ("u5", "unsigned", 1)]),
        (
            ArrayType(DynamicArrayType(OptionalType(ArrayType(StructType("S"), 7))), 9),
            [
                ("Array", "Array", 9),
                ("DynamicArray", "DynamicArray", 1),
                ("Optional", "Optional", 1),
                ("Array", "Array", 7),
                ("S", "Struct", 1),
            ],
        ),
        (OptionalType(OptionalType(StringType())), [("Optional",) * 2 + (1,)] * 2 + [("str", "str", 1)]),
    ]
    for t, want in cases:
        want = [{"name": n, "type": ty, "size": sz} for n, ty, sz in want]
        got = t.reflection()
        check(same(got, want), f"type chain {want}")
        check(same(got, ref_type_chain(t)), f"type chain vs reference {want}")
        got.append("x")
        got[0]["name"] = "changed"
        check(same(t.reflection(), want), f"type chain fresh on second call {want}")

    # the same inner object used under two wrappers, and a wrapper re-pointed
    shared = ArrayType(u, 2)
    w1, w2 = OptionalType(shared), DynamicArrayType(shared)
    check(w1.reflection()[1:] == w2.reflection()[1:] == shared.reflection(), "shared inner")
    shared.size = 3
    check(w1.reflection()[1]["size"] == 3, "inner size edit visible")
    w1.underlying_type = StringType()
    check(
        w1.reflection() == [{"name": "Optional", "type": "Optional", "size": 1}, {"name": "str", "type": "str", "size": 1}],
        "re-pointed wrapper",
    )
    check(w2.reflection()[1]["size"] == 3, "other wrapper untouched")

    # 150-deep chain
    t = u
    for _ in range(150):
        t = OptionalType(t)
    r = t.reflection()
    check(len(r) == 151 and r[-1]["name"] == "u5" and r[0]["name"] == "Optional", "deep chain")

    for bad in (Type(), ArrayType(Type(), 2), OptionalType(DynamicArrayType(Type()))):
        try:
            bad.reflection()
        except ValueError as e:
            check(str(e) == "Don't use Type directly", "base type message")
        else:
            check(False, "base Type reflected")


# ---------------------------------------------------------------- serde on other schemas

BITS = """version: "3"
enum Small { A = 0, B = 1, }
enum Five { A = 0, B = 5, C = 2, }
enum Big { A = 1024, }
struct In { p @1: u3, q @0: i5, }
struct M {
  a @0: u1,
  b @1: i13,
  c @2: Small,
  d @3: Five,
  e @4: [u3, 3],
  f @5: Optional[In],
  g @6: [In],
  h @7: str,
  i @8: f32,
  j @9: Big,
  k @10: u64,
  l @11: i64,
  m @12: f64,
  n @13: [[Optional[i7]], 2],
}
"""


class BitOut:
    def __init__(self):
        self.bits = []

    def put(self, v, n):
        for i in range(n):
            self.bits.append((v >> i) & 1)

    def done(self):
        out = bytearray((len(self.bits) + 7) // 8)
        for i, b in enumerate(self.bits):
            out[i // 8] |= b << (i % 8)
        return out


def ref_bits_M(v):
    o = BitOut()
    o.put(v["a"], 1)
    o.put(v["b"], 13)
    o.put(v["c"], 1)
    o.put(v["d"], 3)
    for x in v["e"][:3]:
        o.put(x, 3)
    if v["f"] is None:
        o.put(0, 8)
    else:
        o.put(1, 8)
        o.put(v["f"]["q"], 5)
        o.put(v["f"]["p"], 3)
    o.put(len(v["g"]), 32)
    for x in v["g"]:
        o.put(x["q"], 5)
        o.put(x["p"], 3)
    o.put(len(v["h"]), 32)
    for ch in v["h"]:
        o.put(ord(ch), 8)
    for byte in struct.pack("=f", v["i"]):
        o.put(byte, 8)
    o.put(v["j"], 11)
    o.put(v["k"], 64)
    o.put(v["l"], 64)
    for byte in struct.pack("=d", v["m"]):
        o.put(byte, 8)
    for row in v["n"][:2]:
        o.put(len(row), 32)
        for x in row:
            if x is None:
                o.put(0, 8)
            else:
                o.put(1, 8)
                o.put(x, 7)
    return o.done()


def serde_other():
    fcp = get_fcp_from_string(BITS).unwrap()
    rng = random.Random(7)
    values = []
    base = {
        "a": 1, "b": -4095, "c": 1, "d": 5, "e": [7, 0, 5], "f": {"p": 7, "q": -15},
        "g": [{"p": 1, "q": -1}, {"p": 0, "q": 15}], "h": "hello", "i": 0.5, "j": 1024,
        "k": 2**64 - 1, "l": -(2**63) + 1, "m": -1e300, "n": [[1, None, -63], []],
    }
    values.append(base)
    values.append(dict(base, a=0, b=4095, f=None, g=[], h="", i=-0.0, k=0, l=2**63 - 1, n=[[], [None]]))
    for _ in range(60):
        values.append(
            {
                "a": rng.randint(0, 1),
                "b": rng.randint(-4095, 4095),
                "c": rng.randint(0, 1),
                "d": rng.randint(0, 7),
                "e": [rng.randint(0, 7) for _ in range(3)],
                "f": None if rng.random() < 0.3 else {"p": rng.randint(0, 7), "q": rng.randint(-15, 15)},
                "g": [{"p": rng.randint(0, 7), "q": rng.randint(-15, 15)} for _ in range(rng.randint(0, 4))],
                "h": "".join(chr(rng.randint(0, 127)) for _ in range(rng.randint(0, 9))),
                "i": struct.unpack("=f", struct.pack("=f", rng.uniform(-1e3, 1e3)))[0],
                "j": rng.randint(0, 2047),
                "k": rng.getrandbits(64),
                "l": rng.randint(-(2**63) + 1, 2**63 - 1),
                "m": rng.uniform(-1e200, 1e200),
                "n": [
                    [None if rng.random() < 0.3 else rng.randint(-63, 63) for _ in range(rng.randint(0, 3))]
                    for _ in range(2)
                ],
            }
        )
    for i, v in enumerate(values):
        blob = encode(fcp, "M", v)
        check(blob == ref_bits_M(v), f"bits: encode #{i} vs reference")
        check(same_values(decode(fcp, "M", blob), v), f"bits: round trip #{i}")
        check(encode(fcp, "M", v) == blob, f"bits: second encode #{i}")

    # extra keys are ignored, key order of input is irrelevant, output order is id order
    v = dict(reversed(list(base.items())))
    v["unknown"] = 1
    check(encode(fcp, "M", v) == ref_bits_M(base), "bits: extra keys/reordered")
    check(list(decode(fcp, "M", ref_bits_M(base))) == list("abcdefghijklmn"), "bits: decoded key order")
    check(list(decode(fcp, "In", bytearray([0xFF]))) == ["q", "p"], "bits: In decoded in id order")
    check(decode(fcp, "In", bytearray([0b10111111])) == {"q": -1, "p": 5}, "bits: In values")
    # today's decoding of the most negative value of a signed member (pinned as is)
    check(decode(fcp, "In", encode(fcp, "In", {"p": 0, "q": -16})) == {"q": 16, "p": 0}, "bits: i5 minimum")
    check(decode(fcp, "In", encode(fcp, "In", {"p": 0, "q": -15})) == {"q": -15, "p": 0}, "bits: i5 minimum + 1")
    # values wider than the member are truncated, array longer than declared is cut
    check(encode(fcp, "In", {"p": 15, "q": 33}) == bytearray([0b11100001]), "bits: truncation")
    check(encode(fcp, "M", dict(base, e=[7, 0, 5, 1, 1])) == ref_bits_M(base), "bits: long array")

    def outcome(fn):
        try:
            return ("ok", fn())
        except Exception as e:  # noqa: BLE001
            return (type(e).__name__, str(e))

    missing = dict(base)
    del missing["d"]
    check(outcome(lambda: encode(fcp, "M", missing)) == ("KeyError", "'d'"), "err: missing key")
    both = dict(base, b="not a number")
    del both["d"]
    check(outcome(lambda: encode(fcp, "M", both))[0] == "TypeError", "err: first problem in id order wins")
    check(outcome(lambda: encode(fcp, "M", dict(base, e=[1, 2])))[0] == "IndexError", "err: short array")
    check(outcome(lambda: encode(fcp, "M", dict(base, f={"p": 1}))) == ("KeyError", "'q'"), "err: nested missing")
    check(outcome(lambda: encode(fcp, "Nope", base))[0] == outcome(lambda: decode(fcp, "Nope", bytearray(9)))[0] != "ok", "err: unknown struct")
    r1 = outcome(lambda: encode(fcp, "Nope", base))
    check(r1[0] not in ("ok", "KeyError"), f"err: unknown struct kind {r1}")
    check(outcome(lambda: decode(fcp, "M", bytearray())) == ("ValueError", "buffer overrrun"), "err: empty input")
    good = ref_bits_M(base)
    for cut in range(1, len(good)):
        check(outcome(lambda: decode(fcp, "M", good[:cut])) == ("ValueError", "buffer overrrun"), f"err: cut {cut}")
    check(same_values(decode(fcp, "M", good + bytearray(b"\xff\xff")), base), "bits: trailing bytes ignored")

    # the schema may change between calls
    fcp.structs[0].fields.append(StructField("r", 2, UnsignedType("u8")))
    check(encode(fcp, "In", {"p": 1, "q": 1, "r": 0xAB}) == bytearray([0b00100001, 0xAB]), "edit: new field encoded")
    check(decode(fcp, "In", bytearray([0b00100001, 0xAB])) == {"q": 1, "p": 1, "r": 0xAB}, "edit: new field decoded")
    wide = get_fcp_from_string(BITS).unwrap()
    check(encode(wide, "M", base) == ref_bits_M(base), "edit: before widening")
    wide.enums[0].enumeration.append(Enumeration("Z", 200))
    v2 = dict(base, c=200)
    blob = encode(wide, "M", v2)
    check(len(blob) == len(ref_bits_M(base)) + 1, "edit: enum member is 8 bits wide now")
    check(same_values(decode(wide, "M", blob), v2), "edit: widened enum round trip")
    two = get_fcp_from_string('version: "3"\nstruct In { only @0: u16, }\n').unwrap()
    check(encode(two, "In", {"only": 0x1234}) == bytearray([0x34, 0x12]), "two schemas: other In")
    check(encode(fcp, "In", {"p": 1, "q": 1, "r": 0xAB}) == bytearray([0b00100001, 0xAB]), "two schemas: first In again")


# ---------------------------------------------------------------- CLI


def cli():
    from click.testing import CliRunner
    from fcp.__main__ import main

    with tempfile.TemporaryDirectory() as d:
        d = pathlib.Path(d)
        (d / "data.fcp").write_text(RICH)
        (d / "sub").mkdir()
        (d / "top.fcp").write_text('version: "3"\nmod sub.inner;\nstruct Top { i @0: Inner, }\n')
        (d / "sub" / "inner.fcp").write_text('version: "3"\nstruct Inner { v @0: u8 | unit("A"), }\nimpl can for Inner { id: 5, }\n')
        refl = pathlib.Path(sys.modules["fcp.reflection"].__file__).parent / "reflection" / "reflection.fcp"
        for name in ("data.fcp", "top.fcp"):
            out = d / (name + ".bin")
            res = CliRunner().invoke(main, ["encode", str(refl), str(d / name), str(out)])
            check(res.exit_code == 0, f"cli: exit code {res.exit_code} {res.output}")
            fcp = get_fcp(str(d / name)).unwrap()
            want = check_schema(fcp, "cli-" + name)
            check(out.read_bytes() == bytes(ref_bytes(want)), f"cli: file content {name}")
        top = get_fcp(str(d / "top.fcp")).unwrap()
        rec = top.reflection()
        check([s["name"] for s in rec["structs"]] == ["Inner", "Top"], "mod: structs merged")
        check(rec["structs"][0]["fields"][0]["unit"] == "A", "mod: unit")
        check(rec["structs"][0]["meta"]["filename"].endswith("inner.fcp"), "mod: filename of imported node")
        check([i["protocol"] for i in rec["impls"]] == ["default", "can", "default"], "mod: impls")

        # failures do not write anything
        res = CliRunner().invoke(main, ["encode", str(refl), str(d / "missing.fcp"), str(d / "no.bin")])
        check(not (d / "no.bin").exists(), "cli: no output on bad data schema")
        (d / "bad.fcp").write_text('version: "3"\nstruct { }\n')
        res = CliRunner().invoke(main, ["encode", str(d / "bad.fcp"), str(d / "data.fcp"), str(d / "no.bin")])
        check(not (d / "no.bin").exists(), "cli: no output on bad reflection schema")


def run_all(extra=None):
    type_chains()
    hand_checked()
    for label, src in SMALL:
        r = get_fcp_from_string(src)
        check(r.is_ok(), f"{label}: schema not accepted: {r}")
        check_schema(r.unwrap(), label)
    n_repo = 0
    for path in repo_schemas():
        r = get_fcp(str(path))
        if r.is_err():
            continue
        n_repo += 1
        check_schema(r.unwrap(), str(path.relative_to(FCP_ROOT)))
    check(n_repo >= 10, f"only {n_repo} repository schemas found under {FCP_ROOT}")
    rng = random.Random(20240612)
    n_rand = 0
    for i in range(60):
        src = rand_schema(rng)
        r = get_fcp_from_string(src)
        check(r.is_ok(), f"random #{i} not accepted: {r}\n{src}")
        check_schema(r.unwrap(), f"random #{i}")
        n_rand += 1
    # the reflection schema describes itself
    check_schema(get_reflection_schema().unwrap(), "reflection.fcp (fresh)")
    check_schema(REFLECTION_SCHEMA, "reflection.fcp (the instance used for encoding)")
    serde_other()
    cli()
    if extra is not None:
        extra()
    print(f"{CHECKS} checks, {n_repo} repository schemas, {n_rand} random schemas")
    print("PASS")


if __name__ == "__main__":
    run_all()
