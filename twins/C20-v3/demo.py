#!/venv/bin/python
"""C20 demo 3: module paths of any depth.

The same declarations are moved into a module that is imported through a
dotted path with one, two and three components (``mod temperature;``,
``mod sensors.temperature;``, ``mod vehicle.sensors.temperature;``), the file
being placed in the matching directory next to the importing file. Every
variant has to load and to equal the single-file schema.
"""
import os
import pathlib
import sys
import tempfile

from fcp.parser import get_fcp
from fcp.error import Logger

PRE = 'version: "3"\n'

MODULE = """
enum Unit {
    Celsius = 0,
    Kelvin = 1,
}

struct Temperature {
    value @0: i16 | unit("C"),
    unit @1: Unit,
}

impl can for Temperature {
    id: 16,
}
"""

MAIN = """
struct SensorInformation {
    temperature @0: Temperature,
    unit @1: Unit,
}

service SensorService @0 {
    method GetTemperature(Temperature) @0 returns SensorInformation,
}

device ecu {
    services: [SensorService],
}
"""


def write(root, files):
    for name, text in files.items():
        path = pathlib.Path(root) / name
        path.parent.mkdir(parents=True, exist_ok=True)
        path.write_text(text)


def summary(fcp):
    d = fcp.to_dict()
    return {
        "structs": {s["name"]: s for s in d["structs"]},
        "enums": {e["name"]: e for e in d["enums"]},
        "impls": {(i["name"], i["protocol"]): i for i in d["impls"]},
        "services": {s["name"]: s for s in d["services"]},
        "devices": {s["name"]: s for s in d["devices"]},
    }


def main():
    ok = True
    with tempfile.TemporaryDirectory() as tmp:
        single = os.path.join(tmp, "single")
        write(single, {"main.fcp": PRE + MODULE + MAIN})
        reference = get_fcp(os.path.join(single, "main.fcp"), Logger({}))
        if reference.is_err():
            print("FAIL: single-file schema does not parse:", repr(reference.err()))
            return 1
        expected = summary(reference.unwrap())

        for dotted in [
            "temperature",
            "sensors.temperature",
            "vehicle.sensors.temperature",
            "fleet.vehicle.sensors.temperature",
        ]:
            root = os.path.join(tmp, "split_" + str(dotted.count(".")))
            write(
                root,
                {
                    "main.fcp": PRE + f"mod {dotted};\n" + MAIN,
                    dotted.replace(".", "/") + ".fcp": PRE + MODULE,
                },
            )
            result = get_fcp(os.path.join(root, "main.fcp"), Logger({}))
            if result.is_err():
                print(f"FAIL: 'mod {dotted};' is rejected:")
                print("   " + repr(result.err()).replace("\n", "\n   "))
                ok = False
            elif summary(result.unwrap()) != expected:
                print(f"FAIL: 'mod {dotted};' differs from the single-file schema")
                ok = False

    print("PASS" if ok else "FAIL")
    return 0 if ok else 1


if __name__ == "__main__":
    sys.exit(main())
