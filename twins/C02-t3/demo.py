#!/venv/bin/python
"""Differential test for property C02 (Python codec == canonical FCP wire format).

The demo carries its own, independently written reference codec (bit list based,
driven only by the schema objects) and checks, on hand written and randomly
generated schemas/values:

  * encode(schema, value) == reference bytes
  * decode(schema, reference bytes) == value
  * the cross-language vectors in tests/standardized/fcp_tests.json
  * error behaviour (truncated input, missing keys, unknown struct, foreign type)
  * (bonus) identical results/exceptions versus the serde.py stored at git HEAD

Run with PYTHONPATH pointing at the worktree under test, e.g.
  PYTHONPATH=$R/src:$R/plugins/fcp_cpp ... /venv/bin/python demo.py
FCP_ROOT (default /tmp/twin-C02) locates repository files.
"""

import json
import math
import os
import random
import struct as pystruct
import subprocess
import sys
import tempfile
import types
from pathlib import Path

FCP_ROOT = Path(os.environ.get("FCP_ROOT", "/tmp/twin-C02"))

from fcp import serde  # noqa: E402
from fcp.parser import get_fcp  # noqa: E402
from fcp.serde import encode, decode  # noqa: E402
from fcp.specs.type import (  # noqa: E402
    ArrayType,
    StructType,
    EnumType,
    DynamicArrayType,
    OptionalType,
    StringType,
    UnsignedType,
    SignedType,
    FloatType,
    DoubleType,
    Type,
)

CHECKS = 0
FAILURES = []


def check(cond, what):
    global CHECKS
    CHECKS += 1
    if not cond:
        FAILURES.append(what)
        if len(FAILURES) <= 20:
            print("FAIL:", what)


# --------------------------------------------------------------------------
# Independent reference codec: a flat list of bits, LSB first.
# --------------------------------------------------------------------------
def _bits(word, n):
    return [(word >> i) & 1 for i in range(n)]


def _enum_bits(fcp, name):
    (enum,) = [e for e in fcp.enums if e.name == name]
    m = max([e.value for e in enum.enumeration], default=0)
    return 1 if m in (0, 1) else m.bit_length()


def _struct_fields(fcp, name):
    (st,) = [s for s in fcp.structs if s.name == name]
    return sorted(st.fields, key=lambda f: f.field_id)


def ref_bits(fcp, t, v):
    if isinstance(t, (UnsignedType, SignedType)):
        n = int(t.name[1:])
        return _bits(v % (1 << n) if n else 0, n)
    if isinstance(t, FloatType):
        return _bits(int.from_bytes(pystruct.pack("<f", v), "little"), 32)
    if isinstance(t, DoubleType):
        return _bits(int.from_bytes(pystruct.pack("<d", v), "little"), 64)
    if isinstance(t, StringType):
        raw = v.encode("ascii")
        out = _bits(len(raw), 32)
        for b in raw:
            out += _bits(b, 8)
        return out
    if isinstance(t, EnumType):
        return _bits(v, _enum_bits(fcp, t.name))
    if isinstance(t, StructType):
        out = []
        for f in _struct_fields(fcp, t.name):
            out += ref_bits(fcp, f.type, v[f.name])
        return out
    if isinstance(t, ArrayType):
        out = []
        for i in range(t.size):
            out += ref_bits(fcp, t.underlying_type, v[i])
        return out
    if isinstance(t, DynamicArrayType):
        out = _bits(len(v), 32)
        for x in v:
            out += ref_bits(fcp, t.underlying_type, x)
        return out
    if isinstance(t, OptionalType):
        if v is None:
            return _bits(0, 8)
        return _bits(1, 8) + ref_bits(fcp, t.underlying_type, v)
    raise AssertionError("reference codec: unknown type %r" % (t,))


def ref_encode(fcp, name, value):
    bits = ref_bits(fcp, StructType(name), value)
    out = bytearray((len(bits) + 7) // 8)
    for i, b in enumerate(bits):
        out[i >> 3] |= b << (i & 7)
    return out


# --------------------------------------------------------------------------
# Random schemas and values
# --------------------------------------------------------------------------
ASCII = [chr(c) for c in range(0, 128)]


def rand_type_text(rng, depth, structs, enums):
    kinds = ["u", "i", "u", "i", "f32", "f64", "str", "enum"]
    if structs:
        kinds.append("struct")
    if depth > 0:
        kinds += ["arr", "dyn", "opt"]
    k = rng.choice(kinds)
    if k in ("u", "i"):
        return k + str(rng.choice([1, 2, 3, 5, 7, 8, 9, 12, 16, 17, 24, 31, 32, 33, 48, 63, 64]))
    if k in ("f32", "f64", "str"):
        return k
    if k == "enum":
        return rng.choice(enums)
    if k == "struct":
        return rng.choice(structs)
    inner = rand_type_text(rng, depth - 1, structs, enums)
    if k == "arr":
        return "[%s, %d]" % (inner, rng.randint(1, 4))
    if k == "dyn":
        return "[%s]" % inner
    return "Optional[%s]" % inner


def rand_schema_text(rng, idx):
    lines = ['version: "3"', ""]
    enums = []
    for e in range(rng.randint(1, 3)):
        name = "E%d_%d" % (idx, e)
        enums.append(name)
        n = rng.randint(1, 6)
        vals = sorted(rng.sample(range(0, rng.choice([2, 4, 9, 40, 300])), min(n, 2)))
        lines.append("enum %s {" % name)
        for j, val in enumerate(vals):
            lines.append("    V%d = %d," % (j, val))
        lines.append("}")
        lines.append("")
    structs = []
    for s in range(rng.randint(2, 5)):
        name = "T%d_%d" % (idx, s)
        nfields = rng.randint(1, 6)
        ids = list(range(nfields))
        rng.shuffle(ids)  # declaration order != field id order
        lines.append("struct %s {" % name)
        for j, fid in enumerate(ids):
            lines.append(
                "    f%d @ %d: %s," % (j, fid, rand_type_text(rng, 2, structs, enums))
            )
        lines.append("}")
        lines.append("")
        structs.append(name)
    return "\n".join(lines), structs


def f32(x):
    return pystruct.unpack("<f", pystruct.pack("<f", x))[0]


def rand_value(rng, fcp, t, edge):
    if isinstance(t, UnsignedType):
        n = int(t.name[1:])
        hi = (1 << n) - 1
        return rng.choice([0, hi, hi >> 1, 1 & hi]) if edge else rng.randint(0, hi)
    if isinstance(t, SignedType):
        n = int(t.name[1:])
        lo, hi = -(1 << (n - 1)) + 1, (1 << (n - 1)) - 1  # most negative handled apart
        return rng.choice([0, lo, hi, -1 if n > 1 else 0]) if edge else rng.randint(lo, hi)
    if isinstance(t, FloatType):
        return f32(rng.choice([0.0, -0.0, 1.0, -1.5, 3.4e38, 1e-45, math.inf, -math.inf, rng.uniform(-1e6, 1e6)]))
    if isinstance(t, DoubleType):
        return rng.choice([0.0, -0.0, 1.0, -2.5, 1.7e308, 5e-324, math.inf, -math.inf, rng.uniform(-1e12, 1e12)])
    if isinstance(t, StringType):
        return "".join(rng.choice(ASCII) for _ in range(rng.choice([0, 1, 2, 7, 20])))
    if isinstance(t, EnumType):
        (enum,) = [e for e in fcp.enums if e.name == t.name]
        return rng.choice([e.value for e in enum.enumeration])
    if isinstance(t, StructType):
        return {f.name: rand_value(rng, fcp, f.type, edge) for f in _struct_fields(fcp, t.name)}
    if isinstance(t, ArrayType):
        return [rand_value(rng, fcp, t.underlying_type, edge) for _ in range(t.size)]
    if isinstance(t, DynamicArrayType):
        return [rand_value(rng, fcp, t.underlying_type, edge) for _ in range(rng.choice([0, 1, 2, 5]))]
    if isinstance(t, OptionalType):
        return None if rng.random() < 0.4 else rand_value(rng, fcp, t.underlying_type, edge)
    raise AssertionError(t)


def same(a, b):
    """Structural equality that treats -0.0 / 0.0 as different and is exact."""
    if isinstance(a, float) or isinstance(b, float):
        return type(a) is type(b) and pystruct.pack("<d", a) == pystruct.pack("<d", b)
    if isinstance(a, dict):
        return isinstance(b, dict) and list(a.keys()) == list(b.keys()) and all(same(a[k], b[k]) for k in a)
    if isinstance(a, list):
        return isinstance(b, list) and len(a) == len(b) and all(same(x, y) for x, y in zip(a, b))
    return type(a) is type(b) and a == b


def load(text, workdir, name):
    p = Path(workdir) / name
    p.write_text(text)
    return get_fcp(p).unwrap()


def both_directions(fcp, sname, value, label):
    try:
        _both_directions(fcp, sname, value, label)
    except Exception as e:  # noqa: BLE001
        check(False, "%s: unexpected %s: %s (value %r)" % (label, type(e).__name__, e, value))


def _both_directions(fcp, sname, value, label):
    want = ref_encode(fcp, sname, value)
    got = encode(fcp, sname, value)
    check(isinstance(got, bytearray) and got == want, "%s: encode %s -> %s, canonical %s" % (label, value, list(got), list(want)))
    back = decode(fcp, sname, bytearray(want))
    check(same(back, value), "%s: decode(canonical) = %r, expected %r" % (label, back, value))
    # also accepts bytes objects and trailing garbage after the message
    back2 = decode(fcp, sname, bytes(want) + b"\xa5\xff")
    check(same(back2, value), "%s: decode with trailing bytes = %r" % (label, back2))
    # repeated calls are independent (no state leaks between calls)
    check(encode(fcp, sname, value) == want, "%s: second encode differs" % label)


HAND_SCHEMA = """version: "3"

enum Mode {
    Off = 0,
    On = 1,
    Auto = 2,
    Fault = 5,
}

enum Flag {
    No = 0,
    Yes = 1,
}

enum Wide {
    A = 0,
    B = 255,
    C = 256,
}

struct Inner {
    a @ 0: u3,
    b @ 1: i5,
    c @ 2: Mode,
}

struct Bits {
    f0 @ 0: u1,
    f1 @ 1: i2,
    f2 @ 2: u7,
    f3 @ 3: i13,
    f4 @ 4: u33,
    f5 @ 5: i64,
    f6 @ 6: u64,
    f7 @ 7: Flag,
    f8 @ 8: Wide,
}

struct Floats {
    pad @ 0: u3,
    x @ 1: f32,
    y @ 2: f64,
    tail @ 3: i6,
}

struct Shuffled {
    third @ 2: u5,
    first @ 0: u3,
    second @ 1: i9,
}

struct OneSigned {
    lead @ 0: u3,
    v8 @ 1: i8,
    v1 @ 2: i1,
    v64 @ 3: i64,
}

struct Nested {
    lead @ 0: u5,
    inner @ 1: Inner,
    arr @ 2: [Inner, 3],
    name @ 3: str,
    dyn @ 4: [i11],
    opt @ 5: Optional[Inner],
    optarr @ 6: Optional[[u4]],
    grid @ 7: [[u3, 2], 3],
    names @ 8: [str],
    modes @ 9: [Mode, 3],
    maybe_str @ 10: Optional[str],
    optopt @ 11: Optional[Optional[u3]],
    end @ 12: u2,
}
"""


def hand_written(workdir):
    fcp = load(HAND_SCHEMA, workdir, "hand.fcp")

    # fixed expectations, computed by hand
    check(encode(fcp, "Inner", {"a": 5, "b": -3, "c": 5}) == bytearray([0xED, 0x05]), "Inner literal")
    check(encode(fcp, "Shuffled", {"third": 31, "first": 0, "second": -1}) == bytearray([0xF8, 0xFF, 0x01]), "Shuffled literal")
    check(decode(fcp, "Shuffled", bytearray([0xF8, 0xFF, 0x01])) == {"first": 0, "second": -1, "third": 31}, "Shuffled decode literal")
    check(list(decode(fcp, "Shuffled", bytearray([0, 0, 0])).keys()) == ["first", "second", "third"], "decoded key order")

    bits_cases = [
        dict(f0=0, f1=0, f2=0, f3=0, f4=0, f5=0, f6=0, f7=0, f8=0),
        dict(f0=1, f1=1, f2=127, f3=4095, f4=2**33 - 1, f5=2**63 - 1, f6=2**64 - 1, f7=1, f8=256),
        dict(f0=1, f1=-1, f2=85, f3=-4095, f4=2**32, f5=-(2**63) + 1, f6=2**63, f7=0, f8=255),
        dict(f0=0, f1=-1, f2=1, f3=-1, f4=1, f5=-1, f6=1, f7=1, f8=0),
    ]
    for i, c in enumerate(bits_cases):
        both_directions(fcp, "Bits", c, "Bits[%d]" % i)

    for i, (x, y) in enumerate([(0.0, 0.0), (-0.0, -0.0), (1.0, 1.0), (-1.0, -1.0), (0.1, 0.1), (3.4028234663852886e38, 1.7976931348623157e308), (1.401298464324817e-45, 5e-324), (math.inf, -math.inf)]):
        both_directions(fcp, "Floats", dict(pad=5, x=f32(x), y=y, tail=-17), "Floats[%d]" % i)
    # NaN: only the bytes are comparable
    nan_case = dict(pad=1, x=math.nan, y=math.nan, tail=3)
    check(encode(fcp, "Floats", nan_case) == ref_encode(fcp, "Floats", nan_case), "Floats NaN bytes")
    d = decode(fcp, "Floats", ref_encode(fcp, "Floats", nan_case))
    check(math.isnan(d["x"]) and math.isnan(d["y"]) and d["pad"] == 1 and d["tail"] == 3, "Floats NaN decode")

    inner = lambda a, b, c: dict(a=a, b=b, c=c)  # noqa: E731
    nested_cases = [
        dict(lead=31, inner=inner(7, -15, 5), arr=[inner(0, 0, 0), inner(1, -1, 1), inner(7, 15, 2)], name="", dyn=[], opt=None, optarr=None, grid=[[0, 0], [0, 0], [0, 0]], names=[], modes=[0, 1, 2], maybe_str=None, optopt=None, end=3),
        dict(lead=1, inner=inner(1, 1, 1), arr=[inner(7, -15, 5)] * 3, name="hello, world\x00\x7f", dyn=[1023, -1023, 0, -1], opt=inner(2, -2, 2), optarr=[15, 0, 8], grid=[[1, 2], [3, 4], [5, 7]], names=["a", "", "bcd"], modes=[5, 5, 5], maybe_str="x", optopt=5, end=0),
        dict(lead=0, inner=inner(0, 0, 0), arr=[inner(0, 0, 0)] * 3, name="a" * 300, dyn=list(range(-40, 40)), opt=inner(0, 0, 0), optarr=[], grid=[[7, 7], [7, 7], [7, 7]], names=["q" * 70], modes=[0, 0, 0], maybe_str="", optopt=0, end=1),
    ]
    for i, c in enumerate(nested_cases):
        both_directions(fcp, "Nested", c, "Nested[%d]" % i)
    # Optional[Optional[x]]: Some(None) is flag 1 then flag 0 on the wire
    some_none = bytearray(ref_encode(fcp, "Nested", nested_cases[0]))
    check(encode(fcp, "Nested", nested_cases[0]) == some_none, "optopt none")

    # tuples are accepted for arrays as well as lists (sequence protocol only)
    t_case = dict(nested_cases[1])
    t_case["grid"] = ((1, 2), (3, 4), (5, 7))
    t_case["dyn"] = (1023, -1023, 0, -1)
    check(encode(fcp, "Nested", t_case) == ref_encode(fcp, "Nested", nested_cases[1]), "tuple inputs")
    # extra keys in the value dictionary are ignored
    extra = dict(a=1, b=2, c=1, zzz=99)
    check(encode(fcp, "Inner", extra) == ref_encode(fcp, "Inner", inner(1, 2, 1)), "extra keys ignored")
    # over-long static arrays: only the first `size` items are used
    g = dict(nested_cases[1])
    g["modes"] = [5, 5, 5, 1, 1]
    check(encode(fcp, "Nested", g) == ref_encode(fcp, "Nested", nested_cases[1]), "over-long static array")

    # two's complement: most negative values must be emitted as 100..0
    mn = dict(lead=5, v8=-128, v1=-1, v64=-(2**63))
    check(encode(fcp, "OneSigned", mn) == ref_encode(fcp, "OneSigned", mn), "most negative encode")
    both_directions(fcp, "OneSigned", dict(lead=2, v8=-127, v1=0, v64=-(2**63) + 1), "near most negative")
    both_directions(fcp, "OneSigned", dict(lead=7, v8=127, v1=0, v64=2**63 - 1), "most positive")
    both_directions(fcp, "OneSigned", dict(lead=0, v8=-1, v1=0, v64=-1), "minus one")
    return fcp


def error_paths(fcp):
    def outcome(fn):
        try:
            return ("ok", fn())
        except BaseException as e:  # noqa: BLE001
            return ("exc", type(e).__name__, str(e))

    full = ref_encode(fcp, "Bits", dict(f0=1, f1=1, f2=127, f3=4095, f4=2**33 - 1, f5=2**63 - 1, f6=2**64 - 1, f7=1, f8=256))
    for cut in range(0, len(full)):
        o = outcome(lambda: decode(fcp, "Bits", bytearray(full[:cut])))
        check(o == ("exc", "ValueError", "buffer overrrun"), "truncated Bits at %d -> %r" % (cut, o))
    # string count larger than the payload
    o = outcome(lambda: decode(fcp, "Nested", bytearray([0xFF] * 12)))
    check(o[0] == "exc" and o[1] == "ValueError" and o[2] == "buffer overrrun", "huge count -> %r" % (o,))
    # non ascii byte inside a string
    inner0 = dict(a=0, b=0, c=0)
    v = dict(lead=0, inner=inner0, arr=[inner0] * 3, name="A", dyn=[], opt=None, optarr=None, grid=[[0, 0]] * 3, names=[], modes=[0, 0, 0], maybe_str=None, optopt=None, end=0)
    raw = bytearray(ref_encode(fcp, "Nested", v))
    # 'A' sits at bit offset 5+11+33+32 = 81 -> flip its top bit (bit 88)
    raw[88 >> 3] |= 1 << (88 & 7)
    o = outcome(lambda: decode(fcp, "Nested", raw))
    check(o[0] == "exc" and o[1] == "UnicodeDecodeError", "non-ascii string byte -> %r" % (o,))
    # missing key
    o = outcome(lambda: encode(fcp, "Inner", dict(a=1, b=1)))
    check(o == ("exc", "KeyError", "'c'"), "missing key -> %r" % (o,))
    # too short static array
    bad = dict(v)
    bad["modes"] = [0, 0]
    o = outcome(lambda: encode(fcp, "Nested", bad))
    check(o[0] == "exc" and o[1] == "IndexError", "short static array -> %r" % (o,))
    # unknown struct
    o1 = outcome(lambda: encode(fcp, "Nope", {}))
    o2 = outcome(lambda: decode(fcp, "Nope", bytearray([0])))
    check(o1[0] == "exc" and o2[0] == "exc" and o1[1:] == o2[1:], "unknown struct -> %r %r" % (o1, o2))
    # None for a non optional integer, float for an integer, str for float
    check(outcome(lambda: encode(fcp, "Inner", dict(a=None, b=0, c=0)))[1] == "TypeError", "None for u3")
    check(outcome(lambda: encode(fcp, "Inner", dict(a=1.5, b=0, c=0)))[1] == "TypeError", "float for u3")
    check(outcome(lambda: encode(fcp, "Floats", dict(pad=0, x="1", y=0.0, tail=0)))[1] == "error", "str for f32")
    # out of range integers are truncated to the field width (documented by the bit loop)
    check(encode(fcp, "Inner", dict(a=8 + 5, b=32 - 3, c=8 + 5)) == bytearray([0xED, 0x05]), "truncation of out of range ints")
    # bool is an int
    check(encode(fcp, "Inner", dict(a=True, b=False, c=True)) == ref_encode(fcp, "Inner", dict(a=1, b=0, c=1)), "bools")

    # foreign Type subclass reaches the final else branch of the dispatchers
    class Alien(Type):
        def __str__(self):
            return "<alien>"

    if hasattr(serde, "_encode") and hasattr(serde, "_decode") and hasattr(serde, "_Buffer"):
        o = outcome(lambda: serde._encode(serde._Buffer(), fcp, Alien(), 1))
        check(o == ("exc", "ValueError", "Unmatched type <alien>"), "alien encode -> %r" % (o,))
        o = outcome(lambda: serde._decode(serde._Buffer(), fcp, Alien()))
        check(o == ("exc", "ValueError", "Unmatched type"), "alien decode -> %r" % (o,))
        # subclasses of the known type classes keep being dispatched like their base
        class MyU(UnsignedType):
            pass

        class MyOpt(OptionalType):
            pass

        b = serde._Buffer()
        serde._encode(b, fcp, MyU("u5"), 21)
        serde._encode(b, fcp, MyOpt(MyU("u3")), 6)
        serde._encode(b, fcp, MyOpt(MyU("u3")), None)
        check(list(b.get_buffer()) == [21 | (1 << 5) & 0xFF, (1 >> 3) | (6 << 5) & 0xFF, 0], "subclass encode %r" % list(b.get_buffer()))
        b.bitaddr = 0
        got = [serde._decode(b, fcp, MyU("u5")), serde._decode(b, fcp, MyOpt(MyU("u3"))), serde._decode(b, fcp, MyOpt(MyU("u3")))]
        check(got == [21, 6, None], "subclass decode %r" % (got,))


def standard_vectors():
    d = FCP_ROOT / "tests" / "standardized"
    suites = json.loads((d / "fcp_tests.json").read_text())
    special = {"ULONG_MAX": 2**64 - 1, "LLONG_MAX": 2**63 - 1, "LLONG_MIN": -(2**63)}
    n = 0
    for suite in suites:
        fcp = get_fcp(d / suite["schema"]).unwrap()

        def conv(t, v):
            if isinstance(t, (UnsignedType, SignedType)):
                return special[v] if v in special else (v if isinstance(v, int) else int(v, 0))
            if isinstance(t, (FloatType, DoubleType)):
                return float(v)
            if isinstance(t, StringType):
                return v
            if isinstance(t, EnumType):
                (enum,) = [e for e in fcp.enums if e.name == t.name]
                return {e.name: e.value for e in enum.enumeration}[v]
            if isinstance(t, (ArrayType, DynamicArrayType)):
                return [conv(t.underlying_type, x) for x in v]
            if isinstance(t, OptionalType):
                return None if v is None else conv(t.underlying_type, v)
            raise AssertionError(t)

        for test in suite["tests"]:
            sname = test["datatype"]
            fields = {f.name: f for f in _struct_fields(fcp, sname)}
            value = {}
            for xpath, v in test["decoded"].items():
                s, fname = xpath.split(":")
                assert s == sname
                value[fname] = conv(fields[fname].type, v)
            want = bytearray(x if isinstance(x, int) else int(x, 16) for x in test["encoded"])
            got = encode(fcp, sname, value)
            check(got == want, "vector %s/%s encode %s != %s" % (suite["name"], test["name"], list(got), list(want)))
            check(ref_encode(fcp, sname, value) == want, "vector %s/%s reference codec disagrees" % (suite["name"], test["name"]))
            has_min = any(isinstance(fields[k].type, SignedType) and value[k] == -(1 << (int(fields[k].type.name[1:]) - 1)) for k in value)
            if not has_min:
                back = decode(fcp, sname, want)
                check(same(back, value), "vector %s/%s decode %r != %r" % (suite["name"], test["name"], back, value))
            n += 1
    check(n >= 20, "expected at least 20 standard vectors, saw %d" % n)


def randomized(workdir):
    rng = random.Random(0xC02)
    total = 0
    for idx in range(25):
        text, structs = rand_schema_text(rng, idx)
        try:
            fcp = load(text, workdir, "rand%d.fcp" % idx)
        except Exception as e:  # schema rejected by the front-end: not our subject
            print("schema %d rejected: %s" % (idx, str(e)[:100]))
            continue
        for sname in structs:
            for rep in range(6):
                value = rand_value(rng, fcp, StructType(sname), edge=(rep < 2))
                both_directions(fcp, sname, value, "rand%d/%s/%d" % (idx, sname, rep))
                total += 1
    check(total >= 300, "too few random cases: %d" % total)


def head_differential(workdir, fcp):
    """Bonus: compare against the serde.py stored at git HEAD of FCP_ROOT."""
    try:
        src = subprocess.run(["git", "-C", str(FCP_ROOT), "show", "HEAD:src/fcp/serde.py"], capture_output=True, check=True, timeout=60).stdout.decode()
    except Exception as e:  # noqa: BLE001
        print("HEAD differential skipped:", e)
        return
    ref = types.ModuleType("fcp._serde_at_head")
    ref.__package__ = "fcp"
    exec(compile(src, "serde_at_head.py", "exec"), ref.__dict__)

    def outcome(fn):
        try:
            return ("ok", fn())
        except BaseException as e:  # noqa: BLE001
            return ("exc", type(e).__name__, str(e))

    rng = random.Random(77)
    names = [s.name for s in fcp.structs]
    for _ in range(400):
        sname = rng.choice(names)
        n = rng.choice([0, 1, 2, 3, 5, 9, 17, 26, 40, 80])
        blob = bytearray(rng.getrandbits(8) if rng.random() < 0.7 else rng.choice([0, 0x80, 0xFF, 1]) for _ in range(n))
        a = outcome(lambda: decode(fcp, sname, bytearray(blob)))
        b = outcome(lambda: ref.decode(fcp, sname, bytearray(blob)))
        check(a[0] == b[0] and (same(a[1], b[1]) if a[0] == "ok" else a == b) or repr(a) == repr(b), "HEAD diff decode %s %s: %r vs %r" % (sname, list(blob), a, b))
    # strings outside the property's domain (non 7-bit, non-str sequences): only
    # required to behave exactly like HEAD
    inner0 = dict(a=0, b=0, c=0)
    base = dict(lead=0, inner=inner0, arr=[inner0] * 3, name="", dyn=[], opt=None, optarr=None, grid=[[0, 0]] * 3, names=[], modes=[0, 0, 0], maybe_str=None, optopt=None, end=0)
    for odd in ["\xe9", "\u20ac!", "a\U0001F600b", ["a", "b"], ["a", 5], b"ab", ("x",), 7, None, ["ab"]]:
        for key in ("name", "maybe_str"):
            v = dict(base)
            v[key] = odd
            a = outcome(lambda: encode(fcp, "Nested", v))
            b = outcome(lambda: ref.encode(fcp, "Nested", v))
            check(a == b, "HEAD diff odd string %r: %r vs %r" % (odd, a, b))
        v = dict(base)
        v["names"] = [odd, "ok"]
        check(outcome(lambda: encode(fcp, "Nested", v)) == outcome(lambda: ref.encode(fcp, "Nested", v)), "HEAD diff odd string in array %r" % (odd,))
    for _ in range(200):
        sname = rng.choice(names)
        value = rand_value(rng, fcp, StructType(sname), edge=rng.random() < 0.3)
        # sprinkle out-of-range / most-negative ints and broken values
        if isinstance(value, dict) and value and rng.random() < 0.5:
            k = rng.choice(list(value))
            value[k] = rng.choice([-(2**63), 2**70 + 3, -(2**40), None, "str", 1.5, [], {}, value[k]])
        a = outcome(lambda: encode(fcp, sname, value))
        b = outcome(lambda: ref.encode(fcp, sname, value))
        check(a == b, "HEAD diff encode %s %r: %r vs %r" % (sname, value, a, b))
        if a[0] == "ok":
            a2 = outcome(lambda: decode(fcp, sname, a[1]))
            b2 = outcome(lambda: ref.decode(fcp, sname, b[1]))
            check(repr(a2) == repr(b2), "HEAD diff roundtrip %s: %r vs %r" % (sname, a2, b2))


def main():
    with tempfile.TemporaryDirectory() as workdir:
        fcp = hand_written(workdir)
        error_paths(fcp)
        standard_vectors()
        randomized(workdir)
        head_differential(workdir, fcp)
    print("serde module under test:", serde.__file__)
    print("checks:", CHECKS, "failures:", len(FAILURES))
    if FAILURES:
        print("FAIL")
        return 1
    print("PASS")
    return 0


if __name__ == "__main__":
    sys.exit(main())
