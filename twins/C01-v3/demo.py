#!/venv/bin/python
"""C01 demo 3: Python codec round-trip of dynamic arrays whose elements have optional parts.

Exits 0 / prints PASS when decode(encode(v)) == v for all the exercised values,
exits 1 / prints FAIL otherwise.
"""
import sys

from fcp.parser import get_fcp_from_string
from fcp.serde import encode, decode
from fcp.verifier import make_general_verifier

SCHEMA = """version: "3"

struct Sample {
    channel @0: u4,
    value @1: Optional[f64],
    note @2: Optional[str],
}

struct Log {
    readings @0: [Optional[u64]],
    samples @1: [Sample],
    name @2: str,
}
"""

VALUES = [
    # control: every optional present, plain string
    {
        "readings": [1, 2**64 - 1],
        "samples": [{"channel": 3, "value": 1.5, "note": "ok"}],
        "name": "abc",
    },
    # control: empty sequences
    {"readings": [], "samples": [], "name": ""},
    # absent optionals as elements of a dynamic array
    {"readings": [None, None, 7], "samples": [], "name": "x"},
    # absent optionals inside the struct elements of a dynamic array
    {
        "readings": [],
        "samples": [
            {"channel": 1, "value": None, "note": None},
            {"channel": 15, "value": None, "note": None},
        ],
        "name": "",
    },
]


def main() -> int:
    fcp = get_fcp_from_string(SCHEMA).unwrap()
    assert make_general_verifier().verify(fcp).is_ok()

    ok = True
    for value in VALUES:
        try:
            encoded = encode(fcp, "Log", value)
            decoded = decode(fcp, "Log", encoded)
        except Exception as e:  # noqa: BLE001
            print("  exception for", value, "->", repr(e))
            ok = False
            continue
        if decoded != value:
            print("  mismatch:\n    in :", value, "\n    out:", decoded, "\n    hex:", encoded.hex())
            ok = False

    print("PASS" if ok else "FAIL")
    return 0 if ok else 1


if __name__ == "__main__":
    sys.exit(main())
