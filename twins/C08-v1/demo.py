#!/venv/bin/python
"""C08 demo 1: a module may only reference types it declares or imports itself.

main.fcp imports two sibling modules, `sensors` and `report`. `report.fcp`
references the struct `Reading` and the enum `Quality`, which only
`sensors.fcp` declares, without importing `sensors`. Those references are
undeclared in report.fcp (parsing report.fcp alone fails), so parsing
main.fcp must fail as well, with an error naming the type and the struct.
The same must hold for a module that uses a type its *importer* declared
before the `mod` statement.
"""
import os
import sys
import tempfile
from pathlib import Path

from fcp.parser import get_fcp
from fcp.error import Logger

SENSORS = """version: "3"

enum Quality {
    Good = 0,
    Bad = 1,
}

struct Reading {
    value @0: u16,
    quality @1: Quality,
}
"""

REPORT = """version: "3"

struct Report {
    id @0: u8,
    last @1: Optional[[Reading, 2]],
}
"""

MAIN_SIBLINGS = """version: "3"

mod sensors;
mod report;
"""

MAIN_IMPORTER = """version: "3"

struct Reading {
    value @0: u16,
}

mod report;
"""


def parse(path: Path):
    return get_fcp(path, Logger({}, enable_file_paths=False))


def check(label: str, result) -> bool:
    if result.is_ok():
        print(f"  {label}: accepted, although report.fcp never declares or imports 'Reading'")
        return False
    text = repr(result.err())
    if "'Reading'" not in text or "struct Report" not in text:
        print(f"  {label}: rejected, but the error does not name type and struct: {text!r}")
        return False
    print(f"  {label}: rejected as expected")
    return True


def main() -> int:
    ok = True
    with tempfile.TemporaryDirectory() as tmp:
        root = Path(tmp)
        (root / "sensors.fcp").write_text(SENSORS)
        (root / "report.fcp").write_text(REPORT)

        # sanity: the module on its own is invalid on every version
        alone = parse(root / "report.fcp")
        if alone.is_ok():
            print("  report.fcp alone: unexpectedly accepted")
            ok = False

        (root / "main.fcp").write_text(MAIN_SIBLINGS)
        ok &= check("sibling module's type", parse(root / "main.fcp"))

        (root / "main.fcp").write_text(MAIN_IMPORTER)
        ok &= check("importer's type", parse(root / "main.fcp"))

    print("PASS" if ok else "FAIL")
    return 0 if ok else 1


if __name__ == "__main__":
    sys.exit(main())
