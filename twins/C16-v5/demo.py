"""C16 demo: every strict prefix of a valid encoding must be rejected."""
import sys
import tempfile
from pathlib import Path

from fcp.parser import get_fcp
from fcp.serde import encode, decode

SCHEMA = '''version: "3"

struct S1 {
    tag @0: [u8, 2],
    samples @1: [u32, 4],
}
'''

with tempfile.TemporaryDirectory() as d:
    path = Path(d) / "demo.fcp"
    path.write_text(SCHEMA)
    fcp = get_fcp(path).unwrap()

value = {"tag": [1, 2], "samples": [0x11111111, 0x22222222, 0x33333333, 0x44444444]}
encoded = encode(fcp, "S1", value)
assert decode(fcp, "S1", encoded) == value, "round trip broken"

bad = []
for cut in range(len(encoded)):
    try:
        got = decode(fcp, "S1", encoded[:cut])
    except Exception:
        continue
    bad.append((cut, got))

if bad:
    cut, got = bad[0]
    print("FAIL: %d truncated inputs decoded, e.g. %d of %d bytes -> %r"
          % (len(bad), cut, len(encoded), got))
    sys.exit(1)
print("PASS: all %d strict prefixes rejected" % len(encoded))
