#!/venv/bin/python
"""C04 demo 1: per-signal options (byte order, multiplexing) must reach the leaf
of the field they are declared for - including enum-typed fields - and the
layout must still tile the message.

Run with PYTHONPATH pointing at the worktree (src + plugins).
Prints PASS / exits 0 when the property holds, FAIL / exits 1 otherwise.
"""
import sys

from fcp.parser import get_fcp_from_string
from fcp.encoding import make_encoder, PackedEncoderContext
from fcp.specs.type import ArrayType, StructType, EnumType

SRC = """version: "3"

enum Gear {
    Park = 0,
    Reverse = 1,
    Drive = 5,
}

struct Status {
    gear @1: Gear,
    rpm @2: u16,
}

struct Dash {
    page @0: u2,
    gear @1: Gear,
    speed @2: u16,
    status @3: Status,
    history @4: [Gear, 2],
}

impl can for Dash {
    id: 10,

    signal gear {
        mux_count: 4,
        mux_signal: "page",
        endianess: "big",
    },

    signal speed {
        endianess: "big",
    },
}
"""


def enum_width(fcp, name):
    m = max(e.value for e in fcp.get_enum(name).unwrap().enumeration)
    return max(1, m.bit_length())


def expected(fcp, impl, unroll):
    """Reference layout: list of (name, start, width, options)."""
    out = []
    pos = [0]

    def opts(name):
        for s in impl.signals:
            if s.name == name:
                return s.fields
        return {}

    def width(t):
        if isinstance(t, ArrayType):
            return t.size * width(t.underlying_type)
        if isinstance(t, EnumType):
            return enum_width(fcp, t.name)
        return int(t.name[1:])

    def field(name, t, prefix):
        if isinstance(t, StructType):
            struct(t.name, prefix + name + "::")
        elif isinstance(t, ArrayType) and unroll:
            for i in range(t.size):
                field(name + "_" + str(i), t.underlying_type, prefix)
        else:
            w = width(t)
            out.append((prefix + name, pos[0], w, opts(name)))
            pos[0] += w

    def struct(name, prefix):
        s = fcp.get_struct(name).unwrap()
        for f in sorted(s.fields, key=lambda f: f.field_id):
            field(f.name, f.type, prefix)

    struct(impl.type, "")
    return out


def compare(fcp, impl, got, unroll):
    exp = expected(fcp, impl, unroll)
    errs = []
    if len(got) != len(exp):
        errs.append("leaf count %d != %d" % (len(got), len(exp)))
    for v, (name, start, w, options) in zip(got, exp):
        if (v.name, v.bitstart, v.bitlength) != (name, start, w):
            errs.append(
                "layout %r != expected %r"
                % ((v.name, v.bitstart, v.bitlength), (name, start, w))
            )
        if dict(v.extended_data) != dict(options):
            errs.append(
                "options of %s: %r, declared %r" % (v.name, v.extended_data, options)
            )
        if v.endianess != (options.get("endianess") or "little"):
            errs.append("byte order of %s is %r" % (v.name, v.endianess))
    names = [v.name for v in got]
    if len(set(names)) != len(names):
        errs.append("duplicate names: %r" % names)
    return errs


def main():
    fcp = get_fcp_from_string(SRC).unwrap()
    errs = []
    for unroll in (True, False):
        encoder = make_encoder(
            "packed", fcp, PackedEncoderContext().with_unroll_arrays(unroll)
        )
        for impl in fcp.get_matching_impls("can"):
            got = encoder.generate(impl)
            for e in compare(fcp, impl, got, unroll):
                errs.append("unroll=%s %s: %s" % (unroll, impl.name, e))

    if errs:
        for e in errs:
            print(e)
        print("FAIL")
        return 1
    print("PASS")
    return 0


if __name__ == "__main__":
    sys.exit(main())
