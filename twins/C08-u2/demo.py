#!/venv/bin/python
"""Differential demo for property C08.

Accepted schemas have no dangling or mis-kinded type references; a reference
to a name that is not declared before its use is a parse error naming the type
and the enclosing struct.

The demo builds a few hundred schemas (hand written and pseudo-random, single
file and multi-module), predicts the outcome with a tiny independent model of
the declaration-order rule, and compares the prediction with what fcp.parser
returns: the exact tree of tagged references on success, the exact chain of
error messages (plus the source line of the offending field) on failure.

It finds the code through PYTHONPATH.  FCP_ROOT (default /tmp/twin2-C08) is only
used to locate tests/schemas/error for the pinned error renderings.
"""

import os
import pathlib
import random
import shutil
import sys
import tempfile

from fcp.parser import get_fcp, get_fcp_from_string
from fcp.error import Logger
from fcp.specs.type import (
    ArrayType,
    DynamicArrayType,
    OptionalType,
    StructType,
    EnumType,
)

FCP_ROOT = pathlib.Path(os.environ.get("FCP_ROOT", "/tmp/twin2-C08"))

failures = []
checks = 0


def check(cond, what):
    global checks
    checks += 1
    if not cond:
        failures.append(what)


# --------------------------------------------------------------------------
# schema description -> text
#
# type descriptor:  "u8" | ("ref", name) | ("arr", t, n) | ("dyn", t) | ("opt", t)
# item:             ("enum", name) | ("struct", name, [type, ...]) | ("mod", dotted)
# --------------------------------------------------------------------------


def type_text(t):
    if isinstance(t, str):
        return t
    if t[0] == "ref":
        return t[1]
    if t[0] == "arr":
        return "[%s, %d]" % (type_text(t[1]), t[2])
    if t[0] == "dyn":
        return "[%s]" % type_text(t[1])
    if t[0] == "opt":
        return "Optional[%s]" % type_text(t[1])
    raise AssertionError(t)


def render(items):
    """Return (text, {(item_index, field_index): line_number})."""
    lines = ['version: "3"', ""]
    where = {}
    for i, item in enumerate(items):
        if item[0] == "enum":
            lines.append("enum %s {" % item[1])
            lines.append("    Zero = 0,")
            lines.append("    One = 1,")
            lines.append("}")
        elif item[0] == "mod":
            lines.append("mod %s;" % item[1])
        else:
            lines.append("struct %s {" % item[1])
            for j, t in enumerate(item[2]):
                lines.append("    f%d @%d : %s," % (j, j, type_text(t)))
                where[(i, j)] = len(lines)
            lines.append("}")
        lines.append("")
    return "\n".join(lines) + "\n", where


# --------------------------------------------------------------------------
# independent model of the resolution rule
# --------------------------------------------------------------------------

WRAP_MSG = {
    "arr": "Error parsing array type",
    "dyn": "Error parsing dynamic array type",
    "opt": "Error parsing optional type",
}


def resolve(t, structs, enums):
    """-> ("ok", tagged descriptor) | ("err", [messages])."""
    if isinstance(t, str):
        return "ok", t
    if t[0] == "ref":
        if t[1] in structs:
            return "ok", ("Struct", t[1])
        if t[1] in enums:
            return "ok", ("Enum", t[1])
        return "err", ["Type '%s' cannot be found." % t[1]]
    kind, inner = resolve(t[1], structs, enums)
    if kind == "err":
        return "err", inner + [WRAP_MSG[t[0]]]
    return "ok", (t[0], inner) + tuple(t[2:])


def model(modules, name, directory):
    """Predict the parse of module `name` that lives in `directory`.

    -> ("ok", [(struct, [tagged]), ...], [enum names])
     | ("err", [messages], (file, line) | None)
    """
    path = directory / (name.replace(".", "/") + ".fcp")
    if name not in modules:
        return "missing", ["File not found: %s" % path.name], None
    items = modules[name]
    _, where = render(items)
    structs, enums = [], []
    first_err = None
    for i, item in enumerate(items):
        if item[0] == "enum":
            enums.append(item[1])
        elif item[0] == "mod":
            sub_path = path.parent / (item[1].replace(".", "/") + ".fcp")
            # module names in `modules` are relative to the top directory
            rel = sub_path.relative_to(TOP).with_suffix("")
            sub = model(modules, ".".join(rel.parts), TOP)
            if sub[0] == "missing":
                # reported by the importer itself, not wrapped as an import failure
                if first_err is None:
                    first_err = (list(sub[1]), None)
            elif sub[0] == "err":
                if first_err is None:
                    first_err = (sub[1] + ["Failed to import %s" % sub_path], sub[2])
            else:
                structs += sub[1]
                enums += sub[2]
        else:
            tagged = []
            bad = None
            for j, t in enumerate(item[2]):
                kind, val = resolve(t, [s for s, _ in structs], enums)
                if kind == "err":
                    bad = (
                        val
                        + [
                            "Error parsing type in struct field",
                            "Failed to parse field in struct %s" % item[1],
                        ],
                        (str(path), where[(i, j)]),
                    )
                    break
                tagged.append(val)
            if bad is not None:
                if first_err is None:
                    first_err = bad
            else:
                structs.append((item[1], tagged))
    if first_err is not None:
        return "err", first_err[0] + ["Failed to parse %s" % path.name], first_err[1]
    return "ok", structs, enums


# --------------------------------------------------------------------------
# what the implementation says
# --------------------------------------------------------------------------


def tagged_of(t):
    if isinstance(t, ArrayType):
        return ("arr", tagged_of(t.underlying_type), t.size)
    if isinstance(t, DynamicArrayType):
        return ("dyn", tagged_of(t.underlying_type))
    if isinstance(t, OptionalType):
        return ("opt", tagged_of(t.underlying_type))
    if isinstance(t, StructType):
        check(t.type == "Struct", "StructType carries type tag %r" % t.type)
        return ("Struct", t.name)
    if isinstance(t, EnumType):
        check(t.type == "Enum", "EnumType carries type tag %r" % t.type)
        return ("Enum", t.name)
    return t.name if hasattr(t, "name") else t.type


def leaves(t):
    while isinstance(t, tuple) and t[0] in ("arr", "dyn", "opt"):
        t = t[1]
    return t


def observe(result, logger):
    if result.is_ok():
        fcp = result.unwrap()
        structs = [(s.name, [tagged_of(f.type) for f in s.fields]) for s in fcp.structs]
        # the property itself, checked directly on the returned tree
        for sname, fields in structs:
            for tagged in fields:
                leaf = leaves(tagged)
                if isinstance(leaf, tuple):
                    kind, ref = leaf
                    getter = fcp.get_struct if kind == "Struct" else fcp.get_enum
                    check(
                        getter(ref).is_some(),
                        "accepted tree has dangling %s reference %s in %s"
                        % (kind, ref, sname),
                    )
        # every struct got its default impl, in step with the struct list
        defaults = [i.name for i in fcp.impls if i.protocol == "default"]
        check(
            defaults == [s for s, _ in structs],
            "default impls %r do not mirror structs %r" % (defaults, structs),
        )
        return "ok", structs, [e.name for e in fcp.enums]
    err = result.err()
    msgs = [m for m, _, _ in err.msg]
    node = err.msg[0][1]
    loc = None
    if node is not None:
        loc = (node.meta.filename, node.meta.line)
    # rendering must work and show the first message
    text = logger.error(err)
    check(msgs[0] in text, "rendered error lacks first message: %r" % text)
    return "err", msgs, loc


TOP = None


def run_case(label, modules, use_string=False):
    """modules: {dotted name: items}; 'main' is the entry point."""
    global TOP
    tmp = pathlib.Path(os.path.realpath(tempfile.mkdtemp(prefix="c08demo")))
    TOP = tmp
    try:
        for name, items in modules.items():
            p = tmp / (name.replace(".", "/") + ".fcp")
            p.parent.mkdir(parents=True, exist_ok=True)
            p.write_text(render(items)[0])
        expected = model(modules, "main", tmp)
        for attempt in range(2):  # repeated calls must agree
            logger = Logger({}, enable_file_paths=False)
            got = observe(get_fcp(str(tmp / "main.fcp"), logger), logger)
            check(
                got == expected,
                "%s (call %d)\n   expected %r\n   got      %r\n%s"
                % (label, attempt, expected, got, render(modules["main"])[0]),
            )
        if use_string:
            logger = Logger({}, enable_file_paths=False)
            got = observe(get_fcp_from_string(render(modules["main"])[0], logger), logger)
            exp = expected
            if exp[0] == "err" and exp[2] is not None:
                exp = (exp[0], exp[1], ("main.fcp", exp[2][1]))
            check(
                got == exp,
                "%s (from string)\n   expected %r\n   got      %r" % (label, exp, got),
            )
    finally:
        shutil.rmtree(tmp)


# --------------------------------------------------------------------------
# hand-written cases
# --------------------------------------------------------------------------

R = lambda n: ("ref", n)  # noqa: E731

HAND = {
    "enum then struct": [("enum", "E"), ("struct", "S", ["u8", R("E")])],
    "struct then struct": [("struct", "A", ["u8"]), ("struct", "B", [R("A"), "f32"])],
    "forward struct": [("struct", "B", [R("A")]), ("struct", "A", ["u8"])],
    "forward enum": [("struct", "B", ["u8", R("E")]), ("enum", "E")],
    "self reference": [("struct", "A", ["u8", R("A")])],
    "self in optional": [("struct", "A", [("opt", R("A"))])],
    "undeclared": [("struct", "A", [R("Nope")])],
    "undeclared deep": [
        ("struct", "A", ["u8", ("opt", ("dyn", ("arr", R("Nope"), 3)))])
    ],
    "declared deep": [
        ("enum", "E"),
        ("struct", "A", ["u1"]),
        (
            "struct",
            "B",
            [
                ("opt", ("dyn", ("arr", R("E"), 3))),
                ("arr", ("arr", R("A"), 2), 5),
                ("dyn", ("opt", R("A"))),
            ],
        ),
    ],
    "struct shadows enum, enum first": [
        ("enum", "X"),
        ("struct", "X", ["u8"]),
        ("struct", "U", [R("X")]),
    ],
    "struct shadows enum, struct first": [
        ("struct", "X", ["u8"]),
        ("enum", "X"),
        ("struct", "U", [R("X")]),
    ],
    "enum use before same-named struct": [
        ("enum", "X"),
        ("struct", "U", [R("X")]),
        ("struct", "X", ["u8"]),
        ("struct", "V", [R("X")]),
    ],
    "failed struct is not declared": [
        ("struct", "A", [R("Nope")]),
        ("struct", "B", [R("A")]),
    ],
    "second error is not the reported one": [
        ("struct", "A", ["u8", R("First"), R("Second")]),
        ("struct", "B", [R("Third")]),
    ],
    "duplicate struct names": [
        ("struct", "A", ["u8"]),
        ("struct", "A", ["u16", R("A")]),
        ("struct", "B", [("dyn", R("A"))]),
    ],
    "case sensitive": [("struct", "Abc", ["u8"]), ("struct", "B", [R("abc")])],
    "keyword-like names": [
        ("enum", "u"),
        ("struct", "Optional_", ["u8"]),
        ("struct", "B", [R("u"), R("Optional_"), R("v8x")]),
    ],
    "many": [("enum", "E%d" % i) for i in range(20)]
    + [("struct", "S%d" % i, ["u8"]) for i in range(20)]
    + [("struct", "T", [R("E%d" % i) for i in range(20)] + [R("S%d" % i) for i in range(20)])],
}

MODS = {
    "import struct and enum": {
        "main": [("mod", "m1"), ("struct", "S", [R("A"), R("E")])],
        "m1": [("enum", "E"), ("struct", "A", ["u8"])],
    },
    "use before import": {
        "main": [("struct", "S", [R("A")]), ("mod", "m1")],
        "m1": [("struct", "A", ["u8"])],
    },
    "transitive import": {
        "main": [("mod", "m1"), ("struct", "S", [("opt", R("Deep")), R("A")])],
        "m1": [("mod", "m2"), ("struct", "A", [R("Deep")])],
        "m2": [("struct", "Deep", ["u8"])],
    },
    "module cannot see importer": {
        "main": [("struct", "Local", ["u8"]), ("mod", "m1")],
        "m1": [("struct", "A", [("arr", R("Local"), 2)])],
    },
    "module cannot see sibling": {
        "main": [("mod", "m2"), ("mod", "m1")],
        "m1": [("struct", "A", [R("Deep")])],
        "m2": [("struct", "Deep", ["u8"])],
    },
    "diamond": {
        "main": [("mod", "m1"), ("mod", "m2"), ("struct", "S", [R("Deep"), R("A")])],
        "m1": [("mod", "m2"), ("struct", "A", [R("Deep")])],
        "m2": [("struct", "Deep", ["u8"])],
    },
    "missing module": {"main": [("struct", "S", ["u8"]), ("mod", "nowhere")]},
    "missing nested module": {
        "main": [("mod", "m1")],
        "m1": [("struct", "A", ["u8"]), ("mod", "nowhere")],
    },
    "subdirectory module": {
        "main": [("mod", "sub.inner"), ("struct", "S", [R("I"), R("J")])],
        "sub.inner": [("struct", "I", ["u8"]), ("mod", "leaf")],
        "sub.leaf": [("enum", "J")],
    },
    "error inside subdirectory module": {
        "main": [("mod", "sub.inner")],
        "sub.inner": [("enum", "K"), ("struct", "I", [R("K"), ("dyn", R("Ghost"))])],
    },
    "error in main before bad import": {
        "main": [("struct", "S", [R("Ghost")]), ("mod", "m1")],
        "m1": [("struct", "A", [R("Other")])],
    },
    "bad import before error in main": {
        "main": [("mod", "m1"), ("struct", "S", [R("Ghost")])],
        "m1": [("struct", "A", [R("Other")])],
    },
}


def broken_module_cases():
    """Syntax errors in imported modules and in the main file."""
    tmp = pathlib.Path(os.path.realpath(tempfile.mkdtemp(prefix="c08demo")))
    try:
        (tmp / "main.fcp").write_text('version: "3"\n\nmod bad;\nstruct S {\n  a @0: u8,\n}\n')
        cases = {
            "unexpected character": (
                'version: "3"\nstruct ? {\n a @0: u8,\n}\n',
                lambda m: m[0].startswith("Unexpected character '?'")
                and m[1:] == ["Failed to parse main.fcp"],
                (str(tmp / "bad.fcp"), 2),
            ),
            "unexpected eof": (
                'version: "3"\nstruct A {\n a @0: u8,\n',
                lambda m: m == ["Unexpected EOF in bad.fcp", "Failed to parse main.fcp"],
                (str(tmp / "main.fcp"), 3),
            ),
            "wrong version": (
                'version: "2"\nstruct A {\n a @0: u8,\n}\n',
                lambda m: m
                == [
                    "Expected IDL version 3",
                    "Failed to parse bad.fcp",
                    "Failed to import %s" % (tmp / "bad.fcp"),
                    "Failed to parse main.fcp",
                ],
                (str(tmp / "bad.fcp"), 1),
            ),
            "exception inside module": (
                'version: "3"\nstruct A {\n a @0: u8 | nosuchparam(1),\n}\n',
                lambda m: m
                == [
                    "Invalid definition in bad.fcp: 'nosuchparam'",
                    "Failed to parse main.fcp",
                ],
                (str(tmp / "main.fcp"), 3),
            ),
        }
        for label, (text, pred, loc) in cases.items():
            (tmp / "bad.fcp").write_text(text)
            logger = Logger({}, enable_file_paths=False)
            res = get_fcp(str(tmp / "main.fcp"), logger)
            check(res.is_err(), "broken module accepted: " + label)
            if res.is_err():
                got = observe(res, logger)
                check(pred(got[1]), "broken module %s: messages %r" % (label, got[1]))
                check(got[2] == loc, "broken module %s: location %r != %r" % (label, got[2], loc))
        # the same defects in the main file itself
        mains = {
            "unexpected character": (
                'version: "3"\nstruct ? {\n a @0: u8,\n}\n',
                lambda m: len(m) == 1 and m[0].startswith("Unexpected character '?'"),
            ),
            "unexpected eof": (
                'version: "3"\nstruct A {\n a @0: u8,\n',
                lambda m: m == ["Unexpected EOF in main.fcp"],
            ),
            "exception": (
                'version: "3"\nstruct A {\n a @0: u8 | nosuchparam(1),\n}\n',
                lambda m: m == ["Invalid definition in main.fcp: 'nosuchparam'"],
            ),
        }
        for label, (text, pred) in mains.items():
            logger = Logger({}, enable_file_paths=False)
            res = get_fcp_from_string(text, logger)
            check(res.is_err(), "broken main accepted: " + label)
            if res.is_err():
                got = observe(res, logger)
                check(pred(got[1]), "broken main %s: messages %r" % (label, got[1]))
    finally:
        shutil.rmtree(tmp)


def pinned_error_renderings():
    """The repository's own error fixtures (rendered text is pinned there)."""
    d = FCP_ROOT / "tests" / "schemas" / "error"
    if not d.is_dir():
        return
    for fcp_file in sorted(d.glob("*.fcp")):
        txt = fcp_file.with_suffix(".txt")
        if not txt.exists():
            continue
        logger = Logger({}, enable_file_paths=False)
        res = get_fcp(fcp_file, logger)
        check(res.is_err(), "fixture %s accepted" % fcp_file.name)
        if res.is_err():
            check(
                logger.error(res.err()) == txt.read_text(),
                "fixture %s renders differently" % fcp_file.name,
            )


# --------------------------------------------------------------------------
# pseudo-random cases
# --------------------------------------------------------------------------

NAMES = ["A", "B", "C", "D", "E", "Ghost"]
BUILTIN = ["u1", "u8", "u64", "i16", "f32", "f64", "str"]


def rand_type(rng, depth=0):
    r = rng.random()
    if depth < 3 and r < 0.35:
        k = rng.choice(["arr", "dyn", "opt"])
        inner = rand_type(rng, depth + 1)
        return (k, inner, rng.randint(1, 4)) if k == "arr" else (k, inner)
    if r < 0.55:
        return ("ref", rng.choice(NAMES + NAMES[:3]))
    return rng.choice(BUILTIN)


def rand_items(rng, mods):
    # start with a couple of declarations so that a fair share resolves
    items = [("enum", "A"), ("struct", "B", ["u8"])][: rng.randint(0, 2)]
    for _ in range(rng.randint(1, 6)):
        r = rng.random()
        if r < 0.3:
            items.append(("enum", rng.choice(NAMES[:-1])))
        elif r < 0.45 and mods:
            items.append(("mod", rng.choice(mods)))
        else:
            items.append(
                (
                    "struct",
                    rng.choice(NAMES[:-1]),
                    [rand_type(rng) for _ in range(rng.randint(1, 4))],
                )
            )
    return items


def main():
    for label, items in HAND.items():
        run_case(label, {"main": items}, use_string=True)
    for label, modules in MODS.items():
        run_case(label, modules)
    broken_module_cases()
    pinned_error_renderings()

    rng = random.Random(0xC08)
    ok = err = 0
    for n in range(220):
        single = n % 2 == 0
        if single:
            modules = {"main": rand_items(rng, [])}
        else:
            modules = {
                "m2": rand_items(rng, ["m3"]),  # m3 never exists -> sometimes missing
                "m1": rand_items(rng, ["m2"]),
                "main": rand_items(rng, ["m1", "m2"]),
            }
        before = len(failures)
        run_case("random #%d" % n, modules, use_string=single)
        if len(failures) == before:
            TOP_kind = model_kind(modules)
            ok += TOP_kind == "ok"
            err += TOP_kind == "err"

    # the sample must exercise both outcomes or it proves nothing
    check(ok >= 20 and err >= 20, "random sample is lopsided: ok=%d err=%d" % (ok, err))

    if failures:
        print("FAIL: %d of %d checks" % (len(failures), checks))
        for f in failures[:10]:
            print(" -", f)
        return 1
    print("PASS (%d checks; random sample: %d accepted, %d rejected)" % (checks, ok, err))
    return 0


def model_kind(modules):
    global TOP
    TOP = pathlib.Path("/nonexistent-c08")
    return model(modules, "main", TOP)[0]


if __name__ == "__main__":
    sys.exit(main())
