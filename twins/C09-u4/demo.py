#!/usr/bin/env python
"""Differential test for property C09.

Verifier verdict == well-formedness specification (both directions), for the
general check set alone and with the DBC / C plug-in checks registered, and the
verdict is independent of declaration order.

The expected verdict, the first reported message and the node it points at are
predicted by `oracle()` below, which is written from the specification and does
not share any code with fcp's verifier.

Run with PYTHONPATH pointing at the worktree (see the task description).
"""

import itertools
import os
import random
import sys

FCP_ROOT = os.environ.get("FCP_ROOT", "/tmp/twin2-C09")

from fcp.specs.v2 import FcpV2
from fcp.specs.struct import Struct
from fcp.specs.struct_field import StructField
from fcp.specs.enum import Enum, Enumeration
from fcp.specs.impl import Impl
from fcp.specs.service import Service
from fcp.specs.device import Device
from fcp.specs.type import (
    UnsignedType,
    SignedType,
    FloatType,
    DoubleType,
    EnumType,
    StructType,
    ArrayType,
)
from fcp.verifier import make_general_verifier, Verifier, register
from fcp.result import Ok
from fcp.error import error
import fcp_dbc.generator
import fcp_can_c.generator

CHECK_SETS = ("general", "dbc", "c")


# --------------------------------------------------------------------------
# building schema trees
# --------------------------------------------------------------------------
def S(name, *fields):
    return Struct(name=name, fields=list(fields), meta=None)


def F(name, type_=None, field_id=0):
    return StructField(name, field_id, type_ or UnsignedType("u8"))


def E(name, *pairs):
    return Enum(name, [Enumeration(n, v) for n, v in pairs])


def I(name, protocol, type_, **fields):
    return Impl(name, protocol, type_, dict(fields), [])


def SV(name, id_=0):
    return Service(name, id_, [])


def D(name, services=None, **extra):
    fields = dict(extra)
    if services is not None:
        fields["services"] = list(services)
    return Device(name, fields)


def tree(structs=(), enums=(), impls=(), services=(), devices=()):
    return FcpV2(
        structs=list(structs),
        enums=list(enums),
        impls=list(impls),
        services=list(services),
        devices=list(devices),
    )


def make_verifier(check_set):
    verifier = make_general_verifier()
    if check_set == "dbc":
        fcp_dbc.generator.Generator().register_checks(verifier)
    elif check_set == "c":
        fcp_can_c.generator.Generator().register_checks(verifier)
    return verifier


# --------------------------------------------------------------------------
# the specification
# --------------------------------------------------------------------------
class Unresolved(Exception):
    pass


class Unpackable(Exception):
    pass


def occurrences(items, item):
    n = 0
    for other in items:
        if other is item or other == item:
            n += 1
    return n


def find_struct(fcp, name):
    for struct in fcp.structs:
        if struct.name == name:
            return struct
    return None


def bits_of_enum_field(enum):
    import math

    m = max(e.value for e in enum.enumeration)
    if m in (0, 1):
        return 1
    if m < 0:
        raise Unpackable()
    return math.floor(math.log2(m) + 1)


def bits_of_type(fcp, type_):
    import math

    if isinstance(type_, (UnsignedType, SignedType, FloatType, DoubleType)):
        return int(type_.name[1:])
    if isinstance(type_, ArrayType):
        return sum(bits_of_type(fcp, type_.underlying_type) for _ in range(type_.size))
    if isinstance(type_, EnumType):
        for enum in fcp.enums:
            if enum.name == type_.name:
                return bits_of_enum_field(enum)
        raise Unresolved()
    if isinstance(type_, StructType):
        for node in list(fcp.structs) + list(fcp.enums):
            if node.name == type_.name:
                if isinstance(node, Struct):
                    return sum(bits_of_type(fcp, f.type) for f in node.fields)
                m = max(e.value for e in node.enumeration) + 1
                if m <= 0:
                    raise Unpackable()
                bits = math.ceil(math.log2(m))
                if bits > 64:
                    raise Unpackable()
                return bits
        raise Unresolved()
    raise Unpackable()


def oracle(fcp, check_set):
    """Return None when well-formed, else (message, node) of the first report.

    May raise Unresolved when the C size computation meets a dangling type.
    """
    for struct in fcp.structs:
        if not struct.fields:
            return ("Struct has no signal", struct)

    for struct in fcp.structs:
        names = [f.name for f in struct.fields]
        for field in struct.fields:
            if occurrences(names, field.name) > 1:
                return ("Duplicate fields", field)

    for enum in fcp.enums:
        names = [e.name for e in enum.enumeration]
        for e in enum.enumeration:
            if occurrences(names, e.name) > 1:
                return ("Duplicated enumration name", e)
    for enum in fcp.enums:
        values = [e.value for e in enum.enumeration]
        for e in enum.enumeration:
            if occurrences(values, e.value) > 1:
                return ("Duplicated enumeration name", e)

    keys = [(i.name, i.protocol) for i in fcp.impls]
    for impl in fcp.impls:
        if occurrences(keys, (impl.name, impl.protocol)) > 1:
            return ("Duplicate impls", impl)

    if check_set == "dbc":
        for impl in fcp.impls:
            if find_struct(fcp, impl.type) is None:
                return (f"No matching type for impl {impl.name}", impl)
        ids = [i.fields.get("id") for i in fcp.impls if i.protocol == "can"]
        for impl in fcp.impls:
            if impl.protocol == "can" and impl.fields.get("id") is not None:
                if occurrences(ids, impl.fields.get("id")) > 1:
                    return ("Duplicate ids", impl)
    elif check_set == "c":
        for impl in fcp.impls:
            if find_struct(fcp, impl.type) is None:
                return (f"No matching type for extension {impl.name}", impl)
        for impl in fcp.impls:
            if impl.protocol != "can":
                continue
            try:
                size = bits_of_type(fcp, StructType(impl.type))
            except Unpackable:
                return ("cannot be packed", impl)
            if size > 64:
                return (f"Impl {impl.name} is way too big at {size} bits", impl)

    types = list(fcp.structs) + list(fcp.enums)
    type_names = [t.name for t in types]
    for t in types:
        if occurrences(type_names, t.name) > 1:
            return ("Duplicate type names", t)

    known = [s.name for s in fcp.services]
    for device in fcp.devices:
        wanted = device.fields.get("services")
        if wanted is None:
            continue
        for service in wanted:
            if service not in known:
                return (
                    f'Service "{service}" referenced by device "{device.name}" doesn\'t exist',
                    device,
                )
    return None


def wellformed(fcp, check_set):
    """The bare iff-specification of the property statement (verdict only)."""

    def unique(xs):
        return all(occurrences(xs, x) == 1 for x in xs)

    ok = unique([t.name for t in list(fcp.structs) + list(fcp.enums)])
    ok = ok and unique([(i.name, i.protocol) for i in fcp.impls])
    ok = ok and all(unique([f.name for f in s.fields]) for s in fcp.structs)
    ok = ok and all(len(s.fields) > 0 for s in fcp.structs)
    ok = ok and all(unique([e.name for e in en.enumeration]) for en in fcp.enums)
    ok = ok and all(unique([e.value for e in en.enumeration]) for en in fcp.enums)
    known = [s.name for s in fcp.services]
    ok = ok and all(
        svc in known for d in fcp.devices for svc in (d.fields.get("services") or [])
    )
    if check_set in ("dbc", "c"):
        ok = ok and all(find_struct(fcp, i.type) is not None for i in fcp.impls)
    if check_set == "dbc":
        ids = [
            i.fields.get("id")
            for i in fcp.impls
            if i.protocol == "can" and i.fields.get("id") is not None
        ]
        ok = ok and unique(ids)
    if check_set == "c" and ok:
        for i in fcp.impls:
            if i.protocol == "can":
                try:
                    ok = ok and bits_of_type(fcp, StructType(i.type)) <= 64
                except Unpackable:
                    ok = False
    return ok


# --------------------------------------------------------------------------
# comparison
# --------------------------------------------------------------------------
failures = []
n_checked = 0


def fail(what):
    failures.append(what)
    if len(failures) <= 10:
        print("MISMATCH:", what)


def observe(fcp, check_set, verifier=None):
    verifier = verifier or make_verifier(check_set)
    try:
        result = verifier.verify(fcp)
    except Exception as e:  # noqa: BLE001
        return ("raise", type(e).__name__, None)
    if result.is_ok():
        return ("ok", result.unwrap(), None)
    err = result.err()
    assert len(err.msg) == 1, err.msg
    return ("err", err.msg[0][0], err.msg[0][1])


def expect(fcp, check_set):
    try:
        want = oracle(fcp, check_set)
    except Unresolved:
        return ("raise", "UnwrapError", None)
    if want is None:
        return ("ok", (), None)
    return ("err", want[0], want[1])


def same(got, want):
    if got[0] != want[0]:
        return False
    if got[0] == "ok":
        return got[1] == ()
    if got[0] == "raise":
        return got[1] == want[1]
    if want[1] == "cannot be packed":
        return "cannot be packed into a CAN frame" in got[1] and got[2] is want[2]
    return got[1] == want[1] and got[2] is want[2]


def check_tree(fcp, label, check_sets=CHECK_SETS):
    global n_checked
    for check_set in check_sets:
        n_checked += 1
        got = observe(fcp, check_set)
        want = expect(fcp, check_set)
        if not same(got, want):
            fail(f"{label} [{check_set}]: got {got[:2]} want {want[:2]}")
        if want[0] != "raise":
            if (got[0] == "ok") != wellformed(fcp, check_set):
                fail(f"{label} [{check_set}]: verdict {got[0]} disagrees with the iff-spec")
        # a second run on a fresh verifier and a re-run on the same verifier agree
        verifier = make_verifier(check_set)
        first = observe(fcp, check_set, verifier)
        second = observe(fcp, check_set, verifier)
        if first[:2] != got[:2] or second[:2] != got[:2] or first[2] is not got[2]:
            fail(f"{label} [{check_set}]: repeated runs disagree {got[:2]} {first[:2]} {second[:2]}")


def permuted(fcp, rng):
    def shuffled(xs):
        xs = list(xs)
        rng.shuffle(xs)
        return xs

    structs = [S(s.name, *shuffled(s.fields)) for s in shuffled(fcp.structs)]
    enums = []
    for en in shuffled(fcp.enums):
        clone = Enum(en.name, shuffled(en.enumeration))
        enums.append(clone)
    return tree(
        structs,
        enums,
        shuffled(fcp.impls),
        shuffled(fcp.services),
        [Device(d.name, dict(reversed(list(d.fields.items())))) for d in shuffled(fcp.devices)],
    )


def check_order_independence(fcp, label, rng, rounds=3):
    for check_set in CHECK_SETS:
        base = observe(fcp, check_set)
        for _ in range(rounds):
            other = observe(permuted(fcp, rng), check_set)
            if (base[0] == "ok") != (other[0] == "ok") or (base[0] == "raise") != (
                other[0] == "raise"
            ):
                fail(f"{label} [{check_set}]: verdict depends on order: {base[:2]} vs {other[:2]}")


# --------------------------------------------------------------------------
# inputs
# --------------------------------------------------------------------------
def handwritten():
    u8, u16, u32, u64 = (UnsignedType(n) for n in ("u8", "u16", "u32", "u64"))
    yield "empty", tree()
    yield "minimal", tree([S("A", F("x"))])
    yield "good", tree(
        [S("A", F("x"), F("y", u16, 1)), S("B", F("x", u32))],
        [E("Col", ("R", 0), ("G", 1))],
        [I("A", "can", "A", id=1), I("B", "can", "B", id=2), I("A", "uart", "A")],
        [SV("svc")],
        [D("ecu", ["svc"]), D("bare")],
    )
    yield "dup type struct/struct", tree([S("A", F("x")), S("A", F("y"))])
    yield "dup type struct/enum", tree([S("A", F("x"))], [E("A", ("R", 0))])
    yield "dup type enum/enum", tree([], [E("A", ("R", 0)), E("A", ("G", 0))])
    yield "dup type thrice", tree([S("A", F("x")), S("B", F("x")), S("A", F("x"))], [E("A", ("R", 0))])
    yield "dup impl", tree([S("A", F("x"))], impls=[I("m", "can", "A", id=1), I("m", "can", "A", id=2)])
    yield "same impl name other protocol", tree(
        [S("A", F("x"))], impls=[I("m", "can", "A", id=1), I("m", "uart", "A", id=1)]
    )
    yield "same protocol other name", tree(
        [S("A", F("x"))], impls=[I("m", "can", "A", id=1), I("n", "can", "A", id=2)]
    )
    yield "dup field", tree([S("A", F("x"), F("y"), F("x", u16, 2))])
    yield "dup field second struct", tree([S("A", F("x")), S("B", F("y"), F("y"))])
    yield "same field name in two structs", tree([S("A", F("x")), S("B", F("x"))])
    yield "empty struct", tree([S("A")])
    yield "empty struct last", tree([S("B", F("x")), S("A")])
    yield "empty + dup field", tree([S("B", F("x"), F("x")), S("A")])
    yield "dup enum name", tree([], [E("Col", ("R", 0), ("R", 1))])
    yield "dup enum value", tree([], [E("Col", ("R", 0), ("G", 0))])
    yield "dup enum value second enum", tree([], [E("C1", ("R", 0)), E("C2", ("R", 3), ("G", 3))])
    yield "dup enum name+value", tree([], [E("C1", ("R", 0), ("G", 0)), E("C2", ("R", 3), ("R", 4))])
    yield "same enumerators across enums", tree([], [E("C1", ("R", 0)), E("C2", ("R", 0))])
    yield "bool-ish enum values", tree([], [E("C1", ("R", 1), ("G", True))])
    yield "missing service", tree(services=[SV("a")], devices=[D("ecu", ["a", "b"])])
    yield "missing service, no services at all", tree(devices=[D("ecu", ["b"])])
    yield "services but no device", tree(services=[SV("a")])
    yield "device without services key", tree(devices=[D("ecu", None, other=1)])
    yield "device with empty services", tree(devices=[D("ecu", [])])
    yield "second device bad", tree(services=[SV("a")], devices=[D("e1", ["a"]), D("e2", ["zz", "a"])])
    yield "dup service names ok", tree(services=[SV("a"), SV("a", 1)], devices=[D("e1", ["a"])])
    yield "dup device names ok", tree(services=[SV("a")], devices=[D("e1", ["a"]), D("e1", ["a"])])
    # plug-in specific
    yield "impl of unknown struct", tree([S("A", F("x"))], impls=[I("m", "can", "Z", id=1)])
    yield "impl of enum name", tree([S("A", F("x"))], [E("Z", ("R", 0))], [I("m", "can", "Z", id=1)])
    yield "non-can impl of unknown struct", tree([S("A", F("x"))], impls=[I("m", "uart", "Z")])
    yield "dup can ids", tree(
        [S("A", F("x")), S("B", F("x"))], impls=[I("a", "can", "A", id=7), I("b", "can", "B", id=7)]
    )
    yield "dup ids different protocol", tree(
        [S("A", F("x")), S("B", F("x"))], impls=[I("a", "can", "A", id=7), I("b", "uart", "B", id=7)]
    )
    yield "dup ids both non-can", tree(
        [S("A", F("x")), S("B", F("x"))], impls=[I("a", "uart", "A", id=7), I("b", "uart", "B", id=7)]
    )
    yield "can impls without id", tree(
        [S("A", F("x")), S("B", F("x"))], impls=[I("a", "can", "A"), I("b", "can", "B")]
    )
    yield "ids 7 and 7.0", tree(
        [S("A", F("x")), S("B", F("x"))], impls=[I("a", "can", "A", id=7), I("b", "can", "B", id=7.0)]
    )
    yield "id zero twice", tree(
        [S("A", F("x")), S("B", F("x"))], impls=[I("a", "can", "A", id=0), I("b", "can", "B", id=0)]
    )
    yield "id list twice", tree(
        [S("A", F("x")), S("B", F("x"))], impls=[I("a", "can", "A", id=[1]), I("b", "can", "B", id=[1])]
    )
    yield "exactly 64 bits", tree([S("A", F("x", u64))], impls=[I("a", "can", "A", id=1)])
    yield "65 bits", tree([S("A", F("x", u64), F("y", UnsignedType("u1"), 1))], impls=[I("a", "can", "A", id=1)])
    yield "65 bits but uart", tree(
        [S("A", F("x", u64), F("y", UnsignedType("u1"), 1))], impls=[I("a", "uart", "A", id=1)]
    )
    yield "array 8x8", tree([S("A", F("x", ArrayType(u8, 8)))], impls=[I("a", "can", "A", id=1)])
    yield "array 9x8", tree([S("A", F("x", ArrayType(u8, 9)))], impls=[I("a", "can", "A", id=1)])
    yield "nested 64", tree(
        [S("A", F("x", StructType("B")), F("y", u32, 1)), S("B", F("p", u16), F("q", SignedType("i16"), 1))],
        impls=[I("a", "can", "A", id=1)],
    )
    yield "nested 72", tree(
        [S("A", F("x", StructType("B")), F("y", u32, 1)), S("B", F("p", u32), F("q", u8, 1))],
        impls=[I("a", "can", "A", id=1)],
    )
    yield "array of struct 3x24", tree(
        [S("A", F("x", ArrayType(StructType("B"), 3))), S("B", F("p", u16), F("q", u8, 1))],
        impls=[I("a", "can", "A", id=1)],
    )
    yield "enum field", tree(
        [S("A", F("x", EnumType("Col")), F("y", DoubleType(), 1))],
        [E("Col", ("R", 0), ("G", 5))],
        [I("a", "can", "A", id=1)],
    )
    yield "enum field small", tree(
        [S("A", F("x", EnumType("Col")), F("y", FloatType(), 1), F("z", UnsignedType("u31"), 2))],
        [E("Col", ("R", 0), ("G", 1))],
        [I("a", "can", "A", id=1)],
    )
    yield "enum field negative", tree(
        [S("A", F("x", EnumType("Col")))], [E("Col", ("R", -4), ("G", -2))], [I("a", "can", "A", id=1)]
    )
    yield "dangling enum field", tree([S("A", F("x", EnumType("Nope")))], impls=[I("a", "can", "A", id=1)])
    yield "dangling struct field", tree([S("A", F("x", StructType("Nope")))], impls=[I("a", "can", "A", id=1)])
    yield "dangling struct field, uart", tree(
        [S("A", F("x", StructType("Nope")))], impls=[I("a", "uart", "A", id=1)]
    )
    yield "too big second impl", tree(
        [S("A", F("x", u64)), S("B", F("x", ArrayType(u32, 3)))],
        impls=[I("a", "can", "A", id=1), I("b", "can", "B", id=2)],
    )
    yield "too big and dup type", tree(
        [S("A", F("x", ArrayType(u32, 3))), S("A", F("x"))], impls=[I("a", "can", "A", id=1)]
    )
    yield "everything wrong", tree(
        [S("A"), S("A", F("x"), F("x"))],
        [E("A", ("R", 0), ("R", 0))],
        [I("a", "can", "Q", id=1), I("a", "can", "Q", id=1)],
        [],
        [D("ecu", ["nope"])],
    )


def exhaustive_small():
    """All trees over a tiny vocabulary (verdict is decided by names only)."""
    field_sets = [(), ("x",), ("x", "y"), ("x", "x")]
    struct_opts = [None] + [("A", fs) for fs in field_sets] + [("B", ("x",))]
    enum_opts = [
        None,
        ("A", (("R", 0),)),
        ("E", (("R", 0), ("G", 1))),
        ("E", (("R", 0), ("R", 1))),
        ("E", (("R", 0), ("G", 0))),
    ]
    impl_opts = [None, ("m", "can", "A", 1), ("m", "uart", "A", 1), ("n", "can", "B", 1), ("n", "can", "Z", 2)]
    dev_opts = [None, ("s",), ("t",)]
    for s1, s2, e1, i1, i2, dv in itertools.product(
        struct_opts, struct_opts[:3] + struct_opts[-1:], enum_opts, impl_opts, impl_opts, dev_opts
    ):
        yield f"small {s1} {s2} {e1} {i1} {i2} {dv}", tree(
            [S(s[0], *[F(f, None, k) for k, f in enumerate(s[1])]) for s in (s1, s2) if s],
            [E(e1[0], *e1[1])] if e1 else [],
            [I(i[0], i[1], i[2], id=i[3]) for i in (i1, i2) if i],
            [SV("s")],
            [D("ecu", dv)] if dv else [],
        )


def random_tree(rng):
    """Mostly clean trees (distinct names) into which a few defects are injected."""
    type_pool = [
        UnsignedType("u8"),
        UnsignedType("u16"),
        UnsignedType("u3"),
        SignedType("i32"),
        FloatType(),
        DoubleType(),
        ArrayType(UnsignedType("u8"), 2),
        ArrayType(UnsignedType("u16"), 3),
    ]
    sloppy = rng.random() < 0.25  # names drawn with replacement: many clashes

    def draw(pool, k):
        k = min(k, len(pool))
        return [rng.choice(pool) for _ in range(k)] if sloppy else rng.sample(pool, k)

    type_names = draw(["A", "B", "C", "D", "E", "G"], rng.randint(0, 5))
    n_structs = rng.randint(0, len(type_names))
    structs = []
    for name in type_names[:n_structs]:
        fnames = draw(["x", "y", "z", "w"], rng.choice([1, 1, 2, 2, 3, 4]))
        structs.append(S(name, *[F(f, rng.choice(type_pool), k) for k, f in enumerate(fnames)]))
    enums = []
    for name in type_names[n_structs:][:2]:
        n = rng.randint(1, 3)
        labels = draw(["R", "G", "B"], n)
        values = draw([0, 1, 2, 3, 200], n)
        enums.append(E(name, *zip(labels, values)))
    # sometimes reference existing types from a field (never dangling, never cyclic)
    if structs and enums and rng.random() < 0.3:
        structs[0].fields.append(F("en", EnumType(enums[0].name), 9))
    # only structs[0] ever gets a struct-typed field and it never names itself,
    # so name resolution (first match wins) cannot loop
    if len(structs) >= 2 and rng.random() < 0.3 and structs[-1].name != structs[0].name:
        structs[0].fields.append(F("sub", StructType(structs[-1].name), 10))
    impls = []
    targets = [s.name for s in structs] or ["A"]
    inames = draw(["m", "n", "o", "p"], rng.randint(0, 4))
    if rng.random() < 0.2:
        ids = [rng.choice([1, 2, 3]) for _ in inames]
    else:
        ids = draw([1, 2, 3, 4, 5, 6], len(inames))
    for iname, frame_id in zip(inames, ids):
        fields = {}
        if rng.random() < 0.85:
            fields["id"] = frame_id
        impls.append(Impl(iname, rng.choice(["can", "can", "can", "uart"]), rng.choice(targets), fields, []))
    services = [SV(n, k) for k, n in enumerate(draw(["s", "t", "u"], rng.randint(0, 3)))]
    devices = []
    for name in draw(["e1", "e2"], rng.randint(0, 2)):
        if rng.random() < 0.25:
            devices.append(D(name))
        else:
            known = [s.name for s in services]
            devices.append(D(name, [rng.choice(known) for _ in range(rng.randint(0, 2))] if known else []))

    # inject defects
    for _ in range(rng.choice([0, 0, 1, 1, 2])):
        kind = rng.randrange(10)
        if kind == 0 and structs:
            structs.insert(rng.randrange(len(structs) + 1), S(rng.choice(type_names), F("x")))
        elif kind == 1 and structs:
            victim = rng.choice(structs)
            if victim.fields:
                victim.fields.append(F(rng.choice(victim.fields).name, rng.choice(type_pool), 20))
        elif kind == 2 and structs:
            rng.choice(structs).fields.clear()
        elif kind == 3 and enums:
            victim = rng.choice(enums)
            victim.enumeration.append(Enumeration(victim.enumeration[0].name, 77))
        elif kind == 4 and enums:
            victim = rng.choice(enums)
            victim.enumeration.append(Enumeration("Q", victim.enumeration[-1].value))
        elif kind == 5 and impls:
            twin = rng.choice(impls)
            impls.insert(rng.randrange(len(impls) + 1), Impl(twin.name, twin.protocol, twin.type, {"id": 9}, []))
        elif kind == 6 and impls:
            rng.choice(impls).type = rng.choice(["Z", "E", "G"])
        elif kind == 7 and len(impls) >= 2:
            a, b = rng.sample(impls, 2)
            if "id" in a.fields:
                b.fields["id"] = a.fields["id"]
        elif kind == 8 and structs:
            rng.choice(structs).fields.append(F("big", ArrayType(UnsignedType("u16"), rng.choice([2, 3, 4])), 30))
        elif kind == 9 and devices:
            rng.choice(devices).fields.setdefault("services", []).append(rng.choice(["s", "t", "zz"]))
    return tree(structs, enums, impls, services, devices)


def is_self_nested(fcp):
    # struct A with field of StructType("A") would recurse for ever; the random
    # generator above never builds one, this is only a safety net.
    for s in fcp.structs:
        for f in s.fields:
            if isinstance(f.type, StructType) and f.type.name == s.name:
                return True
    return False


def main():
    rng = random.Random(9009)

    for label, fcp in handwritten():
        check_tree(fcp, label)
        check_order_independence(fcp, label, rng)

    count = 0
    for label, fcp in exhaustive_small():
        count += 1
        # every tree against the general set, the plug-in sets on a third each
        check_tree(fcp, label, ("general", ("dbc", "c")[count % 2]) if count % 3 == 0 else ("general",))
        if count % 17 == 0:
            check_order_independence(fcp, label, rng, rounds=1)

    for k in range(1200):
        fcp = random_tree(rng)
        if is_self_nested(fcp):
            continue
        check_tree(fcp, f"random #{k}")
        if k % 4 == 0:
            check_order_independence(fcp, f"random #{k}", rng, rounds=2)

    extra(rng)

    print(f"checked {n_checked} (tree, check set) pairs, {len(failures)} mismatches")
    if failures:
        print("FAIL")
        return 1
    print("PASS")
    return 0


# --------------------------------------------------------------------------
# change-specific part
# --------------------------------------------------------------------------
def extra(rng):
    """The DBC plug-in's checks on their own, registered in unusual ways."""

    def dbc_oracle(fcp):
        for impl in fcp.impls:
            if find_struct(fcp, impl.type) is None:
                return (f"No matching type for impl {impl.name}", impl)
        ids = [i.fields.get("id") for i in fcp.impls if i.protocol == "can"]
        for impl in fcp.impls:
            if impl.protocol == "can" and impl.fields.get("id") is not None:
                if occurrences(ids, impl.fields.get("id")) > 1:
                    return ("Duplicate ids", impl)
        return None

    def bare_verifier(times=1, generators=None):
        verifier = Verifier()
        for k in range(times):
            gen = generators[k] if generators else fcp_dbc.generator.Generator()
            gen.register_checks(verifier)
        return verifier

    def check_bare(fcp, label):
        global n_checked
        n_checked += 1
        want = dbc_oracle(fcp)
        want = ("ok", (), None) if want is None else ("err", want[0], want[1])
        shared = fcp_dbc.generator.Generator()
        for how, verifier in (
            ("once", bare_verifier()),
            ("twice", bare_verifier(2)),
            ("same generator twice", bare_verifier(2, [shared, shared])),
        ):
            for _ in range(2):
                got = observe(fcp, "dbc", verifier)
                if not same(got, want):
                    fail(f"{label} (dbc only, {how}): got {got[:2]} want {want[:2]}")

    # registration shape
    v = Verifier()
    fcp_dbc.generator.Generator().register_checks(v)
    if [len(v.checks[c]) for c in v.categories] != [0, 0, 0, 2, 0, 0, 0, 0]:
        fail("dbc plug-in must register exactly two impl checks")
    if not all(callable(f) for f in v.checks["impl"]):
        fail("registered checks are not callable")
    ret = fcp_dbc.generator.Generator().register_checks(make_general_verifier())
    if ret is not None:
        fail("register_checks returns something")

    A, B, C = S("A", F("x")), S("B", F("x")), S("C", F("x"))

    def t(*impls, enums=()):
        return tree([A, B, C], list(enums), list(impls))

    cases = {
        "no impls": t(),
        "distinct ids": t(I("a", "can", "A", id=1), I("b", "can", "B", id=2)),
        "same id": t(I("a", "can", "A", id=1), I("b", "can", "B", id=1)),
        "same id three": t(I("a", "can", "A", id=3), I("b", "can", "B", id=1), I("c", "can", "C", id=3)),
        "same id later pair": t(I("a", "can", "A", id=1), I("b", "can", "B", id=2), I("c", "can", "C", id=2)),
        "id 0 twice": t(I("a", "can", "A", id=0), I("b", "can", "B", id=0)),
        "id 0 and False": t(I("a", "can", "A", id=0), I("b", "can", "B", id=False)),
        "id 0 and None": t(I("a", "can", "A", id=0), I("b", "can", "B", id=None)),
        "id None twice": t(I("a", "can", "A", id=None), I("b", "can", "B", id=None)),
        "no id twice": t(I("a", "can", "A"), I("b", "can", "B")),
        "id '7' and 7": t(I("a", "can", "A", id="7"), I("b", "can", "B", id=7)),
        "id 7 and 7.0": t(I("a", "can", "A", id=7), I("b", "can", "B", id=7.0)),
        "id '' twice": t(I("a", "can", "A", id=""), I("b", "can", "B", id="")),
        "id lists": t(I("a", "can", "A", id=[1, 2]), I("b", "can", "B", id=[1, 2])),
        "id dicts differ": t(I("a", "can", "A", id={"x": 1}), I("b", "can", "B", id={"x": 2})),
        "huge ids": t(I("a", "can", "A", id=2**29), I("b", "can", "B", id=2**29)),
        "negative ids": t(I("a", "can", "A", id=-1), I("b", "can", "B", id=-1)),
        "same id other protocol": t(I("a", "can", "A", id=1), I("b", "lin", "B", id=1)),
        "same id both other protocol": t(I("a", "lin", "A", id=1), I("b", "lin", "B", id=1)),
        "same id, protocol CAN vs can": t(I("a", "can", "A", id=1), I("b", "CAN", "B", id=1)),
        "same id same struct": t(I("a", "can", "A", id=1), I("b", "can", "A", id=1)),
        "same impl twice": t(I("a", "can", "A", id=1), I("a", "can", "A", id=2)),
        "unknown type": t(I("a", "can", "Z", id=1)),
        "unknown type non can": t(I("a", "lin", "Z")),
        "unknown type second": t(I("a", "can", "A", id=1), I("b", "can", "Z", id=2)),
        "unknown type and dup ids": t(I("a", "can", "A", id=1), I("b", "can", "B", id=1), I("c", "can", "Z", id=5)),
        "dup ids on unknown types": t(I("a", "can", "Y", id=1), I("b", "can", "Z", id=1)),
        "type is an enum": t(I("a", "can", "Col", id=1), enums=[E("Col", ("R", 0))]),
        "type empty string": t(I("a", "can", "", id=1)),
        "type differs in case": t(I("a", "can", "a", id=1)),
        "extra keys": t(I("a", "can", "A", id=1, bus="x", ID=2), I("b", "can", "B", id=2, ID=2)),
        "only ID keys": t(I("a", "can", "A", ID=1), I("b", "can", "B", ID=1)),
    }
    for label, fcp in cases.items():
        check_bare(fcp, label)
        check_tree(fcp, "dbc case " + label)
        check_order_independence(fcp, "dbc case " + label, rng, rounds=2)

    for k in range(400):
        fcp = random_tree(rng)
        check_bare(fcp, f"random bare #{k}")

    # the same NaN object as id of two frames counts as a clash, two NaNs do not
    nan = float("nan")
    check_bare(t(I("a", "can", "A", id=nan), I("b", "can", "B", id=nan)), "same NaN id")
    check_bare(t(I("a", "can", "A", id=float("nan")), I("b", "can", "B", id=float("nan"))), "two NaN ids")

    # fields of impls of other protocols are never looked at
    broken = I("b", "lin", "B")
    broken.fields = None
    check_bare(t(I("a", "can", "A", id=1), broken), "non-can impl without fields")
    # ... but those of CAN impls are
    broken = I("b", "can", "B")
    broken.fields = None
    got = observe(t(I("a", "lin", "A", id=1), broken), "dbc", bare_verifier())
    if got[:2] != ("raise", "AttributeError"):
        fail(f"can impl without fields: {got[:2]}")
    got = observe(t(I("a", "can", "A", id=1), broken), "dbc", bare_verifier())
    if got[:2] != ("raise", "AttributeError"):
        fail(f"can impl without fields after a good one: {got[:2]}")

if __name__ == "__main__":
    sys.exit(main())
