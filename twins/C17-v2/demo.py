#!/venv/bin/python
"""C17 demo 2: generated CAN artifacts must not depend on PYTHONHASHSEED.

The same schema is generated with the can_c and the dbc generator in several
child processes that only differ in PYTHONHASHSEED.  Every process must produce
the same set of files with the same contents (a generator that rejects the
schema must reject it in the same way in every process).

Run with
  PYTHONPATH=$R/src:$R/plugins/fcp_dbc:$R/plugins/fcp_can_c:$R/plugins/fcp_cpp:$R/plugins/fcp_nop
"""
import json
import os
import subprocess
import sys
import tempfile

# `position::x` is flattened to `position_x`, the name of another field of the message
SCHEMA = """version: "3"

struct Position {
    x @0: i16,
    y @1: i16,
}

struct Telemetry {
    position @0: Position,
    position_x @1: u8,
    speed @2: u16,
}

impl can for Telemetry {
    id: 42,
    device: "ecu",
}
"""

SEEDS = ["0", "1", "2", "3", "12345"]


def child(path):
    from fcp.parser import get_fcp
    from fcp_can_c.can_c_writer import CanCWriter
    from fcp_dbc import Generator as DbcGenerator

    out = {}
    fcp = get_fcp(path).unwrap()
    writer = CanCWriter(fcp)
    for name, contents in writer.generate_device_headers():
        out[name + "_can.h"] = contents
    for name, contents in writer.generate_device_sources():
        out[name + "_can.c"] = contents

    try:
        for result in DbcGenerator().generate(get_fcp(path).unwrap(), {"output": "out"}):
            out[str(result["path"])] = result["contents"]
    except Exception as e:  # same rejection everywhere is fine
        out["dbc-error"] = type(e).__name__ + ": " + str(e)

    json.dump(out, sys.stdout, sort_keys=True)


def main():
    with tempfile.TemporaryDirectory() as d:
        path = os.path.join(d, "schema.fcp")
        with open(path, "w") as f:
            f.write(SCHEMA)

        outputs = {}
        for seed in SEEDS:
            env = dict(os.environ, PYTHONHASHSEED=seed)
            proc = subprocess.run(
                [sys.executable, os.path.abspath(__file__), "--child", path],
                env=env,
                capture_output=True,
                text=True,
            )
            if proc.returncode != 0:
                print("FAIL: child crashed\n" + proc.stderr)
                return 1
            outputs[seed] = json.loads(proc.stdout)

    reference = outputs[SEEDS[0]]
    for seed in SEEDS[1:]:
        other = outputs[seed]
        if set(other) != set(reference):
            print("FAIL: file set differs between PYTHONHASHSEED", SEEDS[0], "and", seed)
            return 1
        for name in sorted(reference):
            if reference[name] != other[name]:
                print(f"FAIL: {name} differs between PYTHONHASHSEED={SEEDS[0]} and {seed}")
                for la, lb in zip(reference[name].splitlines(), other[name].splitlines()):
                    if la != lb:
                        print(f"  seed {SEEDS[0]}: {la.strip()}")
                        print(f"  seed {seed}: {lb.strip()}")
                        break
                return 1

    print("PASS")
    return 0


if __name__ == "__main__":
    if len(sys.argv) == 3 and sys.argv[1] == "--child":
        child(sys.argv[2])
        sys.exit(0)
    sys.exit(main())
