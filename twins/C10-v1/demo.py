#!/usr/bin/env python
"""C10 demo 1: a general 'impl' check must still gate generation when the plug-in adds 'impl' checks.

The schema declares the CAN impl of struct A twice (same name, same protocol,
different ids).  The general verifier rejects that ("Duplicate impls"); the
checks that the dbc / can_c plug-ins add themselves do not.  The property says
`fcp generate` must report an error and leave the output directory untouched.
"""
import hashlib
import os
import subprocess
import sys
import tempfile
from pathlib import Path

SCHEMA = """version: "3"

struct A {
    field1 @0: u8,
}

impl can for A {
    id: 10,
}

impl can for A {
    id: 11,
}
"""


def snapshot(directory: Path) -> dict:
    return {
        str(p.relative_to(directory)): hashlib.sha256(p.read_bytes()).hexdigest()
        if p.is_file()
        else "<dir>"
        for p in sorted(directory.rglob("*"))
    }


def main() -> int:
    # sanity: the general verifier alone rejects this schema
    from fcp.parser import get_fcp_from_string
    from fcp.verifier import make_general_verifier

    fcp = get_fcp_from_string(SCHEMA).unwrap()
    if not make_general_verifier().verify(fcp).is_err():
        print("FAIL: general verifier accepts a schema with duplicate impls")
        return 1

    ok = True
    for generator in ("dbc", "can_c"):
        with tempfile.TemporaryDirectory() as tmp:
            schema = Path(tmp) / "schema.fcp"
            schema.write_text(SCHEMA)
            out = Path(tmp) / "out"
            out.mkdir()
            (out / "keep.h").write_text("// hand written, must survive\n")
            (out / "notes.txt").write_text("pre-existing\n")
            before = snapshot(out)

            proc = subprocess.run(
                [sys.executable, "-m", "fcp", "generate", generator, str(schema), str(out)],
                capture_output=True,
                text=True,
                env=dict(os.environ),
            )
            after = snapshot(out)
            reported = "Error" in proc.stdout or "Error" in proc.stderr

            if after != before:
                ok = False
                print(f"[{generator}] rejected schema, but output directory changed:")
                print("   before:", sorted(before))
                print("   after: ", sorted(after))
            if not reported:
                ok = False
                print(f"[{generator}] no error reported; stdout={proc.stdout!r}")

    print("PASS" if ok else "FAIL")
    return 0 if ok else 1


if __name__ == "__main__":
    sys.exit(main())
