#!/venv/bin/python
"""Differential test for property C09.

"Verifier verdict equals the well-formedness specification (both ways)".

The verdict of ``Verifier.verify`` is compared with an independent oracle that
is written straight from the specification, for

  * the general rule set alone,
  * general + DBC plug-in checks, general + C (CAN) plug-in checks,
  * the plug-in check sets alone,

over schema trees that are enumerated exhaustively in a small scope and drawn
randomly beyond it, and over permutations of the declarations.  In addition the
full outcome stream (verdict, message, blamed node) is hashed and compared with
a digest recorded on the reference tree, so the test is differential with
respect to messages and blamed nodes too, not only to the verdict.

Run with PYTHONPATH pointing at the worktree (see README of the task):

    PYTHONPATH=$R/src:$R/plugins/fcp_dbc:$R/plugins/fcp_can_c:... python demo.py

FCP_ROOT (default /tmp/twin3-C09) is only used to find the schema files that
the repository ships under tests/.
"""

import hashlib
import itertools
import math
import os
import random
import sys
from pathlib import Path

from fcp.maybe import Nothing
from fcp.parser import get_fcp, get_fcp_from_string
from fcp.specs.device import Device
from fcp.specs.enum import Enum, Enumeration
from fcp.specs.impl import Impl
from fcp.specs.metadata import MetaData
from fcp.specs.method import Method
from fcp.specs.service import Service
from fcp.specs.signal_block import SignalBlock
from fcp.specs.struct import Struct
from fcp.specs.struct_field import StructField
from fcp.specs.type import (
    ArrayType,
    DoubleType,
    DynamicArrayType,
    EnumType,
    FloatType,
    OptionalType,
    SignedType,
    StringType,
    StructType,
    UnsignedType,
)
from fcp.specs.v2 import FcpV2
from fcp.verifier import Verifier, make_general_verifier, register
from fcp.result import Ok
from fcp.error import error
import fcp_dbc.generator
import fcp_can_c.generator

FCP_ROOT = Path(os.environ.get("FCP_ROOT", "/tmp/twin3-C09"))

# Digest of the complete outcome stream, recorded on the unchanged tree.
EXPECTED_DIGEST = "1d5ea484f1cf5b1565019f47d5614a471b9e9cd770db1928cd4150dc4d23adf2"

failures = []


def check(cond, what):
    if not cond:
        failures.append(what)
        if len(failures) <= 20:
            print("FAIL:", what)


# --------------------------------------------------------------------------
# construction helpers
# --------------------------------------------------------------------------

U8, U16, U32, U40, U64 = (UnsignedType(n) for n in ("u8", "u16", "u32", "u40", "u64"))
U1, U7 = UnsignedType("u1"), UnsignedType("u7")
I8, I33 = SignedType("i8"), SignedType("i33")


def struct(name, *fields):
    return Struct(
        name=name,
        fields=[StructField(fname, i, ftype) for i, (fname, ftype) in enumerate(fields)],
    )


def enum(name, *members):
    return Enum(name, [Enumeration(n, v) for n, v in members])


def impl(name, protocol, type_, **fields):
    return Impl(name, protocol, type_, dict(fields), [])


def service(name, id_=0):
    return Service(name, id_, [Method("m", 0, "A", "A", None)])


def device(name, services="absent"):
    return Device(name, {} if services == "absent" else {"services": services})


def tree(structs=(), enums=(), impls=(), services=(), devices=()):
    return FcpV2(
        structs=list(structs),
        enums=list(enums),
        impls=list(impls),
        services=list(services),
        devices=list(devices),
    )


# --------------------------------------------------------------------------
# the oracle: the specification, written independently from the code
# --------------------------------------------------------------------------


def all_distinct(items):
    seen = []
    for item in items:
        if any(item == other for other in seen):
            return False
        seen.append(item)
    return True


def spec_general(fcp):
    if not all_distinct([t.name for t in fcp.structs] + [t.name for t in fcp.enums]):
        return False
    if not all_distinct([(i.name, i.protocol) for i in fcp.impls]):
        return False
    for s in fcp.structs:
        if len(s.fields) == 0:
            return False
        if not all_distinct([f.name for f in s.fields]):
            return False
    for e in fcp.enums:
        if not all_distinct([m.name for m in e.enumeration]):
            return False
        if not all_distinct([m.value for m in e.enumeration]):
            return False
    known = [s.name for s in fcp.services]
    for d in fcp.devices:
        wanted = d.fields.get("services")
        if wanted is None:
            continue
        if any(w not in known for w in wanted):
            return False
    return True


def spec_known_struct(fcp):
    names = [s.name for s in fcp.structs]
    return all(i.type in names for i in fcp.impls)


def spec_dbc(fcp):
    if not spec_known_struct(fcp):
        return False
    ids = [i.fields.get("id") for i in fcp.impls if i.protocol == "can"]
    ids = [i for i in ids if i is not None]
    return all_distinct(ids)


class Unpackable(Exception):
    pass


def width(fcp, type_, depth=0):
    """Bit width of a type inside a CAN frame, arrays unrolled."""
    if depth > 20:
        raise Unpackable("too deep")
    if isinstance(type_, (UnsignedType, SignedType)):
        return int(type_.name[1:])
    if isinstance(type_, FloatType):
        return 32
    if isinstance(type_, DoubleType):
        return 64
    if isinstance(type_, ArrayType):
        return type_.size * width(fcp, type_.underlying_type, depth + 1)
    if isinstance(type_, StructType):
        for s in fcp.structs:
            if s.name == type_.name:
                return sum(width(fcp, f.type, depth + 1) for f in s.fields)
        raise LookupError(type_.name)
    if isinstance(type_, EnumType):
        for e in fcp.enums:
            if e.name == type_.name:
                top = max(m.value for m in e.enumeration)
                return max(1, top.bit_length())
        raise LookupError(type_.name)
    raise Unpackable(str(type_))


def spec_can_c(fcp):
    if not spec_known_struct(fcp):
        return False
    for i in fcp.impls:
        if i.protocol != "can":
            continue
        try:
            if width(fcp, StructType(i.type)) > 64:
                return False
        except Unpackable:
            return False
    return True


# --------------------------------------------------------------------------
# running the verifier
# --------------------------------------------------------------------------


def make_verifier(config):
    general, plugin = config
    verifier = make_general_verifier() if general else Verifier()
    if plugin == "dbc":
        fcp_dbc.generator.Generator().register_checks(verifier)
    elif plugin == "can_c":
        fcp_can_c.generator.Generator().register_checks(verifier)
    return verifier


CONFIGS = [
    (True, None),
    (True, "dbc"),
    (True, "can_c"),
    (False, "dbc"),
    (False, "can_c"),
]

VERIFIERS = {config: make_verifier(config) for config in CONFIGS}


def spec(config, fcp):
    general, plugin = config
    ok = True
    if general:
        ok = ok and spec_general(fcp)
    if plugin == "dbc":
        ok = ok and spec_dbc(fcp)
    if plugin == "can_c":
        ok = ok and spec_can_c(fcp)
    return ok


def outcome(verifier, fcp):
    try:
        result = verifier.verify(fcp)
    except Exception as exc:  # noqa: BLE001 - part of the observable behaviour
        return ("exc", type(exc).__name__)
    if isinstance(result, Nothing):
        return ("nothing",)
    if result.is_ok():
        return ("ok", repr(result.ok()))
    err = result.err()
    blamed = [
        (msg, type(node).__name__, getattr(node, "name", None), where[0].name)
        for msg, node, where in err.msg
    ]
    return ("err", repr(err), repr(blamed))


digest = hashlib.sha256()
counters = {"trees": 0, "verdicts": 0, "ok": 0, "err": 0, "exc": 0}


def record(*parts):
    digest.update(repr(parts).encode())


def run_tree(label, fcp, configs=CONFIGS, oracle=True):
    """Verify a tree under every configuration, compare with the oracle."""
    counters["trees"] += 1
    verdicts = {}
    for config in configs:
        out = outcome(VERIFIERS[config], fcp)
        record(label, config, out)
        counters["verdicts"] += 1
        counters[out[0] if out[0] in counters else "exc"] += 1
        verdicts[config] = out[0]
        # The plug-in check sets on their own resolve names to the first
        # declaration, so they are only specified for trees whose names are
        # unambiguous (which is what the general rules establish).
        if oracle and (config[0] or spec_general(fcp)):
            try:
                want = "ok" if spec(config, fcp) else "err"
            except LookupError:
                want = None  # dangling reference inside a field type: outside the spec
            if want is not None:
                check(
                    out[0] == want,
                    f"{label} {config}: verifier says {out} but specification says {want}",
                )
    return verdicts


def permuted(fcp, rng=None):
    """Yield trees with the declarations in other orders."""
    lists = [fcp.structs, fcp.enums, fcp.impls, fcp.services, fcp.devices]
    if rng is None:
        choices = [list(itertools.permutations(xs)) for xs in lists]
        for combo in itertools.product(*choices):
            yield tree(*combo)
    else:
        yield tree(*[list(reversed(xs)) for xs in lists])
        shuffled = [list(xs) for xs in lists]
        for xs in shuffled:
            rng.shuffle(xs)
        yield tree(*shuffled)


def check_order_independent(label, fcp, base, rng=None, configs=CONFIGS):
    configs = [c for c in configs if c[0] or spec_general(fcp)]
    for k, other in enumerate(permuted(fcp, rng)):
        for config in configs:
            out = outcome(VERIFIERS[config], other)
            record(label, "perm", k, config, out[0])
            check(
                out[0] == base[config],
                f"{label} {config}: permutation {k} changes verdict {base[config]} -> {out[0]}",
            )


# --------------------------------------------------------------------------
# 1. exhaustive small scope
# --------------------------------------------------------------------------

FIELD_SETS = [
    (),
    (("x", U8),),
    (("x", U8), ("y", U40)),
    (("x", U8), ("x", U8)),
    (("x", U40), ("y", U40)),
]
STRUCT_OPTIONS = [(n, fs) for n in ("A", "B") for fs in FIELD_SETS]
ENUM_MEMBER_SETS = [
    (("p", 0),),
    (("p", 0), ("q", 1)),
    (("p", 0), ("p", 1)),
    (("p", 0), ("q", 0)),
]
ENUM_OPTIONS = [None] + [(n, ms) for n in ("A", "E") for ms in ENUM_MEMBER_SETS]
IMPL_OPTIONS = [
    (n, p, t, i)
    for n in ("m", "n")
    for p in ("can", "default")
    for t in ("A", "Z")
    for i in (None, 1)
]


def build(struct_specs, enum_spec, impl_specs, services=(), devices=()):
    return tree(
        [struct(n, *fs) for n, fs in struct_specs],
        [] if enum_spec is None else [enum(enum_spec[0], *enum_spec[1])],
        [
            impl(n, p, t, **({} if i is None else {"id": i}))
            for n, p, t, i in impl_specs
        ],
        services,
        devices,
    )


def lists_up_to_two(options):
    yield ()
    for a in options:
        yield (a,)
    for a in options:
        for b in options:
            yield (a, b)


def exhaustive():
    rng = random.Random(9)
    few_impls = [
        (),
        (("m", "can", "A", 1),),
        (("m", "can", "A", 1), ("n", "can", "B", 1)),
        (("m", "can", "A", 1), ("n", "can", "B", 2)),
    ]
    n = 0
    # all struct lists x all enum choices, a few binding sets
    for structs in lists_up_to_two(STRUCT_OPTIONS):
        for enum_spec in ENUM_OPTIONS:
            impls = few_impls[n % len(few_impls)]
            fcp = build(structs, enum_spec, impls)
            base = run_tree(("ex-types", n), fcp)
            if n % 7 == 0:
                check_order_independent(("ex-types", n), fcp, base)
            n += 1
    # all binding lists, a few type sets
    few_structs = [
        (("A", FIELD_SETS[1]),),
        (("A", FIELD_SETS[2]), ("B", FIELD_SETS[1])),
        (("A", FIELD_SETS[4]),),
    ]
    n = 0
    for impls in lists_up_to_two(IMPL_OPTIONS):
        structs = few_structs[n % len(few_structs)]
        fcp = build(structs, None, impls)
        base = run_tree(("ex-impls", n), fcp)
        if n % 5 == 0:
            check_order_independent(("ex-impls", n), fcp, base)
        n += 1
    # services and devices
    service_sets = [(), ("s1",), ("s1", "s2"), ("s1", "s1")]
    wanted_sets = ["absent", None, [], ["s1"], ["s2"], ["s1", "s2"], ["s3", "s1"]]
    n = 0
    for names in service_sets:
        for w1 in wanted_sets:
            for w2 in ["no second device"] + wanted_sets:
                devices = [device("d1", w1)]
                if w2 != "no second device":
                    devices.append(device("d2", w2))
                fcp = build(
                    (("A", FIELD_SETS[1]),),
                    None,
                    (),
                    [service(s, i) for i, s in enumerate(names)],
                    devices,
                )
                base = run_tree(("ex-dev", n), fcp)
                if n % 3 == 0:
                    check_order_independent(("ex-dev", n), fcp, base, rng)
                n += 1


# --------------------------------------------------------------------------
# 2. frame width boundary and nested shapes for the C plug-in
# --------------------------------------------------------------------------


def widths():
    n = 0
    cases = []
    for bits in (1, 7, 8, 31, 32, 33, 63, 64):
        cases.append([("a", UnsignedType(f"u{bits}"))])
        cases.append([("a", UnsignedType(f"u{bits}")), ("b", UnsignedType(f"u{64 - bits or 1}"))])
        cases.append([("a", UnsignedType(f"u{bits}")), ("b", UnsignedType(f"u{65 - bits}"))])
    cases += [
        [("a", ArrayType(U8, 8))],
        [("a", ArrayType(U8, 9))],
        [("a", ArrayType(U1, 64))],
        [("a", ArrayType(U1, 65))],
        [("a", ArrayType(ArrayType(U8, 2), 4))],
        [("a", ArrayType(ArrayType(U8, 3), 3))],
        [("a", FloatType()), ("b", FloatType())],
        [("a", DoubleType())],
        [("a", DoubleType()), ("b", U1)],
        [("a", I33), ("b", I8), ("c", ArrayType(U7, 3))],
        [("a", I33), ("b", I8), ("c", ArrayType(U7, 3)), ("d", U8)],
        [("a", StringType())],
        [("a", OptionalType(U8))],
        [("a", DynamicArrayType(U8))],
        [("a", ArrayType(StringType(), 2))],
        [("a", EnumType("E"))],
        [("a", EnumType("E")), ("b", U64)],
        [("a", EnumType("E")), ("b", UnsignedType("u62"))],
        [("a", ArrayType(EnumType("E"), 32))],
        [("a", ArrayType(EnumType("E"), 33))],
        [("a", StructType("Inner"))],
        [("a", StructType("Inner")), ("b", U40)],
        [("a", StructType("Inner")), ("b", UnsignedType("u41"))],
        [("a", ArrayType(StructType("Inner"), 2)), ("b", U16)],
        [("a", ArrayType(StructType("Inner"), 2)), ("b", UnsignedType("u17"))],
        [("a", StructType("Deep"))],
        [("a", StructType("Deep")), ("b", U32)],
    ]
    for fields in cases:
        for protocol in ("can", "uart"):
            fcp = tree(
                [
                    struct("Msg", *fields),
                    struct("Inner", ("p", U16), ("q", ArrayType(U1, 8))),
                    struct("Deep", ("i", StructType("Inner")), ("e", EnumType("E"))),
                ],
                [enum("E", ("z", 0), ("o", 1), ("t", 2))],
                [impl("Msg", protocol, "Msg", id=3), impl("Inner", "can", "Inner", id=4)],
            )
            base = run_tree(("width", n), fcp)
            check_order_independent(("width", n), fcp, base)
            n += 1
    # enumerator magnitudes next to a power of two
    for top in (0, 1, 2, 3, 4, 255, 256, 2**62, 2**63 - 1, 2**63, 2**64 - 1):
        for rest in (63, 64):
            fcp = tree(
                [struct("Msg", ("e", EnumType("E")), ("r", UnsignedType(f"u{rest}")))],
                [enum("E", ("only", top))],
                [impl("Msg", "can", "Msg", id=1)],
            )
            # floating point log2 is used by the code for huge enumerators; the
            # oracle is exact, so only pin those through the digest.
            run_tree(("enum-top", top, rest), fcp, oracle=top < 2**40)


# --------------------------------------------------------------------------
# 3. unusual inputs: odd identifiers, dangling references, shared objects
# --------------------------------------------------------------------------


def unusual():
    nan = float("nan")
    id_pairs = [
        (1, 1),
        (1, 1.0),
        (1, True),
        (0, False),
        (1, "1"),
        ("a", "a"),
        ([1, 2], [1, 2]),
        ([1, 2], [2, 1]),
        ([], []),
        ({"k": 1}, {"k": 1}),
        (nan, nan),  # the very same object in two bindings
        (nan, float("nan")),
        (None, None),
        (0, None),
        (2**70, 2**70),
        (-1, -1),
        (1.5, 1.5),
    ]
    for n, (a, b) in enumerate(id_pairs):
        for pa, pb in (("can", "can"), ("can", "lin"), ("lin", "lin")):
            fcp = tree(
                [struct("A", ("x", U8)), struct("B", ("x", U8))],
                [],
                [impl("A", pa, "A", id=a), impl("B", pb, "B", id=b), impl("C", "can", "A", id=99)],
            )
            base = run_tree(("ids", n, pa, pb), fcp, oracle=not (a is nan and b is nan))
            check_order_independent(("ids", n, pa, pb), fcp, base)
    # three bindings with the same id, the duplicate far from the first
    many = [impl(f"i{k}", "can", "A", id=k) for k in range(12)]
    many.append(impl("dup", "can", "A", id=0))
    fcp = tree([struct("A", ("x", U8))], [], many)
    base = run_tree(("ids-many",), fcp)
    check_order_independent(("ids-many",), fcp, base, random.Random(1))

    # the same declaration object listed twice
    shared = struct("A", ("x", U8))
    run_tree(("shared-struct",), tree([shared, shared]))
    shared_enum = enum("E", ("a", 0))
    run_tree(("shared-enum",), tree([struct("A", ("x", U8))], [shared_enum, shared_enum]))
    shared_impl = impl("A", "can", "A", id=5)
    run_tree(("shared-impl",), tree([struct("A", ("x", U8))], [], [shared_impl, shared_impl]))
    field = StructField("x", 0, U8)
    run_tree(("shared-field",), tree([Struct(name="A", fields=[field, field])]))

    # names that differ only in case / whitespace / emptiness
    run_tree(("case",), tree([struct("a", ("x", U8)), struct("A", ("x", U8))]))
    run_tree(("empty-name",), tree([struct("", ("", U8)), struct(" ", ("", U8), (" ", U8))]))
    run_tree(("empty-twice",), tree([struct("", ("x", U8))], [enum("", ("p", 0))]))
    run_tree(("enum-bool",), tree([struct("A", ("x", U8))], [Enum("E", [Enumeration("a", 1), Enumeration("b", True)])]))
    run_tree(("enum-neg",), tree([struct("A", ("x", EnumType("E")))], [enum("E", ("a", -1), ("b", -2))], [impl("A", "can", "A", id=1)]), oracle=False)

    # dangling references inside field types (outside the specification; pinned by digest)
    run_tree(("dangling-enum",), tree([struct("A", ("x", EnumType("Nope")))], [], [impl("A", "can", "A", id=1)]), oracle=False)
    run_tree(("dangling-struct",), tree([struct("A", ("x", StructType("Nope")))], [], [impl("A", "can", "A", id=1)]), oracle=False)
    run_tree(("dangling-not-bound",), tree([struct("A", ("x", StructType("Nope")))], [], [impl("A", "lin", "A", id=1)]))
    # struct-typed reference that resolves to an enum and the reverse
    run_tree(("struct-as-enum",), tree([struct("A", ("x", StructType("E")), ("y", U8))], [enum("E", ("a", 0), ("b", 5))], [impl("A", "can", "A", id=1)]), oracle=False)
    run_tree(("bound-to-enum",), tree([struct("A", ("x", U8))], [enum("E", ("a", 0))], [impl("E", "can", "E", id=1)]))
    # services given as something that is not a list
    run_tree(("services-str",), tree([struct("A", ("x", U8))], [], [], [service("a"), service("b")], [device("d", "ab")]))
    run_tree(("services-str-bad",), tree([struct("A", ("x", U8))], [], [], [service("a")], [device("d", "ab")]))
    run_tree(("services-tuple",), tree([struct("A", ("x", U8))], [], [], [service("a")], [device("d", ("a",))]))
    run_tree(("no-structs",), tree())
    run_tree(("only-impl",), tree([], [], [impl("A", "can", "A")]))
    run_tree(("only-device",), tree([], [], [], [], [device("d", ["s"])]))


# --------------------------------------------------------------------------
# 4. random trees beyond the small scope
# --------------------------------------------------------------------------


def random_tree(rng):
    type_names = ["A", "B", "C", "D", "E", "F"]
    scalars = [U1, U7, U8, U16, U32, U40, I8, I33, FloatType(), DoubleType()]
    n_structs = rng.randint(0, 4)
    n_enums = rng.randint(0, 2)
    # mostly unique names, sometimes drawn with replacement
    if rng.random() < 0.75:
        names = rng.sample(type_names, n_structs + n_enums)
    else:
        names = [rng.choice(type_names[: rng.randint(1, 6)]) for _ in range(n_structs + n_enums)]
    struct_names, enum_names = names[:n_structs], names[n_structs:]
    enums = []
    for name in enum_names:
        k = rng.randint(1, 4)
        member_names = (
            rng.sample("pqrstu", k) if rng.random() < 0.8 else [rng.choice("pq") for _ in range(k)]
        )
        values = (
            rng.sample(range(0, 9), k) if rng.random() < 0.8 else [rng.choice((0, 1)) for _ in range(k)]
        )
        enums.append(enum(name, *zip(member_names, values)))
    structs = []
    for pos, name in enumerate(struct_names):
        k = rng.randint(0, 4) if rng.random() < 0.15 else rng.randint(1, 4)
        field_names = (
            rng.sample("vwxyz", k) if rng.random() < 0.85 else [rng.choice("xy") for _ in range(k)]
        )
        fields = []
        for fname in field_names:
            roll = rng.random()
            if roll < 0.6:
                ftype = rng.choice(scalars)
            elif roll < 0.75:
                ftype = ArrayType(rng.choice(scalars[:4]), rng.randint(1, 9))
            elif roll < 0.85 and enum_names:
                ftype = EnumType(rng.choice(enum_names))
            elif roll < 0.95 and pos > 0:
                # only refer backwards: no cycles
                ftype = StructType(rng.choice(struct_names[:pos]))
            elif roll < 0.97:
                ftype = StringType()
            else:
                ftype = rng.choice(scalars)
            fields.append((fname, ftype))
        structs.append(struct(name, *fields))
    impls = []
    for _ in range(rng.randint(0, 5)):
        target = rng.choice(struct_names + ["Zed"]) if struct_names and rng.random() < 0.93 else "Zed"
        protocol = rng.choice(("can", "can", "can", "lin", "default"))
        name = target if rng.random() < 0.7 else rng.choice(("m", "n", "o"))
        fields = {}
        if rng.random() < 0.85:
            fields["id"] = rng.randint(0, 3) if rng.random() < 0.3 else rng.randint(0, 2000)
        impls.append(impl(name, protocol, target, **fields))
    service_names = [rng.choice(("s1", "s2", "s3")) for _ in range(rng.randint(0, 3))]
    services = [service(s, i) for i, s in enumerate(service_names)]
    devices = []
    for k in range(rng.randint(0, 3)):
        roll = rng.random()
        if roll < 0.3:
            wanted = "absent"
        elif roll < 0.9 and service_names:
            wanted = [rng.choice(service_names) for _ in range(rng.randint(0, 3))]
        else:
            wanted = [rng.choice(("s1", "s2", "s3", "s4"))]
        devices.append(device(f"d{k}", wanted))
    return tree(structs, enums, impls, services, devices)


def randomised(count):
    rng = random.Random(20240909)
    for n in range(count):
        fcp = random_tree(rng)
        # a struct whose duplicate name makes a by-name reference ambiguous is
        # outside what the oracle can size; everything else is compared.
        base = run_tree(("rnd", n), fcp)
        if n % 4 == 0:
            check_order_independent(("rnd", n), fcp, base, rng)
        if n % 50 == 0:
            lists = [fcp.structs, fcp.enums, fcp.impls, fcp.services, fcp.devices]
            if math.prod(math.factorial(len(xs)) for xs in lists) <= 48:
                check_order_independent(("rnd-all", n), fcp, base)


# --------------------------------------------------------------------------
# 5. repeated use of one verifier, trees edited between runs, custom checks
# --------------------------------------------------------------------------


def repeated():
    for config in CONFIGS:
        verifier = make_verifier(config)
        a, b = struct("A", ("x", U8)), struct("B", ("x", U8), ("y", U8))
        e = enum("E", ("p", 0), ("q", 1))
        ia, ib = impl("A", "can", "A", id=1), impl("B", "can", "B", id=2)
        fcp = tree([a, b], [e], [ia, ib], [service("s")], [device("d", ["s"])])
        general = config[0]

        def expect(label, fcp=fcp, verifier=verifier, config=config):
            out = outcome(verifier, fcp)
            record("repeat", config, label, out)
            want = "ok" if spec(config, fcp) else "err"
            check(out[0] == want, f"repeat {config} {label}: {out} but specification says {want}")
            again = outcome(verifier, fcp)
            check(again == out, f"repeat {config} {label}: second run differs {out} {again}")
            fresh = outcome(make_verifier(config), fcp)
            check(fresh == out, f"repeat {config} {label}: fresh verifier differs {out} {fresh}")

        expect("initial")
        b.name = "A"
        expect("renamed struct to clash")
        b.name = "B"
        expect("renamed back")
        b.fields[1].name = "x"
        expect("field clash")
        b.fields[1].name = "y"
        expect("field clash undone")
        e.enumeration[1].value = 0
        expect("enum value clash")
        e.enumeration[1].value = 1
        e.enumeration[1].name = "p"
        expect("enum name clash")
        e.enumeration[1].name = "q"
        expect("enum restored")
        ib.name, ib.protocol = "A", "can"
        expect("impl clash")
        ib.name = "B"
        ib.fields["id"] = 1
        expect("frame id clash")
        ib.fields["id"] = 2
        ib.type = "Gone"
        expect("dangling binding")
        ib.type = "B"
        b.fields.append(StructField("z", 2, U64))
        expect("message grew past a frame")
        b.fields.pop()
        expect("message shrank again")
        fcp.structs.append(struct("E", ("x", U8)))
        expect("struct named like the enum")
        fcp.structs.pop()
        fcp.devices[0].fields["services"] = ["s", "t"]
        expect("unknown service")
        fcp.services.append(service("t", 1))
        expect("service added")
        fcp.structs.append(Struct(name="Empty", fields=[]))
        expect("empty struct")
        fcp.structs.pop()
        expect("all restored")
        # another tree through the same verifier, then the first again
        other = tree([struct("A", ("x", U8)), struct("A", ("y", U8))])
        expect("other tree", fcp=other)
        expect("first tree again")

    # user registered checks keep working, in every category, in order
    calls = []
    verifier = make_general_verifier()
    for category in ("struct", "field", "enum", "impl", "signal_block", "type", "device"):

        def probe(self, fcp, node, category=category):
            calls.append((category, getattr(node, "name", None) or tuple(getattr(n, "name", n) for n in node)))
            return Ok(())

        register(verifier, category)(probe)
    meta = MetaData(1, 1, 1, 1, 0, 0, "main.fcp")
    bound = Impl("A", "can", "A", {"id": 1}, [SignalBlock("x", {"endianess": "big"}, meta)])
    fcp = tree(
        [struct("A", ("x", U8), ("y", U8)), struct("B", ("z", U8))],
        [enum("E", ("p", 0))],
        [bound],
        [service("s")],
        [device("d", ["s"])],
    )
    out = outcome(verifier, fcp)
    record("probe", out, calls)
    check(out[0] == "ok", f"probe: {out}")
    check(
        calls
        == [
            ("struct", "A"),
            ("struct", "B"),
            ("field", ("A", "x")),
            ("field", ("A", "y")),
            ("field", ("B", "z")),
            ("enum", "E"),
            ("impl", "A"),
            ("signal_block", "x"),
            ("type", "A"),
            ("type", "B"),
            ("type", "E"),
            ("device", "d"),
        ],
        f"probe order: {calls}",
    )
    # a failing custom check stops the run at that point
    stopper = make_general_verifier()
    seen = []

    def stop_at_b(self, fcp, node):
        seen.append(node.name)
        return error("stop", node=node) if node.name == "B" else Ok(())

    register(stopper, "struct")(stop_at_b)
    out = outcome(stopper, tree([struct("A", ("x", U8)), struct("B", ("x", U8)), struct("C", ("x", U8))]))
    record("stopper", out, seen)
    check(out[0] == "err" and seen == ["A", "B"], f"stopper: {out} {seen}")
    # an uncategorised check, and an invalid category
    odd = make_general_verifier()
    register(odd)(lambda self, fcp, node: Ok(()))
    record("uncategorised", outcome(odd, tree([struct("A", ("x", U8))])))
    try:
        register(odd, "bogus")(lambda self, fcp, node: Ok(()))
        record("bogus", "accepted")
    except ValueError as exc:
        record("bogus", str(exc))
    for category in ("struct", "bogus", "service"):
        try:
            record("run_checks", category, repr(odd.run_checks(category, tree([struct("A", ("x", U8))]))))
        except Exception as exc:  # noqa: BLE001
            record("run_checks", category, type(exc).__name__)


# --------------------------------------------------------------------------
# 6. the AST lookups the checks are built on
# --------------------------------------------------------------------------


def lookups():
    a, b, a2 = struct("A", ("x", U8)), struct("B", ("y", U8), ("z", U16)), struct("A", ("w", U8))
    e, e2, ea = enum("E", ("p", 0)), enum("E", ("q", 1)), enum("A", ("r", 2))
    i1, i2, i3, i4 = (
        impl("A", "can", "A", id=1),
        impl("A", "default", "A"),
        impl("B2", "can", "B", id=2),
        impl("B", "default", "B"),
    )
    fcp = tree([a, b, a2], [e, e2, ea], [i1, i2, i3, i4], [service("s")], [device("d")])
    check(fcp.get_struct("A").unwrap() is a, "get_struct returns first match")
    check(fcp.get_struct("B").unwrap() is b, "get_struct B")
    check(fcp.get_struct("E").is_nothing(), "get_struct does not see enums")
    check(fcp.get_struct("").is_nothing(), "get_struct empty")
    check(fcp.get_enum("E").unwrap() is e, "get_enum returns first match")
    check(fcp.get_enum("A").unwrap() is ea, "get_enum A")
    check(fcp.get_enum("B").is_nothing(), "get_enum does not see structs")
    check(fcp.get_type(StructType("A")).unwrap() is a, "get_type prefers structs")
    check(fcp.get_type(EnumType("A")).unwrap() is a, "get_type ignores the kind of reference")
    check(fcp.get_type(EnumType("E")).unwrap() is e, "get_type enum")
    check(fcp.get_type(StructType("E")).unwrap() is e, "get_type struct ref to enum")
    check(fcp.get_type(StructType("Q")).is_nothing(), "get_type unknown")
    check(fcp.get_type(U8).is_nothing(), "get_type on a scalar named like nothing")
    check(fcp.get_type(UnsignedType("A")).is_nothing(), "get_type on a scalar named like a struct")
    check(fcp.get_type(ArrayType(StructType("A"), 2)).is_nothing(), "get_type on an array")
    check(fcp.get_type(StringType()).is_nothing(), "get_type on a string")
    check(FcpV2().get_type(StructType("A")).is_nothing(), "get_type on empty tree")
    check(FcpV2().get_type(U8).is_nothing(), "get_type scalar on empty tree")
    types = fcp.get_types()
    check(types == [a, b, a2, e, e2, ea] and types is not fcp.structs, "get_types order")
    types.append(None)
    check(len(fcp.structs) == 3 and len(fcp.get_types()) == 6, "get_types returns a fresh list")
    for category, want in (
        ("struct", [a, b, a2]),
        ("enum", [e, e2, ea]),
        ("impl", [i1, i2, i3, i4]),
        ("type", [a, b, a2, e, e2, ea]),
        ("service", fcp.services),
        ("device", fcp.devices),
        ("signal_block", []),
    ):
        got = fcp.get(category)
        check(got.is_some() and isinstance(got.unwrap(), list), f"get({category}) is a list")
        check(len(got.unwrap()) == len(want) and all(x is y for x, y in zip(got.unwrap(), want)), f"get({category}) contents")
    pairs = fcp.get("field").unwrap()
    check(isinstance(pairs, list) and all(isinstance(p, tuple) and len(p) == 2 for p in pairs), "get(field) shape")
    check(
        [(s.name, f.name) for s, f in pairs] == [("A", "x"), ("B", "y"), ("B", "z"), ("A", "w")]
        and pairs[0][0] is a and pairs[3][0] is a2 and pairs[1][1] is b.fields[0],
        "get(field) order and identity",
    )
    check(fcp.get("field").unwrap() is not pairs, "get(field) fresh list")
    check(FcpV2().get("field").unwrap() == [] and FcpV2().get("signal_block").unwrap() == [], "get on empty tree")
    for bad in ("uncategorized", "", "Struct", "fields", None):
        try:
            check(fcp.get(bad).is_nothing(), f"get({bad!r}) is Nothing")
        except Exception as exc:  # noqa: BLE001
            record("get-bad", repr(bad), type(exc).__name__)
    can = fcp.get_matching_impls("can")
    check(iter(can) is can and list(can) == [i1, i3], "get_matching_impls is a one-shot iterator in order")
    check(list(fcp.get_matching_impls("nope")) == [], "get_matching_impls none")
    check(fcp.get_matching_impl(a, "can") == [i1], "get_matching_impl by struct name")
    check(fcp.get_matching_impl(a2, "default") == [i2], "get_matching_impl other struct of same name")
    check(fcp.get_matching_impl(b, "lin") == [], "get_matching_impl none")
    got = fcp.get_matching_impls_or_default("can")
    check(len(got) == 3 and got[0] is i1 and got[1] is i3 and got[2] is i1, "get_matching_impls_or_default")
    got = fcp.get_matching_impls_or_default("lin")
    check(len(got) == 3 and got[0] is i2 and got[1] is i4 and got[2] is i2, "get_matching_impls_or_default falls back")
    meta = MetaData(1, 1, 1, 1, 0, 0, "main.fcp")
    sb1, sb2 = SignalBlock("x", {}, meta), SignalBlock("y", {}, meta)
    with_blocks = tree([a], [], [Impl("A", "can", "A", {}, [sb1, sb2]), Impl("A", "lin", "A", {}, []), Impl("A", "x", "A", {}, [sb1])])
    blocks = with_blocks.get("signal_block").unwrap()
    check(len(blocks) == 3 and blocks[0] is sb1 and blocks[1] is sb2 and blocks[2] is sb1, "get(signal_block)")
    record("lookups", repr(fcp.get("nothing")), sorted(fcp.get_protocols()))


# --------------------------------------------------------------------------
# 7. schemas parsed from text, including the ones the repository ships
# --------------------------------------------------------------------------

SOURCES = {
    "good": """version: "3"
enum Gear { Park = 0, Drive = 1, Reverse = 2, }
struct Inner { a @0: u8, b @1: [u4, 2], }
struct Msg { g @0: Gear, i @1: Inner, f @2: f32, }
impl can for Msg { id: 16, }
impl can for Inner { id: 17, }
service Svc @0 { method Do(Msg) @0 returns Inner, }
device ecu { services: [Svc], }
""",
    "too-wide": """version: "3"
struct Msg { a @0: u64, b @1: u1, }
impl can for Msg { id: 16, }
""",
    "just-fits": """version: "3"
struct Msg { a @0: u63, b @1: u1, }
impl can for Msg { id: 16, }
""",
    "dup-id-named": """version: "3"
struct Msg { a @0: u8, }
impl can for Msg as one { id: 16, }
impl can for Msg as two { id: 16, }
""",
    "same-id-other-bus": """version: "3"
struct Msg { a @0: u8, }
impl can for Msg { id: 16, }
impl lin for Msg { id: 16, }
""",
    "missing-service": """version: "3"
struct Msg { a @0: u8, }
service Svc @0 { method Do(Msg) @0 returns Msg, }
device ecu { services: [Svc, Other], }
""",
    "string-in-frame": """version: "3"
struct Msg { a @0: str, }
impl can for Msg { id: 16, }
""",
    "unknown-target": """version: "3"
struct Msg { a @0: u8, }
impl can for Ghost { id: 16, }
""",
}


def parsed():
    for name, source in SOURCES.items():
        result = get_fcp_from_string(source)
        if not result.is_ok():
            record("src", name, "unparsable", repr(result.err())[:80])
            continue
        run_tree(("src", name), result.unwrap())
    for directory in (
        FCP_ROOT / "tests" / "schemas" / "verifier",
        FCP_ROOT / "plugins" / "fcp_dbc" / "tests" / "schemas" / "verifier",
    ):
        for path in sorted(directory.glob("*.fcp")):
            result = get_fcp(str(path))
            check(result.is_ok(), f"cannot parse {path}")
            fcp = result.unwrap()
            verdicts = run_tree(("file", path.parent.parent.parent.parent.name, path.name), fcp)
            if path.name.startswith("000"):
                check(all(v == "ok" for v in verdicts.values()), f"{path.name}: {verdicts}")
            else:
                check(verdicts[(True, "dbc")] == "err", f"{path.name}: {verdicts}")


def main():
    exhaustive()
    widths()
    unusual()
    randomised(int(os.environ.get("C09_RANDOM", "1500")))
    repeated()
    lookups()
    parsed()
    got = digest.hexdigest()
    print(
        "trees %(trees)d, verdicts %(verdicts)d (ok %(ok)d, err %(err)d, other %(exc)d)"
        % counters
    )
    print("outcome digest", got)
    if os.environ.get("C09_PIN_DIGEST") and not EXPECTED_DIGEST.startswith("@@"):
        check(got == EXPECTED_DIGEST, f"outcome digest {got} differs from reference {EXPECTED_DIGEST}")
    if failures:
        print(f"FAIL ({len(failures)} problems)")
        return 1
    print("PASS")
    return 0


if __name__ == "__main__":
    sys.exit(main())
