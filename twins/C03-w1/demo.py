"""Shared differential harness: generated C++ static codec vs. the Python codec.

For every schema the C++ headers are generated, every generated header is
compiled as C++17, and a small driver encodes/decodes JSON cases through the
generated StaticSchema.  The bytes must equal fcp.serde.encode and the decoded
value must equal the input value.
"""

import json
import os
import random
import subprocess
import sys
import tempfile
from pathlib import Path

from fcp.parser import get_fcp_from_string
from fcp.serde import encode as py_encode
from fcp.specs import type as T
from fcp_cpp import Generator

JSON_INCLUDE = os.environ.get("FCP_JSON_INCLUDE", "/root/miniconda/include")
CXX = os.environ.get("CXX", "g++")

DRIVER = r"""
#include <iostream>
#include <iterator>
#include <string>
#include <cmath>
#include <limits>
#include <stdexcept>
#include "@HEADER@"

int main() {
    std::string text{std::istreambuf_iterator<char>(std::cin), std::istreambuf_iterator<char>()};
    auto cases = nlohmann::json::parse(text);
    @NS@::StaticSchema schema{};
    auto out = nlohmann::json::array();
    for (const auto& c : cases) {
        auto name = c["name"].get<std::string>();
        auto bytes = schema.EncodeJson(name, c["value"]);
        if (!bytes.has_value()) {
            out.push_back({{"error", "unknown message " + name}});
            continue;
        }
        auto again = schema.EncodeJson(name, c["value"]);
        auto decoded = schema.DecodeJson(c["struct"].get<std::string>(), bytes.value(), c["bus"].get<std::string>());
        nlohmann::json row;
        row["bytes"] = bytes.value();
        row["repeat_same"] = (again.value() == bytes.value());
        row["decoded"] = decoded.has_value() ? decoded.value() : nlohmann::json(nullptr);
        out.push_back(row);
    }
    // default constructed values through the typed API, encoded twice into fresh
    // buffers and once behind three bits that are already in a buffer
    nlohmann::json defaults;
@DEFAULTS@
    nlohmann::json result;
    result["rows"] = out;
    result["defaults"] = defaults;
    std::cout << result.dump() << std::endl;
    return 0;
}
"""

DEFAULT_CASE = r"""
    {
        @NS@::@STRUCT@ value{};
        auto first = value.Encode().GetData();
        auto second = value.Encode().GetData();
        fcp::Buffer shared{0};
        shared.PushWord<std::uint8_t, 3>(5);
        value.Encode(shared);
        auto decoded = @NS@::@STRUCT@::Decode(first.begin(), first.end());
        defaults["@STRUCT@"] = {{"bytes", first}, {"same", first == second},
                                {"shifted", shared.GetData()}, {"roundtrip", decoded == value}};
    }
"""


def fail(msg):
    print("FAIL:", msg)
    sys.exit(1)


def parse(schema_text):
    return get_fcp_from_string(schema_text).unwrap()


def generate(fcp, outdir):
    files = {}
    for result in Generator().generate(fcp, {"output": str(outdir)}):
        if result["type"] != "file":
            fail("unexpected generator result " + str(result["type"]))
        path = Path(result["path"])
        files[path.name] = str(result["contents"])
        path.write_text(str(result["contents"]))
    return files


def compile_cpp(source, binary, workdir):
    cmd = [CXX, "--std=c++17", "-O0", "-Wall", "-Wextra", "-Wno-unused-parameter",
           "-isystem", JSON_INCLUDE, "-I", str(workdir), str(source), "-o", str(binary)]
    r = subprocess.run(cmd, capture_output=True, text=True)
    if r.returncode != 0:
        fail("C++17 compilation failed for %s:\n%s" % (source, r.stderr[-3000:]))


# ---------------------------------------------------------------- values

def int_samples(bits, signed, rng):
    if signed:
        lo, hi = -(1 << (bits - 1)), (1 << (bits - 1)) - 1
    else:
        lo, hi = 0, (1 << bits) - 1
    alt = int("10" * 32, 2) & ((1 << bits) - 1)
    if signed and alt > hi:
        alt -= 1 << bits
    pool = {lo, hi, 0, alt, min(hi, 1), max(lo, hi - 1), min(hi, lo + 1)}
    if signed:
        pool.add(-1)
    return sorted(pool) + [rng.randint(lo, hi) for _ in range(2)]


F32 = [0.0, 1.0, -1.5, 0.15625, 34359738368.0, -2.0 ** -20, 16777216.0]
F64 = [0.0, 1.0, -1.5, 0.1, 1e300, -2.0 ** -40, 123456789.123]
STRS = ["", "a", "hello world", "~!@ 09AZaz", "x" * 37]


def sample(fcp, t, rng, k):
    """k-th sample value of fcp type t (k selects boundary values first)."""
    if isinstance(t, T.StructType):
        struct = fcp.get_struct(t.name).unwrap()
        return {f.name: sample(fcp, f.type, rng, k + i) for i, f in enumerate(struct.fields)}
    if isinstance(t, T.EnumType):
        enum = fcp.get_enum(t.name).unwrap()
        values = [e.value for e in enum.enumeration]
        # every value that fits the packed width is in range on the wire
        values += [0, (1 << enum.get_packed_size()) - 1]
        return values[k % len(values)]
    if isinstance(t, T.UnsignedType):
        s = int_samples(t.get_length(), False, rng)
        return s[k % len(s)]
    if isinstance(t, T.SignedType):
        s = int_samples(t.get_length(), True, rng)
        return s[k % len(s)]
    if isinstance(t, T.FloatType):
        return F32[k % len(F32)]
    if isinstance(t, T.DoubleType):
        return F64[k % len(F64)]
    if isinstance(t, T.StringType):
        return STRS[k % len(STRS)]
    if isinstance(t, T.ArrayType):
        return [sample(fcp, t.underlying_type, rng, k + i) for i in range(t.size)]
    if isinstance(t, T.DynamicArrayType):
        n = [0, 1, 3, 2, 9][k % 5]
        return [sample(fcp, t.underlying_type, rng, k + 2 * i) for i in range(n)]
    if isinstance(t, T.OptionalType):
        return None if k % 3 == 0 else sample(fcp, t.underlying_type, rng, k)
    fail("no sampler for " + repr(t))


def zero_value(fcp, t):
    """What a default constructed C++ wrapper holds."""
    if isinstance(t, T.StructType):
        struct = fcp.get_struct(t.name).unwrap()
        return {f.name: zero_value(fcp, f.type) for f in struct.fields}
    if isinstance(t, (T.EnumType, T.UnsignedType, T.SignedType)):
        return 0
    if isinstance(t, (T.FloatType, T.DoubleType)):
        return 0.0
    if isinstance(t, T.StringType):
        return ""
    if isinstance(t, T.ArrayType):
        return [zero_value(fcp, t.underlying_type) for _ in range(t.size)]
    if isinstance(t, T.DynamicArrayType):
        return []
    if isinstance(t, T.OptionalType):
        return None
    fail("no zero value for " + repr(t))


def bit_size(fcp, t, v):
    """Number of bits of the canonical encoding of value v of type t."""
    if isinstance(t, T.StructType):
        struct = fcp.get_struct(t.name).unwrap()
        return sum(bit_size(fcp, f.type, v[f.name]) for f in struct.fields)
    if isinstance(t, T.EnumType):
        top = max(e.value for e in fcp.get_enum(t.name).unwrap().enumeration)
        return max(1, top.bit_length())
    if isinstance(t, (T.UnsignedType, T.SignedType)):
        return int(t.name[1:])
    if isinstance(t, T.FloatType):
        return 32
    if isinstance(t, T.DoubleType):
        return 64
    if isinstance(t, T.StringType):
        return 32 + 8 * len(v)
    if isinstance(t, T.ArrayType):
        if len(v) != t.size:
            fail("bad sample for an array")
        return sum(bit_size(fcp, t.underlying_type, x) for x in v)
    if isinstance(t, T.DynamicArrayType):
        return 32 + sum(bit_size(fcp, t.underlying_type, x) for x in v)
    if isinstance(t, T.OptionalType):
        return 8 + (0 if v is None else bit_size(fcp, t.underlying_type, v))
    fail("no size for " + repr(t))


def after_prefix(prefix_value, prefix_bits, data, data_bits):
    """Buffer contents when data_bits bits of `data` follow prefix_bits bits."""
    total = prefix_value | (int.from_bytes(bytes(data), "little") << prefix_bits)
    return list(total.to_bytes((prefix_bits + data_bits + 7) // 8, "little"))


def values_equal(a, b):
    if isinstance(a, float) or isinstance(b, float):
        return isinstance(a, (int, float)) and isinstance(b, (int, float)) and float(a) == float(b)
    if isinstance(a, dict) and isinstance(b, dict):
        return a.keys() == b.keys() and all(values_equal(a[k], b[k]) for k in a)
    if isinstance(a, list) and isinstance(b, list):
        return len(a) == len(b) and all(values_equal(x, y) for x, y in zip(a, b))
    if a == [] and b is None or a is None and b == []:
        return False
    return type(a) is type(b) and a == b


# ---------------------------------------------------------------- driver

def check_schema(label, schema_text, rounds=12, seed=1234, header="fcp.h",
                 namespace="fcp", protocol="default", extra_cases=None):
    """Generate, compile (all headers, C++17) and run the static codec for one schema.

    Returns (number of cases, generated files).
    """
    from fcp_cpp.rpc import generate_rpc

    rng = random.Random(seed)
    fcp = parse(schema_text)
    with tempfile.TemporaryDirectory(prefix="c03demo_") as d:
        work = Path(d)
        files = generate(fcp, work)
        if header not in files:
            fail("%s: %s was not generated (%s)" % (label, header, sorted(files)))

        # Every generated header goes into the translation unit, so all of them
        # must compile as C++17 (fcp.h first: the service headers rely on it).
        # the rpc pass adds structs; sample from the schema the header was rendered from
        rendered = generate_rpc(fcp)
        # the canonical format is little endian
        little_endian_impls = [impl for impl in rendered.get_matching_impls_or_default(protocol)
                               if impl.fields.get("endianess", "little") != "big"]
        struct_names = [impl.type for impl in little_endian_impls]
        defaults = "".join(DEFAULT_CASE.replace("@STRUCT@", n) for n in struct_names)

        includes = ['#include "fcp.h"'] + ['#include "%s"' % n for n in sorted(files)]
        drv = work / "driver.cpp"
        drv.write_text("\n".join(includes) + "\n"
                       + DRIVER.replace("@DEFAULTS@", defaults).replace("@HEADER@", header)
                       .replace("@NS@", namespace))
        compile_cpp(drv, work / "driver", work)
        cases = []
        expected = []
        for impl in little_endian_impls:
            struct = rendered.get_struct(impl.type).unwrap()
            values = [sample(rendered, T.StructType(struct.name), rng, k) for k in range(rounds)]
            values += (extra_cases or {}).get(struct.name, [])
            for value in values:
                cases.append({"name": impl.name, "struct": struct.name,
                              "bus": impl.fields.get("bus", "default"), "value": value})
                expected.append(list(py_encode(rendered, struct.name, value)))

        r = subprocess.run([str(work / "driver")], input=json.dumps(cases),
                           capture_output=True, text=True)
        if r.returncode != 0:
            fail("%s: driver crashed: %s" % (label, r.stderr[-2000:]))
        result = json.loads(r.stdout)
        rows = result["rows"]
        for name in struct_names:
            zero = zero_value(rendered, T.StructType(name))
            want = list(py_encode(rendered, name, zero))
            bits = bit_size(rendered, T.StructType(name), zero)
            got = result["defaults"][name]
            if got["bytes"] != want or len(want) != (bits + 7) // 8:
                fail("%s: default %s encodes to %r, canonical %r" % (label, name, got["bytes"], want))
            if got["shifted"] != after_prefix(5, 3, want, bits):
                fail("%s: default %s after 3 bits: %r, expected %r"
                     % (label, name, got["shifted"], after_prefix(5, 3, want, bits)))
            if not got["same"] or not got["roundtrip"]:
                fail("%s: default %s: repeated encode or round trip differ" % (label, name))
        if len(rows) != len(cases):
            fail("%s: %d results for %d cases" % (label, len(rows), len(cases)))
        for case, want, row in zip(cases, expected, rows):
            if "error" in row:
                fail("%s: %s" % (label, row["error"]))
            bits = bit_size(rendered, T.StructType(case["struct"]), case["value"])
            if len(row["bytes"]) != (bits + 7) // 8:
                fail("%s: %s value %r: %d bytes for %d bits"
                     % (label, case["struct"], case["value"], len(row["bytes"]), bits))
            if row["bytes"] != want:
                fail("%s: %s value %r: C++ bytes %r != canonical %r"
                     % (label, case["struct"], case["value"], row["bytes"], want))
            if not row["repeat_same"]:
                fail("%s: %s: encoding twice gave different bytes" % (label, case["struct"]))
            dec = row["decoded"]
            if dec is None:
                fail("%s: %s: DecodeJson did not recognise the message" % (label, case["struct"]))
            dec.pop("__is_method_input", None)
            if not values_equal(dec, case["value"]):
                fail("%s: %s: decoded %r != value %r" % (label, case["struct"], dec, case["value"]))
        return len(cases), files


def run_all(jobs, workers=4):
    """Run check_schema jobs (dicts of keyword arguments) in parallel."""
    from concurrent.futures import ThreadPoolExecutor

    with ThreadPoolExecutor(max_workers=workers) as pool:
        results = list(pool.map(lambda kw: check_schema(**kw), jobs))
    return results


# ---------------------------------------------------------------- schemas


def widths_schema():
    """Every integer width 1..64, signed and unsigned, at unaligned offsets."""
    lines = ['version: "3"', ""]
    for base in range(0, 64, 8):
        for kind in ("u", "i"):
            lines.append("struct W%s%d {" % (kind.upper(), base))
            fid = 0
            lines.append("    pad @%d: u%d," % (fid, (base % 7) + 1))
            for w in range(base + 1, base + 9):
                fid += 1
                lines.append("    f%d @%d: %s%d," % (w, fid, kind, w))
            lines.append("}")
            lines.append("")
    return "\n".join(lines)


ENUMS = """version: "3"

enum E0 { A = 0, }
enum E1 { A = 0, B = 1, }
enum E2 { A = 0, B = 1, C = 2, }
enum E3 { A = 1, B = 3, }
enum E4 { A = 0, B = 4, }
enum E7 { A = 7, }
enum E8 { A = 8, }
enum E255 { A = 0, B = 255, }
enum E256 { A = 256, B = 2, }
enum E65535 { A = 65535, }
enum E65536 { A = 65536, }
enum EBig { A = 4294967296, }

struct Enums {
    a @0: E0,
    b @1: E1,
    c @2: E2,
    d @3: E3,
    e @4: E4,
    f @5: E7,
    g @6: E8,
    h @7: E255,
    i @8: E256,
    j @9: E65535,
    k @10: E65536,
    l @11: EBig,
    tail @12: u3,
}

struct EnumArrays {
    first @0: u1,
    xs @1: [E2, 5],
    ys @2: [E256],
    z @3: Optional[E4],
}
"""

NESTED = """version: "3"

enum Mode { Off = 0, On = 1, Auto = 2, }

struct Point {
    x @0: i11,
    y @1: i13,
    m @2: Mode,
}

/* field ids deliberately out of declaration order */
struct Segment {
    b @2: Point,
    tag @0: u3,
    a @1: Point,
}

struct Shape {
    name @0: str,
    segments @1: [Segment],
    box @2: [Point, 2],
    grid @3: [[u5, 3], 2],
    hole @4: Optional[Segment],
    weights @5: [f32],
    scale @6: f64,
    ratio @7: f32,
    flags @8: [Optional[u7], 3],
    names @9: [str],
    deep @10: Optional[[[i9], 2]],
    last @11: u1,
}

struct Outer {
    lead @0: u5,
    shape @1: Shape,
    again @2: Shape,
    tail @3: i3,
}
"""

PROTOCOLS = """version: "3"

enum Gear { N = 0, D = 1, R = 2, P = 3, L = 9, }

struct Speed {
    kmh @0: u12,
    gear @1: Gear,
    delta @2: i6,
}

impl can for Speed {
    id: 10,
    device: "ecu1",
    bus: "bus1",
}

struct Temp {
    celsius @0: i16,
    sensor @1: u8,
}

impl can for Temp {
    id: 11,
    endianess: "big",
}

struct Log {
    text @0: str,
    level @1: u2,
    speed @2: Speed,
}

impl uart for Log {
    port: 3,
    bus: "dbg",
}

struct Req {
    what @0: u7,
    gear @1: Gear,
}

struct Resp {
    ok @0: u1,
    values @1: [i20],
}

struct PingReq {
    seq @0: u9,
}

struct PingResp {
    seq @0: u9,
    at @1: f64,
}

service Car @3 {
    method Query(Req) @0 returns Resp,
    method Shift(Speed) @5 returns Resp,
}

service Aux @7 {
    method Ping(PingReq) @1 returns PingResp,
}
"""


# ---------------------------------------------------------------- TypeVisitor order

from fcp.type_visitor import TypeVisitor
from fcp.maybe import UnwrapError as MaybeUnwrapError


def type_repr(t):
    if isinstance(t, (T.ArrayType,)):
        return "[%s,%d]" % (type_repr(t.underlying_type), t.size)
    if isinstance(t, T.DynamicArrayType):
        return "[%s]" % type_repr(t.underlying_type)
    if isinstance(t, T.OptionalType):
        return "Optional[%s]" % type_repr(t.underlying_type)
    if isinstance(t, T.StringType):
        return "str"
    return "%s:%s" % (t.__class__.__name__, getattr(t, "name", "?"))


class Boom(Exception):
    pass


class Recorder(TypeVisitor):
    """Logs every callback; optionally raises or re-enters on a chosen callback."""

    def __init__(self, fcp, boom_at=None, reenter_on=None):
        super().__init__(fcp)
        self.log = []
        self.boom_at = boom_at
        self.reenter_on = reenter_on

    def _rec(self, kind, t, name, payload=None):
        self.log.append((kind, type_repr(t), name, repr(payload)))
        if self.boom_at is not None and len(self.log) == self.boom_at:
            raise Boom(len(self.log))
        if self.reenter_on == (kind, name):
            self.reenter_on = None
            nested = self.visit(T.ArrayType(T.SignedType("i7"), 2), "reentered")
            return (kind, name, payload, nested)
        return (kind, name, payload)

    def struct(self, t, fields, name):
        return self._rec("struct", t, name, fields)

    def enum(self, t, name):
        return self._rec("enum", t, name)

    def unsigned(self, t, name):
        return self._rec("unsigned", t, name)

    def signed(self, t, name):
        return self._rec("signed", t, name)

    def float(self, t, name):
        return self._rec("float", t, name)

    def double(self, t, name):
        return self._rec("double", t, name)

    def string(self, t, name):
        return self._rec("string", t, name)

    def array(self, t, inner, name):
        return self._rec("array", t, name, inner)

    def dynamic_array(self, t, inner, name):
        return self._rec("dynamic_array", t, name, inner)

    def optional(self, t, inner, name):
        return self._rec("optional", t, name, inner)


def spec_walk(fcp, t, name, log):
    """Independent statement of the visiting order: depth first, children first,
    struct fields by ascending field id, wrapped types visited with an empty name."""
    if isinstance(t, T.StructType):
        found = [x for x in fcp.structs + fcp.enums if x.name == t.name]
        if not found:
            raise MaybeUnwrapError(None, "unknown")
        fields = found[0].fields
        order = sorted(range(len(fields)), key=lambda i: (fields[i].field_id, i))
        payload = [spec_walk(fcp, fields[i].type, fields[i].name, log) for i in order]
        kind = "struct"
    elif isinstance(t, (T.ArrayType, T.DynamicArrayType, T.OptionalType)):
        payload = spec_walk(fcp, t.underlying_type, "", log)
        kind = {T.ArrayType: "array", T.DynamicArrayType: "dynamic_array",
                T.OptionalType: "optional"}[t.__class__]
    else:
        kinds = {T.EnumType: "enum", T.UnsignedType: "unsigned", T.SignedType: "signed",
                 T.FloatType: "float", T.DoubleType: "double", T.StringType: "string"}
        if t.__class__ not in kinds:
            raise ValueError("Unexpected type: " + str(t))
        payload = None
        kind = kinds[t.__class__]
    log.append((kind, type_repr(t), name, repr(payload)))
    return (kind, name, payload)


def check_visitor(schema_text):
    from fcp.specs.struct import Struct
    from fcp.specs.struct_field import StructField

    fcp = parse(schema_text)
    checked = 0
    roots = [(T.StructType(s.name), "") for s in fcp.structs]
    roots += [(T.StructType(s.name), "root") for s in fcp.structs]
    roots += [(f.type, f.name) for s in fcp.structs for f in s.fields]
    roots += [
        (T.ArrayType(T.ArrayType(T.OptionalType(T.DynamicArrayType(T.StructType("Segment"))), 2), 3), "x"),
        (T.OptionalType(T.OptionalType(T.StringType())), "oo"),
        (T.DynamicArrayType(T.StructType("Outer")), "outers"),
        (T.FloatType(), "f"), (T.DoubleType(), ""), (T.EnumType("Mode"), "m"),
    ]
    for t, name in roots:
        want_log = []
        want = spec_walk(fcp, t, name, want_log)
        for _ in range(2):  # a visitor can be reused
            rec = Recorder(fcp)
            got = rec.visit(t, name)
            if got != want or rec.log != want_log:
                fail("visit(%s, %r): callbacks %r\nexpected %r" % (type_repr(t), name, rec.log, want_log))
        # an exception raised by the n-th callback surfaces after exactly n callbacks
        for n in sorted(k for k in {1, 2, len(want_log) // 2, len(want_log)} if 1 <= k <= len(want_log)):
            rec = Recorder(fcp, boom_at=n)
            try:
                rec.visit(t, name)
                fail("callback exception swallowed")
            except Boom:
                if rec.log != want_log[:n]:
                    fail("exception of callback %d: log %r" % (n, rec.log))
        checked += 1

    # a callback may start a nested visit on the same visitor
    rec = Recorder(fcp, reenter_on=("unsigned", "tag"))
    got = rec.visit(T.StructType("Segment"), "seg")
    inner_log = []
    inner = spec_walk(fcp, T.ArrayType(T.SignedType("i7"), 2), "reentered", inner_log)
    plain_log = []
    plain = spec_walk(fcp, T.StructType("Segment"), "seg", plain_log)
    at = [i for i, e in enumerate(plain_log) if e[0] == "unsigned" and e[2] == "tag"][0]
    fields = list(plain[2])
    fields[0] = fields[0] + (inner,)
    want_log = plain_log[:at + 1] + inner_log + plain_log[at + 1:-1]
    want_log.append(("struct", plain_log[-1][1], "seg", repr(fields)))
    if rec.log != want_log or got != ("struct", "seg", fields):
        fail("re-entrant visit: %r\nexpected %r" % (rec.log, want_log))

    # error inputs: something that is not a type, at the root and below siblings
    class NotAType(T.Type):
        def __str__(self):
            return "not-a-type"

    for t, seen in [(NotAType(), 0), (T.ArrayType(NotAType(), 2), 0), (T.Type(), 0)]:
        rec = Recorder(fcp)
        try:
            rec.visit(t, "bad")
            fail("no error for a non type")
        except ValueError as e:
            if not str(e).startswith("Unexpected type: ") or len(rec.log) != seen:
                fail("unexpected-type error changed: %r after %d callbacks" % (e, len(rec.log)))

    broken = parse(schema_text)
    broken.structs.append(Struct(name="Broken", fields=[
        StructField(name="ok", field_id=0, type=T.UnsignedType("u4")),
        StructField(name="bad", field_id=2, type=NotAType()),
        StructField(name="pt", field_id=1, type=T.StructType("Point")),
        StructField(name="never", field_id=3, type=T.UnsignedType("u4")),
    ]))
    rec = Recorder(broken)
    try:
        rec.visit(T.StructType("Broken"), "b")
        fail("no error for a non type inside a struct")
    except ValueError as e:
        names = [entry[2] for entry in rec.log]
        if str(e) != "Unexpected type: not-a-type" or names != ["ok", "x", "y", "m", "pt"]:
            fail("error inside struct: %r after %r" % (e, names))

    # a struct without fields (only constructible by hand) contributes an empty list
    broken.structs.append(Struct(name="Empty", fields=[]))
    broken.structs.append(Struct(name="Holder", fields=[
        StructField(name="a", field_id=0, type=T.UnsignedType("u4")),
        StructField(name="e", field_id=1, type=T.StructType("Empty")),
        StructField(name="es", field_id=2, type=T.ArrayType(T.StructType("Empty"), 2)),
        StructField(name="b", field_id=3, type=T.UnsignedType("u4")),
    ]))
    for root in ("Empty", "Holder"):
        want_log = []
        want = spec_walk(broken, T.StructType(root), "h", want_log)
        rec = Recorder(broken)
        if rec.visit(T.StructType(root), "h") != want or rec.log != want_log:
            fail("struct without fields: %r\nexpected %r" % (rec.log, want_log))

    # unknown struct: the lookup fails when the struct is reached, not earlier, not later
    broken.structs.append(Struct(name="Dangling", fields=[
        StructField(name="late", field_id=9, type=T.UnsignedType("u4")),
        StructField(name="first", field_id=0, type=T.SignedType("i4")),
        StructField(name="gone", field_id=4, type=T.OptionalType(T.StructType("Nowhere"))),
    ]))
    rec = Recorder(broken)
    try:
        rec.visit(T.StructType("Dangling"), "d")
        fail("no error for an unknown struct")
    except MaybeUnwrapError:
        if [entry[2] for entry in rec.log] != ["first"]:
            fail("unknown struct: callbacks before the error %r" % rec.log)
    for t in (T.StructType("Nowhere"), T.StructType("Mode")):
        rec = Recorder(broken)
        try:
            rec.visit(t, "")
            fail("no error for %s" % type_repr(t))
        except (MaybeUnwrapError, AttributeError):
            if rec.log:
                fail("callbacks before a failing lookup: %r" % rec.log)

    # the same struct twice next to each other is fine (Outer has two Shapes) but a
    # struct that contains itself never terminates normally
    broken.structs.append(Struct(name="Loop", fields=[
        StructField(name="v", field_id=0, type=T.UnsignedType("u4")),
        StructField(name="next", field_id=1, type=T.OptionalType(T.StructType("Loop"))),
    ]))
    rec = Recorder(broken)
    try:
        rec.visit(T.StructType("Loop"), "")
        fail("self containing struct was visited to the end")
    except RecursionError:
        if not rec.log or rec.log[0][2] != "v":
            fail("self containing struct: %r" % rec.log[:3])
    return checked


# ---------------------------------------------------------------- main

def main():
    visited = check_visitor(NESTED)
    jobs = [
        dict(label="widths", schema_text=widths_schema()),
        dict(label="enums", schema_text=ENUMS),
        dict(label="nested", schema_text=NESTED, rounds=16),
        dict(label="protocols", schema_text=PROTOCOLS),
        dict(label="protocols/can", schema_text=PROTOCOLS, header="fcp_can.h",
             namespace="fcp::can", protocol="can"),
    ]
    total = sum(n for n, _ in run_all(jobs))
    print("visitor order checked on %d roots, %d encode/decode cases agree with the Python codec" % (visited, total))
    print("PASS")


if __name__ == "__main__":
    main()
