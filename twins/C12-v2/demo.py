"""C12 demo 2: a schema split over modules in per-bus directories.

main.fcp imports `can.types` and `lin.types` (can/types.fcp and lin/types.fcp).
The reflection record of the accepted schema has to list every struct, enum,
binding and service declared in the three source files and has to survive a
round trip through the built-in reflection schema.
"""
import pathlib
import sys
import tempfile

from fcp.parser import get_fcp
from fcp.reflection import get_reflection_schema
from fcp.serde import encode, decode
from fcp.verifier import make_general_verifier

FILES = {
    "main.fcp": """version: "3"

mod can.types;
mod lin.types;

struct Gateway {
    uptime @0: u32 | unit("s"),
}
""",
    "can/types.fcp": """version: "3"

enum CanState {
    Active = 0,
    Passive = 1,
    BusOff = 2,
}

struct CanStatus {
    state @0: CanState,
    tx_errors @1: u8,
}

impl can for CanStatus {
    id: 16,
}
""",
    "lin/types.fcp": """version: "3"

enum LinState {
    Sleep = 0,
    Awake = 1,
}

struct LinStatus {
    state @0: LinState,
    checksum_errors @1: u16,
}

struct LinWakeup {
    source @0: u8,
}

impl lin for LinStatus {
    id: 3,
}

service LinControl @1 {
    method Wakeup(LinWakeup) @0 returns LinStatus,
}
""",
}

DECLARED = {
    "structs": {"Gateway", "CanStatus", "LinStatus", "LinWakeup"},
    "enums": {"CanState", "LinState"},
    # (protocol, name): one default binding per struct plus the explicit ones
    "impls": {
        ("default", "Gateway"),
        ("default", "CanStatus"),
        ("default", "LinStatus"),
        ("default", "LinWakeup"),
        ("can", "CanStatus"),
        ("lin", "LinStatus"),
    },
    "services": {"LinControl"},
}


def main() -> int:
    with tempfile.TemporaryDirectory() as tmp:
        root = pathlib.Path(tmp)
        for name, source in FILES.items():
            path = root / name
            path.parent.mkdir(parents=True, exist_ok=True)
            path.write_text(source)

        fcp = get_fcp(root / "main.fcp").unwrap()

    if make_general_verifier().verify(fcp).is_err():
        print("schema unexpectedly rejected by the verifier")
        print("FAIL")
        return 1

    record = fcp.reflection()
    schema = get_reflection_schema().unwrap()
    decoded = decode(schema, "Fcp", encode(schema, "Fcp", record))

    ok = True
    if decoded != record:
        print("round trip through the reflection schema changed the record")
        ok = False

    reflected = {
        "structs": sorted(s["name"] for s in decoded["structs"]),
        "enums": sorted(e["name"] for e in decoded["enums"]),
        "impls": sorted((i["protocol"], i["name"]) for i in decoded["impls"]),
        "services": sorted(s["name"] for s in decoded["services"]),
    }
    for kind, declared in DECLARED.items():
        if reflected[kind] != sorted(declared):
            print(f"{kind}: declared {sorted(declared)}, reflected {reflected[kind]}")
            ok = False

    print("PASS" if ok else "FAIL")
    return 0 if ok else 1


if __name__ == "__main__":
    sys.exit(main())
