#!/usr/bin/env python
"""C15 differential demo: field ids, not declaration order, fix the wire order.

Focus of this demo: the packed encoder (src/fcp/encoding.py) and everything that
is derived from it (DBC text, generated CAN C sources), cross-checked against
the Python codec and the type visitor / describe output.

For a family of schemas the declaration order of the fields of every struct is
permuted (ids kept).  For every permutation the packed layout (with and without
array unrolling), the DBC text, the generated C sources, the describe output,
the visitor order and the bytes of the Python codec must be identical to those
of the reference declaration order, and the back ends must agree with each
other (codec bytes == bits placed according to the packed layout).

Run with PYTHONPATH pointing at the worktree, e.g.
  PYTHONPATH=$R/src:$R/plugins/fcp_dbc:$R/plugins/fcp_can_c:$R/plugins/fcp_cpp:$R/plugins/fcp_nop \
      python demo.py
Exits 0 and prints PASS when the property holds.
"""

import itertools
import os
import random
import sys

from fcp.parser import get_fcp_from_string
from fcp.encoding import make_encoder, PackedEncoder, PackedEncoderContext, Value
from fcp.serde import encode, decode
from fcp.describe import describe
from fcp.type_visitor import TypeVisitor
from fcp.specs.type import StructType, ArrayType, UnsignedType
from fcp.specs.struct import Struct
from fcp.specs.struct_field import StructField
from fcp.specs.impl import Impl
from fcp.specs.v2 import FcpV2
from fcp_dbc.dbc_writer import write_dbc
from fcp_can_c.can_c_writer import CanCWriter

FAILURES = []


def check(cond, what):
    if not cond:
        FAILURES.append(what)
        print("FAIL:", what)


# --------------------------------------------------------------------------
# schema family
# --------------------------------------------------------------------------

ENUMS = """
enum E { A = 0, B = 1, C = 5, }
enum F { X = 0, Y = 1, }
"""

# name -> list of field declarations (text, ids fixed)
STRUCTS = {
    "Inner": ["x @0: u3", 'y @1: i5 | unit("V")', "z @2: E"],
    "Msg": [
        "a @0: u7",
        "inner @1: Inner",
        'arr @2: [u4, 3] | unit("m")',
        "e @3: F",
        "s @4: i13",
        "grid @5: [[u2, 2], 2]",
        "g @6: u9",
    ],
    # ids are sparse and not in declaration order to begin with
    "Be": ["w @1: u16", "v @0: u8", "t @2: i8"],
    "Sparse": ["hi @40: u5", "lo @-3: i6", "mid @7: [Inner, 2]", "top @1000: u1"],
}

IMPLS = """
impl can for Msg {
    id: 10,
    device: "ecu1",

    signal s {
        note: "thirteen",
    },

    signal arr_1 {
        note: "second",
    },
}

impl can for Be {
    id: 12,
    device: "ecu1",

    signal w {
        endianess: "big",
    },
}

impl can for Sparse {
    id: 11,
    device: "ecu2",
    bus: "aux",
}
"""


def make_source(orders):
    """Schema text with the fields of each struct declared in the given order."""
    out = ['version: "3"', ENUMS]
    for name, decls in STRUCTS.items():
        order = orders.get(name, range(len(decls)))
        out.append("struct %s {" % name)
        for i in order:
            out.append("    %s," % decls[i])
        out.append("}")
    out.append(IMPLS)
    return "\n".join(out)


def parse(orders):
    return get_fcp_from_string(make_source(orders)).unwrap()


# --------------------------------------------------------------------------
# observations
# --------------------------------------------------------------------------


def layout(fcp, unroll):
    encoder = make_encoder(
        "packed", fcp, PackedEncoderContext().with_unroll_arrays(unroll)
    )
    out = {}
    for impl in fcp.get_matching_impls("can"):
        try:
            pieces = encoder.generate(impl)
        except ValueError as e:
            # e.g. an array of structs cannot be sized without unrolling
            out[impl.name] = ("ValueError", str(e), [p.name for p in encoder.encoding])
            continue
        out[impl.name] = [
            (
                p.name,
                repr(p.type),
                p.bitstart,
                p.bitlength,
                p.endianess,
                p.unit,
                tuple(sorted(p.extended_data.items())),
            )
            for p in pieces
        ]
        # repeated call on the same encoder object: nothing may leak over
        again = encoder.generate(impl)
        check(
            [(p.name, p.bitstart, p.bitlength) for p in again]
            == [(p.name, p.bitstart, p.bitlength) for p in pieces],
            "repeated generate() differs for " + impl.name,
        )
    return out


def dbc_text(fcp):
    return sorted(write_dbc(fcp).unwrap())


def can_c_text(fcp):
    writer = CanCWriter(fcp)
    return (
        sorted(writer.generate_device_headers()),
        sorted(writer.generate_device_sources()),
    )


class Names(TypeVisitor):
    def struct(self, t, fields, name):
        return [name, fields]

    def enum(self, t, name):
        return name

    unsigned = signed = float = double = string = enum

    def array(self, t, inner, name):
        return [name, t.size, inner]

    def dynamic_array(self, t, inner, name):
        return [name, inner]

    optional = dynamic_array


MSG_VALUES = [
    dict(a=0, inner=dict(x=0, y=0, z=0), arr=[0, 0, 0], e=0, s=0, grid=[[0, 0], [0, 0]], g=0),
    dict(a=127, inner=dict(x=7, y=-15, z=5), arr=[15, 0, 15], e=1, s=-4095, grid=[[3, 0], [1, 2]], g=511),
    dict(a=1, inner=dict(x=4, y=15, z=1), arr=[1, 2, 4], e=0, s=4095, grid=[[1, 1], [2, 3]], g=256),
    dict(a=85, inner=dict(x=2, y=-1, z=5), arr=[8, 7, 9], e=1, s=-1, grid=[[0, 3], [3, 0]], g=1),
]

SPARSE_VALUES = [
    dict(hi=31, lo=-31, mid=[dict(x=1, y=-2, z=5), dict(x=7, y=15, z=0)], top=1),
    dict(hi=0, lo=31, mid=[dict(x=0, y=0, z=0), dict(x=5, y=-15, z=1)], top=0),
]


def flat_values(value):
    """Leaf values of a (nested) value in the order given by dict/list order."""
    if isinstance(value, dict):
        for v in value.values():
            yield from flat_values(v)
    elif isinstance(value, list):
        for v in value:
            yield from flat_values(v)
    else:
        yield value


def lookup(value, path):
    """Fetch the leaf named like a packed signal: a::b, arr_1, grid_1_0 ..."""
    for part in path.split("::"):
        if isinstance(value, dict) and part in value:
            value = value[part]
            continue
        name, *indices = part.split("_")
        # field names of this demo contain no underscore
        value = value[name]
        for i in indices:
            value = value[int(i)]
    return value


def pack_by_layout(pieces, value):
    """Place every signal at its bitstart, LSB first, like the CAN back ends do."""
    word = 0
    total = 0
    for name, _, bitstart, bitlength, *_ in pieces:
        leaf = lookup(value, name) & ((1 << bitlength) - 1)
        word |= leaf << bitstart
        total = max(total, bitstart + bitlength)
    return list(word.to_bytes((total + 7) // 8, "little"))


def observe(fcp):
    obs = {}
    obs["layout_unrolled"] = layout(fcp, True)
    obs["layout_rolled"] = layout(fcp, False)
    obs["dbc"] = dbc_text(fcp)
    obs["can_c"] = can_c_text(fcp)
    obs["describe"] = {n: describe(fcp, StructType(n)) for n in ("Inner", "Msg")}
    obs["visitor"] = {n: Names(fcp).visit(StructType(n), n) for n in STRUCTS}
    obs["bytes"] = {
        "Msg": [list(encode(fcp, "Msg", v)) for v in MSG_VALUES],
        "Sparse": [list(encode(fcp, "Sparse", v)) for v in SPARSE_VALUES],
    }
    for name, values in (("Msg", MSG_VALUES), ("Sparse", SPARSE_VALUES)):
        for v, b in zip(values, obs["bytes"][name]):
            back = decode(fcp, name, bytearray(b))
            check(back == v, "python round trip of %s %r gave %r" % (name, v, back))
            # back ends agree: codec bytes are the bits placed by the packed layout
            packed = pack_by_layout(obs["layout_unrolled"][name], v)
            check(packed == b, "codec %r != packed layout %r for %s" % (b, packed, name))
    return obs


# --------------------------------------------------------------------------
# 1. permutations of the declaration order
# --------------------------------------------------------------------------


def permutation_sample(rng):
    inner = list(itertools.permutations(range(3)))
    msg_all = list(itertools.permutations(range(7)))
    sparse = list(itertools.permutations(range(4)))
    be = list(itertools.permutations(range(3)))
    msg = [msg_all[0], msg_all[-1]] + rng.sample(msg_all, 22)
    for i, m in enumerate(msg):
        yield {"Inner": inner[i % len(inner)], "Msg": m, "Sparse": sparse[i % len(sparse)],
               "Be": be[(i // 2) % len(be)]}


def test_permutations():
    rng = random.Random(15)
    reference = observe(parse({}))

    # ascending ids and tight packing in the reference itself
    names = [p[0] for p in reference["layout_unrolled"]["Msg"]]
    check(
        names
        == ["a", "inner::x", "inner::y", "inner::z", "arr_0", "arr_1", "arr_2", "e", "s",
            "grid_0_0", "grid_0_1", "grid_1_0", "grid_1_1", "g"],
        "unexpected unrolled signal order %r" % names,
    )
    names = [p[0] for p in reference["layout_unrolled"]["Sparse"]]
    check(
        names
        == ["lo", "mid_0::x", "mid_0::y", "mid_0::z", "mid_1::x", "mid_1::y", "mid_1::z",
            "hi", "top"],
        "unexpected sparse signal order %r" % names,
    )
    for msg, pieces in reference["layout_unrolled"].items():
        at = 0
        for name, _, bitstart, bitlength, *_ in pieces:
            check(bitstart == at, "%s.%s not tightly packed" % (msg, name))
            at += bitlength
    notes = {p[0]: dict(p[6]).get("note") for p in reference["layout_unrolled"]["Msg"]}
    check(notes["s"] == "thirteen" and notes["arr_1"] == "second" and notes["arr_0"] is None,
          "signal blocks not matched by (derived) name")
    big = {p[0]: p[4] for p in reference["layout_unrolled"]["Be"]}
    check(big == {"v": "little", "w": "big", "t": "little"}, "endianess %r" % big)
    units = {p[0]: p[5] for p in reference["layout_unrolled"]["Msg"]}
    check(units["arr_2"] == "m" and units["inner::y"] == "V" and units["a"] is None,
          "units not carried to the unrolled elements")

    count = 0
    for orders in permutation_sample(rng):
        obs = observe(parse(orders))
        for key in reference:
            check(obs[key] == reference[key], "%s changed under permutation %r" % (key, orders))
        count += 1
    return count


# --------------------------------------------------------------------------
# 2. hand built ASTs: ties, arrays of arrays of structs, empty arrays
# --------------------------------------------------------------------------


def can_impl(type_name):
    return Impl(name=type_name, protocol="can", type=type_name, fields={}, signals=[])


def names_of(fcp, type_name, unroll=True):
    encoder = PackedEncoder(fcp, PackedEncoderContext(unroll_arrays=unroll))
    return [(v.name, v.bitstart, v.bitlength) for v in encoder.generate(can_impl(type_name))]


def test_ast_shapes():
    leaf = Struct(
        name="Leaf",
        fields=[
            StructField("q", 1, UnsignedType("u2")),
            StructField("p", 0, UnsignedType("u3")),
        ],
    )
    decls = [
        StructField("tail", 9, UnsignedType("u1")),
        StructField("cube", 2, ArrayType(ArrayType(StructType("Leaf"), 2), 2), unit="x"),
        StructField("none", 1, ArrayType(UnsignedType("u8"), 0)),
        StructField("head", 0, UnsignedType("u4")),
    ]
    expected = None
    for perm in itertools.permutations(range(4)):
        top = Struct(name="Top", fields=[decls[i] for i in perm])
        fcp = FcpV2(structs=[leaf, top], impls=[can_impl("Top")])
        got = names_of(fcp, "Top")
        if expected is None:
            expected = got
            check(
                [n for n, _, _ in got]
                == ["head"]
                + ["cube_%d_%d::%s" % (i, j, f) for i in range(2) for j in range(2) for f in "pq"]
                + ["tail"],
                "unexpected nested unrolling order %r" % got,
            )
            check(got[-1] == ("tail", 4 + 4 * 5, 1), "unexpected offsets %r" % got)
        check(got == expected, "nested unrolling changed under permutation %r" % (perm,))

        # without unrolling an array of structs cannot be sized
        try:
            names_of(fcp, "Top", unroll=False)
            check(False, "array of structs sized without unrolling")
        except ValueError as e:
            check("Error computing type length" in str(e), "unexpected error %r" % e)

    # equal ids: declaration order breaks the tie, the same way in every back end
    for first, second in (("m", "n"), ("n", "m")):
        tie = Struct(
            name="Tie",
            fields=[
                StructField("z", 5, UnsignedType("u3")),
                StructField(first, 2, UnsignedType("u4")),
                StructField(second, 2, UnsignedType("u4")),
                StructField("k", 0, UnsignedType("u5")),
            ],
        )
        fcp = FcpV2(structs=[tie], impls=[can_impl("Tie")])
        order = ["k", first, second, "z"]
        check([n for n, _, _ in names_of(fcp, "Tie")] == order, "encoder tie order")
        check(Names(fcp).visit(StructType("Tie"), "")[1] == order, "visitor tie order")
        value = {"z": 1, "m": 2, "n": 3, "k": 4}
        check(list(decode(fcp, "Tie", encode(fcp, "Tie", value))) == order, "codec tie order")

    # the encoder follows the schema it is given, call after call
    a = StructField("a", 0, UnsignedType("u3"))
    b = StructField("b", 1, UnsignedType("u5"))
    s = Struct(name="S", fields=[b, a])
    fcp = FcpV2(structs=[s], impls=[can_impl("S")])
    encoder = PackedEncoder(fcp, PackedEncoderContext())
    impl = can_impl("S")
    check([v.name for v in encoder.generate(impl)] == ["a", "b"], "ids 0,1")
    a.field_id, b.field_id = 1, 0
    check([(v.name, v.bitstart) for v in encoder.generate(impl)] == [("b", 0), ("a", 5)], "ids swapped")
    check(list(encode(fcp, "S", {"a": 7, "b": 0})) == [0b11100000], "codec after swap")
    a.field_id, b.field_id = 0, 1
    check(list(encode(fcp, "S", {"a": 7, "b": 0})) == [0b00000111], "codec after swap back")

    # Value equality as used by the project's tests
    check(
        encoder.generate(impl)
        == [Value("a", UnsignedType("u3"), 0, 3), Value("b", UnsignedType("u5"), 3, 5)],
        "Value list",
    )


# --------------------------------------------------------------------------
# 3. error inputs behave the same for every declaration order
# --------------------------------------------------------------------------


def outcome(f):
    try:
        return ("ok", f())
    except Exception as e:  # noqa: BLE001
        return (type(e).__name__, str(e))


def test_errors():
    decls = ["a @0: u8", "d @1: [u8]", "b @2: u8"]
    seen = set()
    for perm in itertools.permutations(range(3)):
        src = 'version: "3"\nstruct Bad {\n%s\n}\nimpl can for Bad { id: 1, device: "x", }\n' % "\n".join(
            "    %s," % decls[i] for i in perm
        )
        fcp = get_fcp_from_string(src).unwrap()
        impl = next(iter(fcp.get_matching_impls("can")))
        for unroll in (True, False):
            encoder = make_encoder("packed", fcp, PackedEncoderContext(unroll))
            seen.add(("gen", unroll) + outcome(lambda: encoder.generate(impl)))
            # what was laid out before the failure is the same as well
            seen.add(("partial", unroll, tuple(v.name for v in encoder.encoding)))
        seen.add(("missing",) + outcome(lambda: encode(fcp, "Bad", {"a": 1, "d": [1]})))
        seen.add(("unknown",) + outcome(lambda: encode(fcp, "Nope", {}))[:1])
        seen.add(("short",) + outcome(lambda: decode(fcp, "Bad", bytearray([1, 2, 0]))))
        seen.add(("ok",) + outcome(lambda: tuple(encode(fcp, "Bad", {"a": 1, "d": [9, 8], "b": 2}))))
    kinds = sorted(s[0] for s in seen)
    check(kinds == ["gen", "gen", "missing", "ok", "partial", "partial", "short", "unknown"],
          "error behaviour depends on declaration order: %r" % sorted(seen, key=repr))
    check(("ok", "ok", (1, 2, 0, 0, 0, 9, 8, 2)) in seen, "unexpected bytes in %r" % (seen,))
    check(("partial", True, ("a",)) in seen and ("partial", False, ("a",)) in seen,
          "unexpected partial layout in %r" % (seen,))


def main():
    n = test_permutations()
    test_ast_shapes()
    test_errors()
    if FAILURES:
        print("%d check(s) failed" % len(FAILURES))
        return 1
    print("checked %d declaration orders on %s" % (n, os.environ.get("FCP_ROOT", "/tmp/twin3-C15")))
    print("PASS")
    return 0


if __name__ == "__main__":
    sys.exit(main())
