#!/venv/bin/python
"""C11 demo 1: truncated inputs (prefixes of a valid schema) must give renderable errors.

Every prefix of a small valid schema is parsed with get_fcp_from_string.  The
result must be Ok or an Err whose FcpError renders with Logger.error() (both with
and without file paths), and every `[<source>:<line>]` / `<line> |` citation in
the rendering must name a line that exists in the registered source.
"""
import re
import sys

from fcp.parser import get_fcp_from_string
from fcp.error import Logger

SCHEMA = 'version: "3"\nstruct A {\n    a @0: u8,\n    b @1: [u16, 4] | unit("m"),\n}\nenum E {\n    X = 0,\n}\n'

ANSI = re.compile(r"\x1b\[[0-9;]*m")


def check(source: str) -> str:
    for paths in (True, False):
        logger = Logger({}, enable_file_paths=paths)
        try:
            result = get_fcp_from_string(source, logger)
        except BaseException as e:  # noqa
            return f"exception escaped the parser: {e!r}"
        if not (hasattr(result, "is_ok") and hasattr(result, "is_err")):
            return f"neither a schema nor an error: {result!r}"
        if result.is_ok():
            continue
        try:
            text = logger.error(result.err())
        except BaseException as e:  # noqa
            return f"error value cannot be rendered (file paths={paths}): {e!r}"
        text = ANSI.sub("", text)
        for name, line in re.findall(r"\[([^\]:\[]+\.fcp):(-?\d+)\]", text):
            n_lines = len(logger.sources[name].split("\n"))
            if not 1 <= int(line) <= n_lines:
                return f"diagnostic cites {name}:{line} but the source has {n_lines} line(s)"
        for line in re.findall(r"^(-?\d+) \|", text, flags=re.M):
            n_lines = len(source.split("\n"))
            if not 1 <= int(line) <= n_lines:
                return f"diagnostic shows line {line} but the source has {n_lines} line(s)"
    return ""


def main() -> int:
    prefixes = [SCHEMA[:i] for i in range(len(SCHEMA) + 1)]
    for prefix in prefixes:
        problem = check(prefix)
        if problem:
            print(f"FAIL: input {prefix!r}: {problem}")
            return 1
    print(f"PASS: {len(prefixes)} prefixes all gave a schema or a renderable, well-located error")
    return 0


if __name__ == "__main__":
    sys.exit(main())
