#!/venv/bin/python
"""C16 differential demo: the Python decoder must detect truncated input.

The demo carries a frozen, deliberately naive copy of the reference decoder
(bit by bit, recursive) and compares `fcp.serde.decode` against it on

  * every byte-boundary truncation of many valid encodings (must raise
    ValueError("buffer overrrun"), never return a value),
  * corrupted u32 length prefixes up to 2**32-1 with little or no data behind
    them (must be rejected quickly and without big allocations),
  * random byte strings / random mutations (same value or same error),
  * repeated calls, alternating schemas that reuse struct names, schemas that
    are edited between calls, hand-built schemas with odd shapes.

Run with PYTHONPATH pointing at the worktree (see the task description).
Exits 0 and prints PASS when everything agrees.
"""

import os
import random
import struct as pystruct
import sys
import tempfile
import time
import tracemalloc
from pathlib import Path

from fcp.parser import get_fcp
from fcp.serde import encode, decode
from fcp.specs.v2 import FcpV2
from fcp.specs.struct import Struct
from fcp.specs.struct_field import StructField
from fcp.specs.enum import Enum, Enumeration
from fcp.specs.type import (
    Type,
    ArrayType,
    StructType,
    EnumType,
    DynamicArrayType,
    OptionalType,
    StringType,
    UnsignedType,
    SignedType,
    FloatType,
    DoubleType,
)

FCP_ROOT = os.environ.get("FCP_ROOT", "/tmp/twin3-C16")
OVERRUN = "buffer overrrun"

failures = []
checks = 0


def check(cond, what):
    global checks
    checks += 1
    if not cond:
        failures.append(what)
        if len(failures) <= 20:
            print("FAIL:", what)


# --------------------------------------------------------------------------
# Frozen reference decoder (independent of fcp.serde)
# --------------------------------------------------------------------------
class RefBuffer:
    def __init__(self, data):
        self.buffer = [b & 0xFF for b in data]
        self.bitaddr = 0

    def get_bit(self, bitaddr):
        byte_addr = bitaddr >> 3
        if len(self.buffer) <= byte_addr:
            raise ValueError(OVERRUN)
        return (self.buffer[byte_addr] >> (bitaddr & 7)) & 1

    def read_word(self, bits):
        word = 0
        for i in range(bits):
            word |= self.get_bit(self.bitaddr + i) << i
        self.bitaddr += bits
        return word

    def read_bytes(self, n):
        return [self.read_word(8) for _ in range(n)]


def ref_decode_type(buf, fcp, type):
    if isinstance(type, UnsignedType):
        return buf.read_word(type.get_length())
    elif isinstance(type, SignedType):
        length = type.get_length()
        word = buf.read_word(length)
        max = 2**length
        if word > max / 2:
            return int(-(max - word))
        return int(word)
    elif isinstance(type, FloatType):
        return float(pystruct.unpack("f", bytearray(buf.read_bytes(4)))[0])
    elif isinstance(type, DoubleType):
        return float(pystruct.unpack("d", bytearray(buf.read_bytes(8)))[0])
    elif isinstance(type, StringType):
        n = buf.read_word(32)
        return bytearray(buf.read_bytes(n)).decode("ascii")
    elif isinstance(type, EnumType):
        return buf.read_word(fcp.get_enum(type.name).unwrap().get_packed_size())
    elif isinstance(type, StructType):
        return ref_decode_struct(buf, fcp, type.name)
    elif isinstance(type, ArrayType):
        return [ref_decode_type(buf, fcp, type.underlying_type) for _ in range(type.size)]
    elif isinstance(type, DynamicArrayType):
        n = buf.read_word(32)
        out = []
        for _ in range(n):
            out.append(ref_decode_type(buf, fcp, type.underlying_type))
        return out
    elif isinstance(type, OptionalType):
        if buf.read_word(8) != 0:
            return ref_decode_type(buf, fcp, type.underlying_type)
        return None
    raise ValueError("Unmatched type")


def ref_decode_struct(buf, fcp, name):
    s = fcp.get_struct(name).unwrap()
    data = {}
    for field in sorted(s.fields, key=lambda f: f.field_id):
        data[field.name] = ref_decode_type(buf, fcp, field.type)
    return data


def ref_decode(fcp, name, data):
    return ref_decode_struct(RefBuffer(data), fcp, name)


def outcome(fn, *args):
    """('ok', value) or ('err', exception class name, message)."""
    try:
        return ("ok", fn(*args))
    except RecursionError:
        raise
    except Exception as e:  # noqa: BLE001
        return ("err", type(e).__name__, str(e))


def same(a, b):
    """Equality that treats NaN == NaN and checks key order of dicts."""
    if isinstance(a, float) and isinstance(b, float):
        return pystruct.pack("d", a) == pystruct.pack("d", b)
    if isinstance(a, dict) and isinstance(b, dict):
        return list(a) == list(b) and all(same(a[k], b[k]) for k in a)
    if isinstance(a, (list, tuple)) and type(a) is type(b):
        return len(a) == len(b) and all(same(x, y) for x, y in zip(a, b))
    return type(a) is type(b) and a == b


def agree(fcp, name, data, label):
    got = outcome(decode, fcp, name, bytearray(data))
    exp = outcome(ref_decode, fcp, name, bytearray(data))
    if got[0] == "ok" and exp[0] == "ok":
        check(same(got[1], exp[1]), f"{label}: value differs {got[1]!r} vs {exp[1]!r}")
    else:
        check(got == exp, f"{label}: {got!r} vs reference {exp!r}")
    return got


# --------------------------------------------------------------------------
# Schemas
# --------------------------------------------------------------------------
RICH = """version: "3"

enum Mode {
    off = 0,
    on = 1,
    auto = 5,
}

enum Wide {
    lo = 0,
    hi = 1000,
}

struct Inner {
    a @ 0: u3,
    m @ 1: Mode,
    b @ 2: i5,
    name @ 3: str,
}

struct Leaf {
    w @ 1: Wide,
    k @ 0: u1,
}

struct Outer {
    z @ 5: u1,
    items @ 1: [Inner],
    fixed @ 2: [Inner, 2],
    opt @ 3: Optional[[i12]],
    grid @ 0: [[u7, 3], 2],
    d @ 4: f64,
    f @ 6: f32,
    tail @ 7: Optional[Inner],
    leaves @ 8: [[Leaf]],
    big @ 9: u64,
    neg @ 10: i64,
    oo @ 11: Optional[Optional[u9]],
}

struct Odd {
    a @ 0: u0,
    b @ 1: u99,
    c @ 2: i65,
    d @ 3: u0,
    e @ 4: [u0, 3],
    g @ 5: u2,
}

struct Strs {
    n @ 0: u5,
    xs @ 1: [str],
    last @ 2: str,
}
"""


def load(text, tmp, fname):
    p = Path(tmp) / fname
    p.write_text(text)
    return get_fcp(p).unwrap()


def repo_schema(name):
    return get_fcp(Path(FCP_ROOT) / "tests" / "schemas" / "syntax" / (name + ".fcp")).unwrap()


def inner(a, m, b, name):
    return {"a": a, "m": m, "b": b, "name": name}


def rich_values():
    base = {
        "z": 1,
        "items": [inner(5, 5, -3, "hi")],
        "fixed": [inner(1, 0, 15, ""), inner(7, 1, -15, "abc")],
        "opt": [-2047, 2047, 0, -1],
        "grid": [[1, 2, 3], [127, 0, 64]],
        "d": 1.5,
        "f": -2.0,
        "tail": None,
        "leaves": [[{"w": 1000, "k": 1}], [], [{"w": 0, "k": 0}, {"w": 513, "k": 1}]],
        "big": 2**64 - 1,
        "neg": -(2**63 - 1),
        "oo": 300,
    }
    yield base
    v = dict(base)
    v.update(items=[], opt=None, tail=inner(0, 0, 0, "x" * 40), leaves=[], oo=None, z=0, big=0, neg=2**63)
    yield v
    v = dict(base)
    v.update(
        items=[inner(i % 8, (0, 1, 5)[i % 3], (i % 31) - 15, "s" * i) for i in range(9)],
        opt=[],
        d=float("inf"),
        f=0.0,
        neg=-1,
    )
    yield v
    rnd = random.Random(16)
    for _ in range(6):
        yield {
            "z": rnd.randrange(2),
            "items": [
                inner(rnd.randrange(8), rnd.choice((0, 1, 5)), rnd.randrange(-15, 16),
                      "".join(chr(rnd.randrange(128)) for _ in range(rnd.randrange(6))))
                for _ in range(rnd.randrange(4))
            ],
            "fixed": [inner(rnd.randrange(8), 1, rnd.randrange(-15, 16), "q" * rnd.randrange(3)) for _ in range(2)],
            "opt": rnd.choice([None, [rnd.randrange(-2047, 2048) for _ in range(rnd.randrange(5))]]),
            "grid": [[rnd.randrange(128) for _ in range(3)] for _ in range(2)],
            "d": rnd.uniform(-1e9, 1e9),
            "f": float(rnd.randrange(-100, 100)),
            "tail": rnd.choice([None, inner(2, 5, -7, "tail")]),
            "leaves": [[{"w": rnd.randrange(1001), "k": rnd.randrange(2)} for _ in range(rnd.randrange(3))]
                       for _ in range(rnd.randrange(3))],
            "big": rnd.randrange(2**64),
            "neg": rnd.randrange(-(2**63) + 1, 2**63),
            "oo": rnd.choice([None, rnd.randrange(512)]),
        }


def hand_built():
    """Schemas that the text front end would not produce."""
    # duplicate struct name (first one wins), unsorted ids, equal ids (stable), duplicate field names
    a1 = Struct(name="A", fields=[
        StructField(name="y", field_id=1, type=UnsignedType("u8")),
        StructField(name="x", field_id=0, type=UnsignedType("u4")),
        StructField(name="x2", field_id=0, type=SignedType("i4")),
        StructField(name="y", field_id=2, type=UnsignedType("u16")),
    ])
    a2 = Struct(name="A", fields=[StructField(name="only", field_id=0, type=UnsignedType("u32"))])
    b = Struct(name="B", fields=[
        StructField(name="as", field_id=0, type=DynamicArrayType(StructType("A"))),
        StructField(name="e", field_id=1, type=EnumType("E")),
        StructField(name="gone", field_id=2, type=StructType("Missing")),
    ])
    c = Struct(name="C", fields=[
        StructField(name="e", field_id=0, type=EnumType("NoSuchEnum")),
    ])
    d = Struct(name="D", fields=[
        StructField(name="n", field_id=0, type=UnsignedType("u8")),
        StructField(name="bad", field_id=1, type=NotAType()),
    ])
    e = Enum(name="E", enumeration=[Enumeration(name="a", value=0), Enumeration(name="b", value=9)])
    e2 = Enum(name="E", enumeration=[Enumeration(name="a", value=0)])
    return FcpV2(structs=[a1, a2, b, c, d], enums=[e, e2])


class NotAType(Type):
    """A Type subclass the codec knows nothing about."""


# --------------------------------------------------------------------------
# Checks
# --------------------------------------------------------------------------
def truncations(fcp, name, value, label):
    enc = encode(fcp, name, value)
    full = agree(fcp, name, enc, label + " full")
    check(full[0] == "ok", f"{label}: full encoding does not decode: {full!r}")
    for k in range(len(enc)):
        got = agree(fcp, name, enc[:k], f"{label} cut@{k}")
        check(got == ("err", "ValueError", OVERRUN), f"{label} cut@{k}: expected overrun, got {got!r}")
    # extra trailing bytes are ignored, not an error
    agree(fcp, name, enc + bytearray([0xAA, 0x55]), label + " +trailing")
    return enc


def timed(fcp, name, data, label, limit=0.75, mem_limit=8 << 20):
    tracemalloc.start()
    t0 = time.perf_counter()
    got = outcome(decode, fcp, name, bytearray(data))
    dt = time.perf_counter() - t0
    _, peak = tracemalloc.get_traced_memory()
    tracemalloc.stop()
    check(dt < limit, f"{label}: took {dt:.2f}s")
    check(peak < mem_limit, f"{label}: peak memory {peak} bytes")
    exp = outcome(ref_decode, fcp, name, bytearray(data))
    check(got == exp, f"{label}: {got!r} vs reference {exp!r}")
    return got


def u32(n):
    return bytearray(pystruct.pack("<I", n))


HUGE = [2**32 - 1, 2**32 - 2, 2**31, 2**31 - 1, 2**24, 65536, 65535, 256, 255]


def length_prefixes(basic, dyn, rich):
    # aligned string prefix
    for n in HUGE:
        for behind in (0, 1, 7, 200):
            got = timed(basic, "S5", u32(n) + bytearray(b"a" * behind), f"S5 len={n} behind={behind}")
            check(got == ("err", "ValueError", OVERRUN), f"S5 len={n} behind={behind}: {got!r}")
    # off-by-one around the real length
    for real in (0, 1, 5, 64):
        for n in (real + 1, real + 2, real + 255):
            got = timed(basic, "S5", u32(n) + bytearray(b"b" * real), f"S5 len={n} real={real}")
            check(got == ("err", "ValueError", OVERRUN), f"S5 len={n} real={real}: {got!r}")
        got = timed(basic, "S5", u32(real) + bytearray(b"b" * real), f"S5 exact {real}")
        check(got == ("ok", {"s0": "b" * real}), f"S5 exact {real}: {got!r}")
    # dynamic arrays of scalars and of structs that themselves hold dynamic arrays
    for n in HUGE:
        for behind in (0, 3, 100):
            got = timed(dyn, "S1", u32(n) + bytearray([7] * behind), f"[u8] len={n} behind={behind}")
            check(got == ("err", "ValueError", OVERRUN), f"[u8] len={n} behind={behind}: {got!r}")
            got = timed(dyn, "S2", u32(n) + u32(0) * (behind // 4), f"[S1] len={n} behind={behind}")
            check(got == ("err", "ValueError", OVERRUN), f"[S1] len={n} behind={behind}: {got!r}")
            got = timed(dyn, "S2", u32(1) + u32(n) + bytearray([1] * behind), f"[S1][u8] len={n} behind={behind}")
            check(got == ("err", "ValueError", OVERRUN), f"[S1][u8] len={n}: {got!r}")
    # unaligned prefixes: Strs has a u5 in front of the array count, Outer has them everywhere
    enc = encode(rich, "Strs", {"n": 21, "xs": ["ab", "", "cde"], "last": "z"})
    for n in HUGE:
        # rewrite the 32 bits of the first count, which start at bit 5
        word = int.from_bytes(enc, "little")
        mask = ((1 << 32) - 1) << 5
        patched = (word & ~mask) | (n << 5)
        data = bytearray(patched.to_bytes(len(enc), "little"))
        got = timed(rich, "Strs", data, f"Strs count={n}")
        check(got[0] == "err" and got[1] in ("ValueError", "UnicodeDecodeError"), f"Strs count={n}: {got!r}")
        got = timed(rich, "Strs", data[:5], f"Strs count={n} nothing behind")
        check(got == ("err", "ValueError", OVERRUN), f"Strs count={n} nothing behind: {got!r}")


def fuzz(cases, rounds):
    rnd = random.Random(1616)
    for fcp, name, enc, label in cases:
        for r in range(rounds):
            data = bytearray(enc)
            kind = rnd.randrange(4)
            if kind == 0 and data:
                for _ in range(rnd.randrange(1, 4)):
                    data[rnd.randrange(len(data))] = rnd.randrange(256)
            elif kind == 1 and data:
                i = rnd.randrange(len(data))
                data[i] ^= 1 << rnd.randrange(8)
                data = data[: rnd.randrange(len(data) + 1)]
            elif kind == 2:
                data = bytearray(rnd.randrange(256) for _ in range(rnd.randrange(0, 24)))
                # keep counts small-ish most of the time so the data is explored deeper
                if len(data) > 4 and rnd.randrange(2):
                    data[1:4] = b"\0\0\0"
            else:
                data = data[: rnd.randrange(len(data) + 1)] + bytearray(rnd.randrange(256) for _ in range(rnd.randrange(3)))
            t0 = time.perf_counter()
            agree(fcp, name, data, f"fuzz {label} #{r}")
            check(time.perf_counter() - t0 < 5.0, f"fuzz {label} #{r}: slow")


def repeated_and_aliasing(tmp, rich):
    # same call twice gives equal, independent objects
    v = next(rich_values())
    enc = encode(rich, "Outer", v)
    first = decode(rich, "Outer", enc)
    second = decode(rich, "Outer", enc)
    check(same(first, second), "repeat: second call differs")
    first["items"].append("poison")
    first["grid"][0][0] = 99
    third = decode(rich, "Outer", enc)
    check(same(second, third), "repeat: result aliases an earlier result")
    check(enc == encode(rich, "Outer", v), "repeat: input bytes were modified")

    # two schemas that use the same struct names with different layouts, alternately
    one = load('version: "3"\n\nstruct P {\n    a @ 0: u8,\n    b @ 1: u8,\n}\n\nstruct Q {\n    ps @ 0: [P],\n}\n', tmp, "one.fcp")
    two = load('version: "3"\n\nstruct P {\n    b @ 0: u16,\n}\n\nstruct Q {\n    ps @ 0: [P],\n}\n', tmp, "two.fcp")
    data = u32(2) + bytearray([1, 2, 3, 4])
    for _ in range(3):
        check(agree(one, "Q", data, "alias one") == ("ok", {"ps": [{"a": 1, "b": 2}, {"a": 3, "b": 4}]}), "alias one value")
        check(agree(two, "Q", data, "alias two") == ("ok", {"ps": [{"b": 0x0201}, {"b": 0x0403}]}), "alias two value")
        check(agree(two, "Q", data[:7], "alias two cut")[0] == "err", "alias two cut")

    # schema edited between calls: the next call must see the new layout
    p = one.get_struct("P").unwrap()
    p.fields.append(StructField(name="c", field_id=2, type=UnsignedType("u8")))
    got = agree(one, "Q", data, "edited schema")
    check(got == ("err", "ValueError", OVERRUN), f"edited schema: {got!r}")
    got = agree(one, "Q", u32(1) + bytearray([1, 2, 3]), "edited schema ok")
    check(got == ("ok", {"ps": [{"a": 1, "b": 2, "c": 3}]}), f"edited schema ok: {got!r}")
    p.fields.sort(key=lambda f: -f.field_id)
    p.fields[0].field_id = -1  # c now comes first on the wire
    got = agree(one, "Q", u32(1) + bytearray([1, 2, 3]), "reordered schema")
    check(got == ("ok", {"ps": [{"c": 1, "a": 2, "b": 3}]}), f"reordered schema: {got!r}")


def odd_schemas():
    fcp = hand_built()
    # A: x(u4) x2(i4) y(u8) y(u16) -> later 'y' overwrites, key order x, x2, y
    got = agree(fcp, "A", bytearray([0x9F, 0x11, 0x34, 0x12]), "hand A")
    check(got == ("ok", {"x": 15, "x2": -7, "y": 0x1234}), f"hand A: {got!r}")
    for k in range(4):
        got = agree(fcp, "A", bytearray([0x9F, 0x11, 0x34, 0x12])[:k], f"hand A cut@{k}")
        check(got == ("err", "ValueError", OVERRUN), f"hand A cut@{k}: {got!r}")
    # B: array of A, then a 4 bit enum, then a struct that does not exist
    body = u32(2) + bytearray([0x21, 1, 2, 3, 0x43, 4, 5, 6])
    got = agree(fcp, "B", body + bytearray([0x0F]), "hand B missing struct")
    check(got[0] == "err" and got != ("err", "ValueError", OVERRUN), f"hand B: {got!r}")
    for k in range(len(body) + 1):
        got = agree(fcp, "B", body[:k], f"hand B cut@{k}")
        check(got == ("err", "ValueError", OVERRUN), f"hand B cut@{k}: {got!r}")
    agree(fcp, "C", bytearray([1, 2, 3]), "hand C unknown enum")
    agree(fcp, "C", bytearray(), "hand C unknown enum, empty")
    got = agree(fcp, "D", bytearray([1, 2, 3]), "hand D unknown type")
    check(got == ("err", "ValueError", "Unmatched type"), f"hand D: {got!r}")
    got = agree(fcp, "D", bytearray(), "hand D empty")
    check(got == ("err", "ValueError", OVERRUN), f"hand D empty: {got!r}")
    agree(fcp, "Nope", bytearray([1, 2, 3]), "unknown root struct")
    for n in HUGE[:4]:
        got = timed(fcp, "B", u32(n) + bytearray([0x21, 1]), f"hand B len={n}")
        check(got == ("err", "ValueError", OVERRUN), f"hand B len={n}: {got!r}")


def main():
    with tempfile.TemporaryDirectory() as tmp:
        rich = load(RICH, tmp, "rich.fcp")
        basic = repo_schema("001_basic_struct")
        comp = repo_schema("004_struct_composition")
        arr = repo_schema("007_simple_array_type")
        dyn = repo_schema("008_dynamic_array")
        opt = repo_schema("009_optional")

        cases = []

        def add(fcp, name, value, label):
            cases.append((fcp, name, truncations(fcp, name, value, label), label))

        add(basic, "S1", {"s0": 255, "s1": -127, "s2": 65535, "s3": -32767, "s4": 2**32 - 1, "s5": -(2**31) + 1,
                          "s6": 2**64 - 1, "s7": -(2**63) + 1, "s8": 1.0, "s9": -1e300, "s10": "hello world"}, "S1 max")
        add(basic, "S1", {"s0": 0, "s1": 0, "s2": 0, "s3": 0, "s4": 0, "s5": 0, "s6": 0, "s7": 0,
                          "s8": 0.0, "s9": float("nan"), "s10": ""}, "S1 zero")
        add(basic, "S2", {"s0": 1, "s1": -1}, "S2")
        add(basic, "S3", {"s0": 1, "s1": 2**63}, "S3")
        add(basic, "S4", {"s0": 1.0, "s1": 1.0}, "S4")
        for t in ("", "a", "hello", "\x00\x7f" * 9, "x" * 300):
            add(basic, "S5", {"s0": t}, f"S5 {len(t)}")
        add(comp, "baz", {"var": {"var1": 1, "var2": 254}}, "baz")
        add(arr, "S1", {"field1": [1, 2, 3, 255]}, "arr")
        for xs in ([], [9], [1, 2, 3], list(range(256))):
            add(dyn, "S1", {"field1": xs}, f"dyn {len(xs)}")
        add(dyn, "S2", {"field1": [{"field1": [1, 2]}, {"field1": []}, {"field1": [3]}]}, "dyn S2")
        add(dyn, "S2", {"field1": []}, "dyn S2 empty")
        add(opt, "S1", {"field1": 200}, "opt some")
        add(opt, "S1", {"field1": None}, "opt none")
        for i, v in enumerate(rich_values()):
            add(rich, "Outer", v, f"Outer#{i}")
        add(rich, "Strs", {"n": 31, "xs": ["ab", "", "cde" * 5], "last": "zz"}, "Strs")
        add(rich, "Strs", {"n": 0, "xs": [], "last": ""}, "Strs empty")
        add(rich, "Inner", inner(7, 5, -15, "n"), "Inner")
        add(rich, "Leaf", {"w": 1000, "k": 1}, "Leaf")
        add(rich, "Odd", {"a": 0, "b": 2**99 - 1, "c": -5, "d": 0, "e": [0, 0, 0], "g": 3}, "Odd wide")
        add(rich, "Odd", {"a": 0, "b": 1, "c": 2**64 - 1, "d": 0, "e": [0, 0, 0], "g": 0}, "Odd small")

        # non-zero optional flags other than 1 still mean "present"
        for flag in (1, 2, 0x80, 0xFF):
            got = agree(opt, "S1", bytearray([flag, 5]), f"opt flag {flag}")
            check(got == ("ok", {"field1": 5}), f"opt flag {flag}: {got!r}")
            got = agree(opt, "S1", bytearray([flag]), f"opt flag {flag} cut")
            check(got == ("err", "ValueError", OVERRUN), f"opt flag {flag} cut: {got!r}")
        # non ascii string bytes are an error, but not an overrun
        got = agree(basic, "S5", u32(2) + bytearray([0x41, 0x80]), "non ascii")
        check(got[0] == "err" and got[1] == "UnicodeDecodeError", f"non ascii: {got!r}")
        got = agree(basic, "S5", u32(3) + bytearray([0x41, 0x80]), "non ascii, short")
        check(got == ("err", "ValueError", OVERRUN), f"non ascii, short: {got!r}")
        # bytes / bytearray input, and the input is left alone
        src = bytearray([1, 255])
        check(decode(basic, "S2", src) == {"s0": 1, "s1": -1} and src == bytearray([1, 255]), "input modified")
        check(decode(basic, "S2", bytes([1, 255])) == {"s0": 1, "s1": -1}, "bytes input")

        length_prefixes(basic, dyn, rich)
        fuzz(cases, 40)
        repeated_and_aliasing(tmp, rich)
        odd_schemas()

    if failures:
        print(f"FAIL: {len(failures)} of {checks} checks failed")
        return 1
    print(f"PASS ({checks} checks)")
    return 0


if __name__ == "__main__":
    sys.exit(main())
