#!/venv/bin/python
"""C04 demo 2: leaves follow ascending field id at EVERY nesting level (the
declaration order in the schema is irrelevant), start at bit 0 and tile the
message; options stay on the leaf of the field they were declared for.

Run with PYTHONPATH pointing at the worktree (src + plugins).
Prints PASS / exits 0 when the property holds, FAIL / exits 1 otherwise.
"""
import sys

from fcp.parser import get_fcp_from_string
from fcp.encoding import make_encoder, PackedEncoderContext
from fcp.specs.type import ArrayType, StructType, EnumType

SRC = """version: "3"

enum Mode {
    Off = 0,
    On = 1,
    Fault = 2,
}

/* 'crc' was added to the front of the wire format later on: it is declared
   last but carries the lowest field id */
struct Header {
    counter @1: u4,
    mode @2: Mode,
    crc @0: u8,
}

struct Cell {
    temperature @1: i12,
    voltage @0: u10,
}

struct Pack {
    header @0: Header,
    cells @1: [Cell, 2],
    current @3: i16,
    soc @2: u7,
}

impl can for Pack {
    id: 10,

    signal crc {
        endianess: "big",
    },
}

struct Summary {
    soc @1: u7,
    header @0: Header,
    raw @2: [u8, 2],
}

impl can for Summary {
    id: 11,
}
"""

# arrays of structs can only be laid out unrolled (the packed encoder has never
# supported them as one opaque value), so Pack is only checked unrolled
MODES = {"Pack": (True,), "Summary": (True, False)}


def enum_width(fcp, name):
    m = max(e.value for e in fcp.get_enum(name).unwrap().enumeration)
    return max(1, m.bit_length())


def expected(fcp, impl, unroll):
    """Reference layout: list of (name, start, width, options)."""
    out = []
    pos = [0]

    def opts(name):
        for s in impl.signals:
            if s.name == name:
                return s.fields
        return {}

    def width(t):
        if isinstance(t, ArrayType):
            return t.size * width(t.underlying_type)
        if isinstance(t, EnumType):
            return enum_width(fcp, t.name)
        return int(t.name[1:])

    def field(name, t, prefix):
        if isinstance(t, StructType):
            struct(t.name, prefix + name + "::")
        elif isinstance(t, ArrayType) and unroll:
            for i in range(t.size):
                field(name + "_" + str(i), t.underlying_type, prefix)
        else:
            w = width(t)
            out.append((prefix + name, pos[0], w, opts(name)))
            pos[0] += w

    def struct(name, prefix):
        s = fcp.get_struct(name).unwrap()
        for f in sorted(s.fields, key=lambda f: f.field_id):
            field(f.name, f.type, prefix)

    struct(impl.type, "")
    return out


def compare(fcp, impl, got, unroll):
    exp = expected(fcp, impl, unroll)
    errs = []
    if len(got) != len(exp):
        errs.append("leaf count %d != %d" % (len(got), len(exp)))
    for v, (name, start, w, options) in zip(got, exp):
        if (v.name, v.bitstart, v.bitlength) != (name, start, w):
            errs.append(
                "layout %r != expected %r"
                % ((v.name, v.bitstart, v.bitlength), (name, start, w))
            )
        if dict(v.extended_data) != dict(options):
            errs.append(
                "options of %s: %r, declared %r" % (v.name, v.extended_data, options)
            )
        if v.endianess != (options.get("endianess") or "little"):
            errs.append("byte order of %s is %r" % (v.name, v.endianess))
    names = [v.name for v in got]
    if len(set(names)) != len(names):
        errs.append("duplicate names: %r" % names)
    return errs


def main():
    fcp = get_fcp_from_string(SRC).unwrap()
    errs = []
    for unroll in (True, False):
        encoder = make_encoder(
            "packed", fcp, PackedEncoderContext().with_unroll_arrays(unroll)
        )
        for impl in fcp.get_matching_impls("can"):
            if unroll not in MODES[impl.name]:
                continue
            got = encoder.generate(impl)
            for e in compare(fcp, impl, got, unroll):
                errs.append("unroll=%s %s: %s" % (unroll, impl.name, e))

    if errs:
        for e in errs:
            print(e)
        print("FAIL")
        return 1
    print("PASS")
    return 0


if __name__ == "__main__":
    sys.exit(main())
