#!/venv/bin/python
"""C07 demo 2: one default binding per struct, also for structs that come from a module.

A schema split over two files (`mod sensors;`) must parse to the same tree as
the same declarations written in a single file: the declared structs and
bindings in source order plus exactly one `default` binding per struct.
"""
import pathlib
import sys
import tempfile

from fcp.parser import get_fcp

SENSORS = """
struct Temperature {
    value @0: f32 | unit("C"),
    sensor @1: u8,
}

impl can for Temperature {
    id: 100,
    signal value {
        mux_count: 4,
        mux_signal: "sensor",
    },
}

struct Pressure {
    value @0: u16,
}
"""

MAIN = """
struct Status {
    temperature @0: Temperature,
    pressure @1: [Pressure, 2],
}

impl can for Status as StatusFrame {
    id: 101,
}
"""

VERSION = 'version: "3"\n'


def summary(fcp):
    return {
        "structs": [s.name for s in fcp.structs],
        "impls": [
            (i.name, i.protocol, i.type, dict(i.fields), [s.name for s in i.signals])
            for i in fcp.impls
        ],
    }


def parse(directory: pathlib.Path, files: dict, entry: str):
    for name, text in files.items():
        (directory / name).write_text(text)
    result = get_fcp(directory / entry)
    if result.is_err():
        print("FAIL: schema rejected:", result.err())
        sys.exit(1)
    return result.unwrap()


def main() -> int:
    with tempfile.TemporaryDirectory() as tmp:
        tmp = pathlib.Path(tmp)
        (tmp / "split").mkdir()
        (tmp / "single").mkdir()

        split = parse(
            tmp / "split",
            {
                "main.fcp": VERSION + "\nmod sensors;\n" + MAIN,
                "sensors.fcp": VERSION + SENSORS,
            },
            "main.fcp",
        )
        single = parse(
            tmp / "single", {"main.fcp": VERSION + SENSORS + MAIN}, "main.fcp"
        )

    ok = True

    for label, fcp in (("single file", single), ("with module", split)):
        for struct in fcp.structs:
            defaults = [
                i
                for i in fcp.impls
                if i.protocol == "default" and i.type == struct.name
            ]
            if len(defaults) != 1:
                print(
                    f"FAIL ({label}): struct {struct.name} has {len(defaults)} "
                    "default bindings, expected exactly 1"
                )
                ok = False

    if summary(split) != summary(single):
        print("FAIL: the schema with a module differs from the single file schema")
        print("   single file:", summary(single)["impls"])
        print("   with module:", summary(split)["impls"])
        ok = False

    if not ok:
        return 1
    print("PASS")
    return 0


if __name__ == "__main__":
    sys.exit(main())
