#!/usr/bin/env python
"""C19 demo 3: a message that becomes due exactly one period after a send, across the 32-bit timer wrap.

Run with PYTHONPATH pointing at the worktree (src and the plug-in directories).
Prints PASS / exits 0 when the generated scheduler honours the periods on this
input, prints FAIL / exits 1 otherwise.
"""

# (struct/impl name, frame id, device, period or None) in schema order.
SCHEMA = [
    ("Pedals", 10, "ecu", 15),
    ("Shutdown", 11, "ecu", 20),
    ("Button", 12, "ecu", None),
]
DEVICE = "ecu"
# 0xFFFFFFFA + 15 wraps to 9: Pedals was sent at 0xFFFFFFFA and is due again at
# 9, exactly one period later; Shutdown is due at 0xFFFFFFFA + 20 = 14.
TIMES = [0, 15, 20, 0xFFFFFFFA, 0xFFFFFFFF, 8, 9, 14, 23, 24, 34]

# ---------------------------------------------------------------------------
# Generic part: generate the C code for SCHEMA with the fcp_can_c plug-in,
# drive the generated scheduler of DEVICE through the call history TIMES and
# compare every call with the reference model of the property:
#
#   a message with period P is transmitted on a call exactly when the
#   timestamp differs from the previous call's and at least P time units
#   (32-bit wrapping) have elapsed since its previous transmission (since time
#   0 for the first); messages without a period are never sent; every frame
#   sent is the encoding of the device's current value of that message.
# ---------------------------------------------------------------------------
import os
import re
import subprocess
import sys
import tempfile
from pathlib import Path

from fcp.parser import get_fcp
from fcp_can_c import Generator

MASK = 0xFFFFFFFF


def snake(name):
    return "".join("_" + c.lower() if c.isupper() else c for c in name).lstrip("_")


def schema_text():
    out = ['version: "3"', ""]
    for name, frame_id, device, period in SCHEMA:
        out.append("struct %s {\n    a @0: u8,\n    b @1: u8,\n}\n" % name)
        out.append("impl can for %s {" % name)
        out.append("    id: %d," % frame_id)
        out.append('    device: "%s",' % device)
        if period is not None:
            out.append("    period: %d," % period)
        out.append("}\n")
    return "\n".join(out)


def harness_text(mine):
    lines = [
        '#include "%s_can.h"' % DEVICE,
        "#include <stdio.h>",
        "#include <string.h>",
        "static int k;",
        "static void show(const char *tag, const CanFrame *f) {",
        '    printf("%s %d %u", tag, k, (unsigned) f->id);',
        '    for (int i = 0; i < 8; i++) printf(" %02x", f->data[i]);',
        '    printf("\\n");',
        "}",
        'static void sender(const CanFrame *f) { show("S", f); }',
        "int main(void) {",
        "    static const uint32_t times[] = {%s};" % ", ".join("%uu" % t for t in TIMES),
        "    CanDevice%s dev;" % DEVICE.capitalize(),
        "    memset(&dev, 0, sizeof dev);",
        "    for (k = 0; k < %d; k++) {" % len(TIMES),
    ]
    for n, (name, frame_id, _device, _period) in enumerate(mine):
        s = snake(name)
        lines += [
            "#ifdef CAN_MSG_ID_%s" % s.upper(),
            "        dev.%s.a = (uint8_t) (k * 7 + %d);" % (s, 16 * n + 1),
            "        dev.%s.b = (uint8_t) (k * 3 + %d);" % (s, 16 * n + 2),
            "        { CanFrame e = can_encode_msg_%s(&dev.%s); e.id = %d; show(\"E\", &e); }"
            % (s, s, frame_id),
            "#endif",
        ]
    lines += [
        "        can_send_%s_msgs_scheduled(&dev, times[k], sender);" % DEVICE,
        "    }",
        "    return 0;",
        "}",
    ]
    return "\n".join(lines) + "\n"


def main():
    mine = [m for m in SCHEMA if m[2] == DEVICE]
    with tempfile.TemporaryDirectory() as tmp:
        fcp_file = Path(tmp) / "test.fcp"
        fcp_file.write_text(schema_text())
        fcp = get_fcp(fcp_file).unwrap()
        out = os.path.join(tmp, "generated_code")
        Generator().gen(fcp, None, None, out)
        (Path(tmp) / "harness.c").write_text(harness_text(mine))
        sources = [os.path.join(tmp, "harness.c")] + sorted(
            str(p) for p in Path(out).glob("*.c")
        )
        exe = os.path.join(tmp, "harness")
        cc = subprocess.run(
            ["gcc", "-std=gnu11", "-O1", "-w", "-I", out, "-o", exe] + sources,
            capture_output=True,
            text=True,
        )
        if cc.returncode != 0:
            print(cc.stderr)
            print("FAIL: the generated code for device %r does not compile" % DEVICE)
            return 1
        run = subprocess.run([exe], capture_output=True, text=True, timeout=60)
        if run.returncode != 0:
            print(run.stdout, run.stderr)
            print("FAIL: harness crashed (exit %d)" % run.returncode)
            return 1

    sent = [[] for _ in TIMES]
    current = [{} for _ in TIMES]
    for line in run.stdout.splitlines():
        tag, k, frame_id, *data = line.split()
        if tag == "S":
            sent[int(k)].append((int(frame_id), " ".join(data)))
        else:
            current[int(k)][int(frame_id)] = " ".join(data)

    problems = []
    last_call = 0
    last_send = {m[1]: 0 for m in mine}
    for k, t in enumerate(TIMES):
        expected = []
        if t != last_call:
            last_call = t
            for name, frame_id, _device, period in mine:
                if period in (None, -1):
                    continue
                if ((t - last_send[frame_id]) & MASK) >= period:
                    last_send[frame_id] = t
                    if frame_id not in current[k]:
                        problems.append(
                            "call %d (t=%d): %s is missing from the generated device"
                            % (k, t, name)
                        )
                        continue
                    expected.append((frame_id, current[k][frame_id]))
        if sorted(expected) != sorted(sent[k]):
            problems.append(
                "call %d (t=%d): expected frames %s, scheduler sent %s"
                % (k, t, sorted(expected), sorted(sent[k]))
            )

    for p in problems:
        print(p)
    if problems:
        print("FAIL")
        return 1
    print("PASS")
    return 0


if __name__ == "__main__":
    sys.exit(main())
