#!/venv/bin/python
"""Demo for property C03 (generated C++ static codec speaks the canonical wire format).

Generates the C++ headers for SCHEMA with the fcp_cpp plug-in found on
PYTHONPATH, compiles a small driver (g++ -std=c++17) that encodes every case
through StaticSchema::EncodeJson and decodes the canonical bytes through
StaticSchema::DecodeJson, and compares both with the Python codec (fcp.serde).
Prints PASS / exits 0 when everything agrees, FAIL / exits 1 otherwise.
"""
import json, os, shutil, subprocess, sys, tempfile
from pathlib import Path

from fcp.parser import get_fcp_from_string
from fcp.serde import encode as py_encode, decode as py_decode
from fcp_cpp import Generator

DRIVER = r'''
#include <cmath>
#include <limits>
#include <iostream>
#include <fstream>
#include <stdexcept>
#include "fcp.h"
using json = nlohmann::json;
int main(int argc, char** argv) {
    std::ifstream f(argv[1]);
    json cases = json::parse(f);
    json out = json::array();
    fcp::StaticSchema schema{};
    for (auto& c : cases) {
        json r;
        try {
        auto bytes = schema.EncodeJson(c["name"].get<std::string>(), c["value"]);
        if (!bytes.has_value()) { r["error"] = "no encoder"; out.push_back(r); continue; }
        r["bytes"] = bytes.value();
        std::vector<std::uint8_t> wire = c["wire"].get<std::vector<std::uint8_t>>();
        auto dec = schema.DecodeJson(c["name"].get<std::string>(), wire);
        r["decoded"] = dec.has_value() ? dec.value() : json();
        } catch (const std::exception& e) { r = json(); r["error"] = std::string("exception: ") + e.what(); }
        out.push_back(r);
    }
    std::cout << out.dump() << std::endl;
    return 0;
}
'''

def run(schema, cases):
    """cases: list of (struct_name, value dict[, canonical bytes]). Returns list of problems."""
    d = Path(tempfile.mkdtemp(prefix="c03demo"))
    try:
        return _run(d, schema, cases)
    finally:
        shutil.rmtree(d, ignore_errors=True)


def _run(d, schema, cases):
    fcp = get_fcp_from_string(schema).unwrap()
    for r in Generator().generate(fcp, {"output": str(d)}):
        (d / Path(r["path"]).name).write_text(str(r["contents"]))
    (d / "main.cpp").write_text(DRIVER)
    cc = subprocess.run(["g++", "-std=c++17", "-O0", "-w", "-isystem", "/root/miniconda/include",
                         "-I", str(d), str(d / "main.cpp"), "-o", str(d / "main")],
                        capture_output=True, text=True)
    if cc.returncode != 0:
        return ["generated C++ does not compile:\n" + cc.stderr[:3000]]
    jcases = []
    for name, value, *expected in cases:
        # canonical bytes: from the Python codec unless given explicitly
        wire = list(expected[0]) if expected else list(py_encode(fcp, name, value))
        jcases.append({"name": name, "value": value, "wire": wire})
    (d / "cases.json").write_text(json.dumps(jcases))
    p = subprocess.run([str(d / "main"), str(d / "cases.json")], capture_output=True, text=True)
    if p.returncode != 0:
        return ["driver crashed: rc=%d %s" % (p.returncode, p.stderr[:1000])]
    res = json.loads(p.stdout)
    problems = []
    for c, r in zip(jcases, res):
        if "error" in r:
            problems.append("%s: %s" % (c["name"], r["error"])); continue
        if r["bytes"] != c["wire"]:
            problems.append("%s %s: C++ bytes %s != canonical %s" % (c["name"], c["value"], r["bytes"], c["wire"]))
        dec = r["decoded"]
        if dec is not None:
            dec = {k: v for k, v in dec.items() if k != "__is_method_input"}
        if dec != c["value"]:
            problems.append("%s: C++ decode of canonical bytes %s != %s" % (c["name"], dec, c["value"]))
    return problems


SCHEMA = """version: "3"

struct Wide {
    flag @0: u3,
    stamp @1: u40,
    offset @2: i48,
    counter @3: u64,
    delta @4: i64,
    small @5: u32,
    tiny @6: i17,
}
"""

CASES = [
    # values that fit in 31 bits
    ("Wide", {"flag": 5, "stamp": 123456, "offset": 98765, "counter": 1000000,
              "delta": 424242, "small": 77, "tiny": -3}),
    # in-range values that use the upper bits of the wide fields
    ("Wide", {"flag": 7, "stamp": 2**40 - 2, "offset": -(2**47) + 1, "counter": 2**64 - 1,
              "delta": -(2**62) - 12345, "small": 2**32 - 1, "tiny": -65536}),
    ("Wide", {"flag": 1, "stamp": 2**35 + 1, "offset": 2**40 + 2**20, "counter": 2**63 + 2**31,
              "delta": 2**62 + 5, "small": 2**31, "tiny": 65535}),
]

if __name__ == "__main__":
    problems = run(SCHEMA, CASES)
    for p in problems:
        print(p)
    if problems:
        print("FAIL")
        sys.exit(1)
    print("PASS")
    sys.exit(0)
