#!/venv/bin/python
"""Differential demo for property C05.

    Generated DBC describes exactly the packed layout of every CAN binding.

The demo builds CAN schemas (hand written ones, the repository's own DBC test
schemas and a few hundred seeded random ones), computes the packed layout with
its OWN model of the rules (declaration sorted by field id, back-to-back bits,
arrays unrolled, nested structs flattened, enum width from the largest value),
generates the DBC through fcp_dbc.Generator and then

  * reads every generated file with an independent regex based DBC reader and
    compares messages (frame id, name, length) and signals (start, width, byte
    order, sign, float/double value type, unit, multiplexing, bus nodes) with
    the model,
  * loads the same text with cantools, packs frames with its own bit packer
    from boundary and random values and checks that they decode to the
    original values,
  * checks that every bus file holds exactly the messages bound to that bus,
  * checks the error behaviour (type and text of the exception) on bad inputs,
  * checks a digest of everything generated against the value recorded on the
    unchanged tree, so any textual drift of the output is noticed,
  * exercises the packed encoder directly (repeated calls, rolled arrays,
    state after a failure).

Run with the PYTHONPATH of the worktree (see meta.json).  `--record` prints the
golden values instead of checking them.
"""

import hashlib
import math
import os
import random
import re
import struct
import sys
from pathlib import Path

import cantools

from fcp.parser import get_fcp_from_string
from fcp.encoding import make_encoder, PackedEncoder, PackedEncoderContext, Value
from fcp.specs.type import (
    ArrayType,
    EnumType,
    StructType,
    UnsignedType,
    SignedType,
    FloatType,
    DoubleType,
)
from fcp.specs.struct import Struct
from fcp.specs.struct_field import StructField
from fcp.specs.enum import Enum, Enumeration
from fcp.specs.impl import Impl
from fcp.specs.v2 import FcpV2
from fcp_dbc import Generator

FCP_ROOT = os.environ.get("FCP_ROOT", "/tmp/twin3-C05")
RECORD = "--record" in sys.argv

GOLDEN = {
    "digest": '90755682d37e1b0dedaeb8fe2a7cacec96705e42483ac14fa8b61d8fb8e36384',
    "errors": """\
bus_is_list -> TypeError: unhashable type: 'list'
bus_is_list_and_id_12_bits -> TypeError: unhashable type: 'list'
device_is_list -> TypeError: expected string or bytes-like object, got 'list'
dynamic_array_in_array -> ValueError: Error computing type length for type DynamicArrayType(underlying_type=UnsignedType(name='u8', type='unsigned'), type='DynamicArray')
empty_layout -> IndexError: list index out of range
first_ok_second_too_big -> ValueError: Message B too big. Current length: 128
id_12_bits -> Error: Standard frame id 0x1000 is more than 11 bits in message Foo.
mux_count_is_text -> TypeError: 'str' object cannot be interpreted as an integer
no_id -> UnwrapError: No id field found in extension
no_id_and_too_big -> ValueError: Message Foo too big. Current length: 72
not_can -> ok nothing
odd_endianess -> Error: The signal s2 does not fit in message Foo.
optional_field -> ValueError: Error computing type length for type OptionalType(underlying_type=UnsignedType(name='u8', type='unsigned'), type='Optional')
second_has_no_id -> UnwrapError: No id field found in extension
str_field -> ValueError: Error computing type length for type StringType(type='str')
too_big -> ValueError: Message Foo too big. Current length: 72
too_big_65 -> ValueError: Message Foo too big. Current length: 65
too_big_array -> ValueError: Message Foo too big. Current length: 65
unknown_type -> UnwrapError: Called `Maybe.unwrap()` on a `Nothing` value""",
}

failures = []
checks = 0


def check(cond, what):
    global checks
    checks += 1
    if not cond:
        failures.append(what)
        if len(failures) <= 25:
            print("FAIL:", what)


# --------------------------------------------------------------------------
# schema model
#
# type  := ("u", n) | ("i", n) | ("f32",) | ("f64",) | ("enum", name)
#        | ("struct", name) | ("array", type, size)
# struct := name -> [(field name, field id, type, unit or None)]   (any order)
# enum   := name -> [(member, value)]
# impl   := dict(type, name or None, id, bus or None, device or None,
#                signals={field: {key: value}})
# --------------------------------------------------------------------------


def type_text(t):
    if t[0] in ("u", "i"):
        return "%s%d" % (t[0], t[1])
    if t[0] in ("f32", "f64"):
        return t[0]
    if t[0] in ("enum", "struct"):
        return t[1]
    return "[%s, %d]" % (type_text(t[1]), t[2])


def value_text(v):
    if isinstance(v, str):
        return '"%s"' % v
    if isinstance(v, list):
        return "[" + ", ".join(value_text(x) for x in v) + "]"
    return str(v)


def schema_text(enums, structs, impls):
    out = ['version: "3"', ""]
    for name, members in enums.items():
        out.append("enum %s {" % name)
        for member, value in members:
            out.append("    %s = %d," % (member, value))
        out.append("}")
    for name, fields in structs.items():
        out.append("struct %s {" % name)
        for fname, fid, ftype, unit in fields:
            line = "    %s @%d: %s" % (fname, fid, type_text(ftype))
            if unit is not None:
                line += ' | unit("%s")' % unit
            out.append(line + ",")
        out.append("}")
    for impl in impls:
        head = "impl can for %s" % impl["type"]
        if impl.get("name"):
            head += " as %s" % impl["name"]
        out.append(head + " {")
        for key in ("id", "bus", "device"):
            if impl.get(key) is not None:
                out.append("    %s: %s," % (key, value_text(impl[key])))
        for sname, sfields in impl.get("signals", {}).items():
            out.append("    signal %s {" % sname)
            for key, value in sfields.items():
                out.append("        %s: %s," % (key, value_text(value)))
            out.append("    },")
        out.append("}")
    return "\n".join(out) + "\n"


def enum_width(members):
    biggest = max(value for _, value in members)
    if biggest in (0, 1):
        return 1
    return biggest.bit_length()


class Leaf:
    def __init__(self, name, kind, start, width, unit, options):
        self.name = name  # DBC name
        self.kind = kind  # "u", "i", "f32", "f64", "enum"
        self.start = start  # first (least significant) bit of the packed layout
        self.width = width
        self.unit = unit
        self.big = options.get("endianess") == "big"
        self.options = options


def model_layout(enums, structs, impl):
    """Independent model of the packed layout of one binding."""
    leaves = []
    cursor = [0]

    def scalar(name, own_name, t, unit):
        if t[0] in ("u", "i"):
            width = t[1]
        elif t[0] == "f32":
            width = 32
        elif t[0] == "f64":
            width = 64
        else:
            width = enum_width(enums[t[1]])
        options = impl.get("signals", {}).get(own_name, {})
        leaves.append(Leaf(name, t[0], cursor[0], width, unit, options))
        cursor[0] += width

    def field(prefix, own_name, t, unit):
        if t[0] == "struct":
            walk(t[1], prefix + own_name + "_")
        elif t[0] == "array":
            for i in range(t[2]):
                field(prefix, "%s_%d" % (own_name, i), t[1], unit)
        else:
            scalar(prefix + own_name, own_name, t, unit)

    def walk(struct_name, prefix):
        for fname, _, ftype, unit in sorted(structs[struct_name], key=lambda f: f[1]):
            field(prefix, fname, ftype, unit)

    walk(impl["type"], "")
    return leaves


# --------------------------------------------------------------------------
# independent DBC reader
# --------------------------------------------------------------------------

BO_RE = re.compile(r"^BO_ (\d+) (\w+): (\d+) (\S+)$")
SG_RE = re.compile(
    r"^ SG_ (\w+)(?: (M|m\d+M?))? : (\d+)\|(\d+)@([01])([+-]) "
    r"\(([^,]+),([^)]+)\) \[([^|]*)\|([^\]]*)\] \"([^\"]*)\" +(\S+)$"
)
VALTYPE_RE = re.compile(r"^SIG_VALTYPE_ (\d+) (\w+) : (\d+);$")
MULVAL_RE = re.compile(r"^SG_MUL_VAL_ (\d+) (\w+) (\w+) ([\d\-, ]+);$")
NODES_RE = re.compile(r"^BU_:(.*)$")


def read_dbc(text):
    messages = {}
    order = []
    nodes = None
    current = None
    for line in text.split("\r\n"):
        m = BO_RE.match(line)
        if m:
            current = {
                "id": int(m.group(1)),
                "name": m.group(2),
                "length": int(m.group(3)),
                "signals": {},
                "count": 0,
            }
            check(current["id"] not in messages, "frame id listed twice in one file")
            messages[current["id"]] = current
            order.append(current["id"])
            continue
        m = SG_RE.match(line)
        if m:
            current["count"] += 1
            current["signals"][m.group(1)] = {
                "mux": m.group(2),
                "start": int(m.group(3)),
                "width": int(m.group(4)),
                "little": m.group(5) == "1",
                "signed": m.group(6) == "-",
                "scale": float(m.group(7)),
                "offset": float(m.group(8)),
                "unit": m.group(11),
                "valtype": 0,
                "mux_of": None,
                "mux_ranges": None,
            }
            continue
        if line.startswith(" SG_") or line.startswith("BO_ "):
            check(False, "unreadable line %r" % line)
        m = VALTYPE_RE.match(line)
        if m:
            messages[int(m.group(1))]["signals"][m.group(2)]["valtype"] = int(m.group(3))
            continue
        m = MULVAL_RE.match(line)
        if m:
            sig = messages[int(m.group(1))]["signals"][m.group(2)]
            sig["mux_of"] = m.group(3)
            sig["mux_ranges"] = [
                tuple(int(x) for x in part.strip().split("-"))
                for part in m.group(4).split(",")
            ]
            continue
        m = NODES_RE.match(line)
        if m:
            nodes = m.group(1).split()
    return messages, order, nodes


# --------------------------------------------------------------------------
# frame packing with the model, decoding with cantools
# --------------------------------------------------------------------------


def raw_bits(leaf, value):
    if leaf.kind == "f32":
        return struct.unpack("<I", struct.pack("<f", value))[0]
    if leaf.kind == "f64":
        return struct.unpack("<Q", struct.pack("<d", value))[0]
    return value & ((1 << leaf.width) - 1)


def pack_frame(leaves, values, length):
    data = bytearray(length)
    for leaf in leaves:
        raw = raw_bits(leaf, values[leaf.name])
        if leaf.big:
            # byte aligned whole bytes, most significant byte first
            first = leaf.start // 8
            data[first : first + leaf.width // 8] = raw.to_bytes(leaf.width // 8, "big")
        else:
            for bit in range(leaf.width):
                if (raw >> bit) & 1:
                    position = leaf.start + bit
                    data[position // 8] |= 1 << (position % 8)
    return bytes(data)


def leaf_values(leaf, rng):
    if leaf.kind == "f32":
        picks = [0.0, -1.5, 3.4028234663852886e38, 1.401298464324817e-45, 0.1]
        picks = [struct.unpack("<f", struct.pack("<f", p))[0] for p in picks]
        for _ in range(2):
            bits = rng.getrandbits(32)
            f = struct.unpack("<f", struct.pack("<I", bits))[0]
            if not (math.isnan(f) or math.isinf(f)):
                picks.append(f)
        return picks
    if leaf.kind == "f64":
        picks = [0.0, -2.25, 1.7976931348623157e308, 5e-324, 0.1]
        for _ in range(2):
            f = struct.unpack("<d", struct.pack("<Q", rng.getrandbits(64)))[0]
            if not (math.isnan(f) or math.isinf(f)):
                picks.append(f)
        return picks
    if leaf.kind == "i":
        lo, hi = -(1 << (leaf.width - 1)), (1 << (leaf.width - 1)) - 1
        return [lo, hi, 0, -1, 1 if hi >= 1 else 0] + [
            rng.randint(lo, hi) for _ in range(2)
        ]
    hi = (1 << leaf.width) - 1
    return [0, hi, 1 if hi >= 1 else 0, hi >> 1] + [rng.randint(0, hi) for _ in range(3)]


def roundtrip(db, impl, leaves, length, rng):
    message = db.get_message_by_frame_id(impl["id"])
    selector = None
    muxed = {}
    for leaf in leaves:
        if "mux_signal" in leaf.options:
            selector = leaf.options["mux_signal"]
            muxed[leaf.name] = leaf.options["mux_count"]
    columns = {leaf.name: leaf_values(leaf, rng) for leaf in leaves}
    rounds = max(len(c) for c in columns.values())
    for n in range(rounds):
        values = {name: column[n % len(column)] for name, column in columns.items()}
        if selector is not None:
            # keep the selector inside the muxed range so every signal is present
            values[selector] = n % min(muxed.values())
        data = pack_frame(leaves, values, length)
        try:
            decoded = message.decode(data, decode_choices=False, scaling=False)
        except Exception as exc:  # noqa: BLE001
            check(False, "%s: cantools cannot decode the frame: %s" % (impl["type"], exc))
            return
        check(
            set(decoded) == set(values),
            "%s: decoded signals %s != %s" % (impl["type"], sorted(decoded), sorted(values)),
        )
        for name, value in values.items():
            got = decoded.get(name)
            check(
                got == value and type(got) is type(value),
                "%s.%s: packed %r decoded %r" % (impl["type"], name, value, got),
            )
        encoded = message.encode(values, scaling=False, strict=False)
        check(bytes(encoded) == data, "%s: cantools packs the frame differently" % impl["type"])


# --------------------------------------------------------------------------
# one schema: generate, read back, compare
# --------------------------------------------------------------------------

digest = hashlib.sha256()


def generate(source):
    fcp = get_fcp_from_string(source).unwrap()
    return Generator().generate(fcp, {"output": "out"})


def impl_name(impl):
    return impl.get("name") or impl["type"]


def verify_schema(tag, enums, structs, impls, rng, source=None):
    source = source or schema_text(enums, structs, impls)
    results = generate(source)
    again = generate(source)
    check(
        [(r["bus"], r["contents"]) for r in results]
        == [(r["bus"], r["contents"]) for r in again],
        tag + ": two generations differ",
    )

    expected_buses = []
    for impl in impls:
        bus = impl.get("bus") or "default"
        if bus not in expected_buses:
            expected_buses.append(bus)
    check([r["bus"] for r in results] == expected_buses, tag + ": bus files " + str([r["bus"] for r in results]))

    for result in results:
        bus = result["bus"]
        text = result["contents"]
        digest.update(("%s|%s|" % (tag, bus)).encode() + text.encode())
        check(result["type"] == "file", tag + ": result type")
        check(result["path"] == Path("out") / (bus + ".fcp"), tag + ": result path")
        check(set(result) == {"type", "path", "contents", "bus"}, tag + ": result keys")

        bound = [impl for impl in impls if (impl.get("bus") or "default") == bus]
        messages, order, nodes = read_dbc(text)
        check(order == [impl["id"] for impl in bound], "%s/%s: messages %s" % (tag, bus, order))

        wanted_nodes = []
        for impl in bound:
            if impl.get("device") is not None and impl["device"] not in wanted_nodes:
                wanted_nodes.append(impl["device"])
        check(nodes == wanted_nodes, "%s/%s: nodes %s != %s" % (tag, bus, nodes, wanted_nodes))

        db = cantools.database.load_string(text, database_format="dbc")
        check(len(db.messages) == len(bound), "%s/%s: cantools message count" % (tag, bus))

        for impl in bound:
            leaves = model_layout(enums, structs, impl)
            bits = leaves[-1].start + leaves[-1].width
            length = (bits + 7) // 8
            where = "%s/%s/%s" % (tag, bus, impl_name(impl))
            got = messages.get(impl["id"])
            if got is None:
                check(False, where + ": message missing")
                continue
            check(got["name"] == impl_name(impl), where + ": name " + got["name"])
            check(got["length"] == length, "%s: length %d != %d" % (where, got["length"], length))
            check(got["count"] == len(leaves), where + ": signal count")
            check(
                set(got["signals"]) == {leaf.name for leaf in leaves},
                where + ": signal names " + str(sorted(got["signals"])),
            )
            selectors = {leaf.options.get("mux_signal") for leaf in leaves} - {None}
            for leaf in leaves:
                sig = got["signals"].get(leaf.name)
                if sig is None:
                    continue
                here = where + "." + leaf.name
                check(sig["start"] == (leaf.start + 7 if leaf.big else leaf.start), here + ": start %d" % sig["start"])
                check(sig["width"] == leaf.width, here + ": width %d" % sig["width"])
                check(sig["little"] == (not leaf.big), here + ": byte order")
                check(sig["signed"] == (leaf.kind == "i"), here + ": sign")
                check(sig["valtype"] == {"f32": 1, "f64": 2}.get(leaf.kind, 0), here + ": value type")
                check(sig["unit"] == (leaf.unit or ""), here + ": unit %r" % sig["unit"])
                check(sig["scale"] == 1.0 and sig["offset"] == 0.0, here + ": scaling")
                if "mux_signal" in leaf.options:
                    count = leaf.options["mux_count"]
                    check(sig["mux"] == "m0", here + ": mux marker %r" % sig["mux"])
                    marked = [n for n, other in got["signals"].items() if other["mux"] == "M"]
                    check(marked == [leaf.options["mux_signal"]], here + ": multiplexer %s" % marked)
                    if count > 1:
                        # cantools spells the id range out only when there is more than one id
                        check(sig["mux_of"] == leaf.options["mux_signal"], here + ": mux selector")
                        check(sig["mux_ranges"] == [(0, count - 1)], here + ": mux range %s" % sig["mux_ranges"])
                    else:
                        check(sig["mux_ranges"] in (None, [(0, 0)]), here + ": mux range %s" % sig["mux_ranges"])
                elif leaf.name in selectors:
                    check(sig["mux"] == "M", here + ": multiplexer marker %r" % sig["mux"])
                    check(sig["mux_of"] is None, here + ": selector is muxed")
                else:
                    check(sig["mux"] is None and sig["mux_of"] is None, here + ": unexpected mux")

                csig = db.get_message_by_frame_id(impl["id"]).get_signal_by_name(leaf.name)
                check(csig.is_float == (leaf.kind in ("f32", "f64")), here + ": cantools is_float")
                check(csig.is_signed == (leaf.kind == "i"), here + ": cantools is_signed")
                if "mux_signal" in leaf.options:
                    check(csig.multiplexer_ids == list(range(leaf.options["mux_count"])), here + ": cantools mux ids")
                    check(csig.multiplexer_signal == leaf.options["mux_signal"], here + ": cantools mux signal")
                else:
                    check(csig.multiplexer_ids is None and csig.multiplexer_signal is None, here + ": cantools mux")
                check(csig.is_multiplexer == (leaf.name in selectors), here + ": cantools is_multiplexer")

            cmsg = db.get_message_by_frame_id(impl["id"])
            check(cmsg.length == length and cmsg.name == impl_name(impl), where + ": cantools message")
            roundtrip(db, impl, leaves, length, rng)


# --------------------------------------------------------------------------
# inputs
# --------------------------------------------------------------------------


def fixed_schemas():
    enums = {"E": [("A", 0), ("B", 1), ("C", 5)], "One": [("X", 0)], "Big": [("L", 0), ("H", 255)]}
    structs = {
        "In": [("x", 0, ("i", 5), None), ("e", 1, ("enum", "E"), None), ("f", 2, ("f32",), "V")],
        "Foo": [
            ("c", 7, ("i", 7), "deg"),
            ("m", 0, ("u", 8), None),
            ("b", 9, ("array", ("u", 3), 2), "A"),
            ("a", 1, ("array", ("struct", "In"), 1), None),
        ],
        "Wide": [("d", 0, ("f64",), "s")],
        "Edge": [("n", 0, ("i", 1), None), ("o", 1, ("enum", "One"), None), ("p", 2, ("u", 62), None)],
        "Deep": [("i1", 4, ("struct", "In"), None), ("g", 2, ("enum", "Big"), None), ("q", 9, ("array", ("array", ("i", 2), 2), 2), "x")],
        "Top": [("d", 1, ("struct", "Deep"), None), ("z", 0, ("u", 1), None)],
        "Be": [("h", 0, ("u", 8), None), ("w", 1, ("u", 16), "rpm"), ("l", 2, ("u", 4), None), ("t", 3, ("u", 4), None), ("v", 4, ("u", 32), None)],
    }
    impls = [
        {"type": "Foo", "name": "Msg1", "id": 10, "bus": "b1", "device": "ecu1",
         "signals": {"c": {"mux_count": 3, "mux_signal": "m"}}},
        {"type": "In", "id": 11, "device": "ecu2"},
        {"type": "Wide", "id": 0x7FF, "bus": "b1", "device": "ecu1"},
        {"type": "Edge", "id": 0, "bus": "b2", "device": "ecu3"},
        {"type": "Top", "id": 12, "bus": "b1", "device": "ecu4"},
        {"type": "Be", "id": 13, "bus": "b2",
         "signals": {"w": {"endianess": "big"}, "v": {"endianess": "big"}, "h": {"endianess": "little"}}},
        {"type": "Be", "name": "BeMux", "id": 14,
         "signals": {"w": {"endianess": "big", "mux_count": 1, "mux_signal": "h"}, "l": {"mux_count": 4, "mux_signal": "h"}}},
        {"type": "In", "name": "InAgain", "id": 11, "bus": "b2", "device": "ecu3"},
    ]
    return enums, structs, impls


def random_schema(rng):
    counter = [0]

    def fresh(prefix):
        counter[0] += 1
        return "%s%d" % (prefix, counter[0])

    enums = {}
    for _ in range(rng.randint(0, 3)):
        top = rng.choice([0, 1, 2, 3, 4, 7, 8, 15, 16, 100, 255, 256, 1023])
        members = [(fresh("M"), top)]
        for _ in range(rng.randint(0, 3)):
            members.append((fresh("M"), rng.randint(0, top)))
        rng.shuffle(members)
        enums[fresh("En")] = members

    structs = {}

    def scalar_type(budget):
        choices = []
        if budget >= 1:
            choices += ["u", "i", "u", "i"]
        if enums:
            choices.append("enum")
        if budget >= 32:
            choices.append("f32")
        if budget >= 64:
            choices.append("f64")
        kind = rng.choice(choices)
        if kind in ("u", "i"):
            width = rng.choice([1, 2, 3, 5, 7, 8, 9, 12, 16, 17, 24, 31, 32, 33, 63, 64])
            width = max(1, min(width, budget))
            return (kind, width), width
        if kind == "f32":
            return ("f32",), 32
        if kind == "f64":
            return ("f64",), 64
        name = rng.choice(sorted(enums))
        width = enum_width(enums[name])
        if width > budget:
            return ("u", budget), budget
        return ("enum", name), width

    def make_struct(budget, depth):
        """Returns (name, bits used)."""
        name = fresh("S")
        fields = []
        used = 0
        wanted = rng.randint(1, 5)
        ids = rng.sample(range(0, 20), wanted)
        for fid in ids:
            left = budget - used
            if left <= 0:
                break
            unit = rng.choice([None, None, "m/s", "kg", "deg C", "%"])
            roll = rng.random()
            if roll < 0.2 and depth < 3 and left >= 2:
                child, bits = make_struct(rng.randint(1, left), depth + 1)
                ftype = ("struct", child)
            elif roll < 0.4 and left >= 2:
                size = rng.randint(1, min(3, left))
                elem_budget = left // size
                if roll < 0.28 and depth < 3:
                    child, ebits = make_struct(rng.randint(1, elem_budget), depth + 1)
                    elem = ("struct", child)
                elif roll < 0.32 and elem_budget >= 2:
                    inner = rng.randint(1, 2)
                    base, bbits = scalar_type(elem_budget // inner)
                    elem, ebits = ("array", base, inner), bbits * inner
                else:
                    elem, ebits = scalar_type(elem_budget)
                ftype, bits = ("array", elem, size), ebits * size
            else:
                ftype, bits = scalar_type(left)
            fields.append((fresh("f"), fid, ftype, unit))
            used += bits
        structs[name] = fields
        return name, used

    impls = []
    buses = [None, "alpha", "beta"]
    devices = [None, "ecu_a", "ecu_b", "ecu_c"]
    next_id = rng.randint(0, 100)
    for _ in range(rng.randint(1, 4)):
        name, _ = make_struct(rng.choice([8, 16, 29, 40, 64, 64]), 0)
        impl = {"type": name, "id": next_id, "bus": rng.choice(buses), "device": rng.choice(devices), "signals": {}}
        next_id += rng.randint(1, 300)
        if rng.random() < 0.3:
            impl["name"] = fresh("Named")

        # options on top level scalars
        offset = 0
        tops = []
        for fname, fid, ftype, unit in sorted(structs[name], key=lambda f: f[1]):
            leaves_before = offset
            width = sum(leaf.width for leaf in model_layout(enums, {**structs, "_": [(fname, 0, ftype, None)]}, {"type": "_"}))
            if ftype[0] in ("u", "i", "enum", "f32", "f64"):
                tops.append((fname, ftype, leaves_before, width))
            offset += width
        for fname, ftype, start, width in tops:
            if ftype[0] in ("u", "i") and start % 8 == 0 and width % 8 == 0 and rng.random() < 0.5:
                impl["signals"].setdefault(fname, {})["endianess"] = "big"
            elif rng.random() < 0.1:
                impl["signals"].setdefault(fname, {})["endianess"] = "little"
        unsigned = [t for t in tops if t[1][0] == "u"]
        if unsigned and len(tops) >= 2 and rng.random() < 0.4:
            sel = rng.choice(unsigned)
            others = [t for t in tops if t[0] != sel[0]]
            for other in rng.sample(others, rng.randint(1, min(2, len(others)))):
                count = rng.randint(1, min(4, 1 << sel[3]))
                impl["signals"].setdefault(other[0], {}).update({"mux_count": count, "mux_signal": sel[0]})
        impl["signals"] = {k: v for k, v in impl["signals"].items() if v}
        impls.append(impl)
    return enums, structs, impls


# --------------------------------------------------------------------------
# error behaviour
# --------------------------------------------------------------------------

ERROR_SOURCES = {
    "too_big": 'version: "3"\nstruct Foo { s1 @0: u32, s2 @1: u32, s3 @2: u8, }\nimpl can for Foo { id: 10, }\n',
    "too_big_65": 'version: "3"\nstruct Foo { s1 @0: u64, s2 @1: u1, }\nimpl can for Foo as Bar { id: 10, }\n',
    "too_big_array": 'version: "3"\nstruct Foo { s1 @0: [u13, 5], }\nimpl can for Foo { id: 10, }\n',
    "no_id": 'version: "3"\nstruct Foo { s1 @0: u8, }\nimpl can for Foo { bus: "x", }\n',
    "no_id_and_too_big": 'version: "3"\nstruct Foo { s1 @0: u64, s2 @1: u8, }\nimpl can for Foo { bus: "x", }\n',
    "second_has_no_id": 'version: "3"\nstruct Foo { s1 @0: u8, }\nimpl can for Foo { id: 1, }\nimpl can for Foo as G { device: "d", }\n',
    "id_12_bits": 'version: "3"\nstruct Foo { s1 @0: u8, }\nimpl can for Foo { id: 4096, }\n',
    "bus_is_list": 'version: "3"\nstruct Foo { s1 @0: u8, }\nimpl can for Foo { id: 1, bus: [1, 2], }\n',
    "bus_is_list_and_id_12_bits": 'version: "3"\nstruct Foo { s1 @0: u8, }\nimpl can for Foo { id: 4096, bus: [1, 2], }\n',
    "str_field": 'version: "3"\nstruct Foo { s1 @0: u8, s2 @1: str, }\nimpl can for Foo { id: 1, }\n',
    "optional_field": 'version: "3"\nstruct Foo { s1 @0: Optional[u8], }\nimpl can for Foo { id: 1, }\n',
    "dynamic_array_in_array": 'version: "3"\nstruct Foo { s0 @0: u8, s1 @1: [[u8], 2], }\nimpl can for Foo { id: 1, }\n',
    "mux_count_is_text": 'version: "3"\nstruct Foo { s1 @0: u8, s2 @1: u8, }\nimpl can for Foo { id: 1, signal s2 { mux_count: "x", mux_signal: "s1", }, }\n',
    "empty_layout": 'version: "3"\nstruct Foo { s1 @0: [u8, 0], }\nimpl can for Foo { id: 1, }\n',
    "unknown_type": 'version: "3"\nstruct Foo { s1 @0: u8, }\nimpl can for Nope { id: 1, }\n',
    "first_ok_second_too_big": 'version: "3"\nstruct A { s1 @0: u8, }\nstruct B { s1 @0: u64, s2 @1: u64, }\nimpl can for A { id: 1, }\nimpl can for B { id: 2, }\n',
    "not_can": 'version: "3"\nstruct Foo { s1 @0: u64, s2 @1: u64, }\nimpl uart for Foo { id: 1, }\n',
    "device_is_list": 'version: "3"\nstruct Foo { s1 @0: u8, }\nimpl can for Foo { id: 1, device: [1, 2], }\nimpl can for Foo as G { id: 2, device: [1, 2], }\n',
    "odd_endianess": 'version: "3"\nstruct Foo { s1 @0: u8, s2 @1: u8, }\nimpl can for Foo { id: 1, signal s2 { endianess: "motorola", }, }\n',
}


def error_behaviour():
    observed = []
    for tag in sorted(ERROR_SOURCES):
        try:
            results = generate(ERROR_SOURCES[tag])
            text = "|".join(r["bus"] + ":" + hashlib.sha256(r["contents"].encode()).hexdigest()[:12] for r in results)
            observed.append("%s -> ok %s" % (tag, text or "nothing"))
        except Exception as exc:  # noqa: BLE001 - the kind of error IS the observation
            observed.append("%s -> %s: %s" % (tag, type(exc).__name__, exc))
    return "\n".join(observed)


# --------------------------------------------------------------------------
# the repository's own expectations
# --------------------------------------------------------------------------


def repository_schemas():
    directory = Path(FCP_ROOT) / "plugins" / "fcp_dbc" / "tests" / "schemas" / "generator"
    seen = 0
    for schema in sorted(directory.glob("*.fcp")):
        results = generate(schema.read_text())
        for result in results:
            wanted = (directory / ("%s_%s.dbc" % (schema.stem, result["bus"]))).read_text()
            lines = [
                line
                for line in result["contents"].split("\r\n")
                if line.startswith(("BO_", " SG_", "SG_MUL_VAL_"))
            ]
            check("\n".join(lines) + "\n" == wanted, "repository schema " + schema.stem)
            digest.update(result["contents"].encode())
            seen += 1
    check(seen >= 11, "repository schemas found: %d" % seen)


# --------------------------------------------------------------------------
# the packed encoder on its own
# --------------------------------------------------------------------------


def summary(pieces):
    return [
        (p.name, type(p.type).__name__, p.bitstart, p.bitlength, p.endianess, p.unit, sorted(p.extended_data.items()), repr(p.composite_type))
        for p in pieces
    ]


def encoder_behaviour():
    enums, structs, impls = fixed_schemas()
    fcp = get_fcp_from_string(schema_text(enums, structs, impls)).unwrap()
    by_name = {impl_name(i): i for i in impls}

    unrolled = make_encoder("packed", fcp, PackedEncoderContext().with_unroll_arrays(True))
    rolled = make_encoder("packed", fcp, PackedEncoderContext())
    firsts = {}
    for round_ in range(3):
        for impl in fcp.get_matching_impls("can"):
            pieces = unrolled.generate(impl)
            check(pieces is unrolled.encoding, "generate returns the encoder's list")
            check(unrolled.bitstart == pieces[-1].bitstart + pieces[-1].bitlength, "cursor after generate")
            leaves = model_layout(enums, structs, by_name[impl.name])
            check(
                [(p.name.replace("::", "_"), p.bitstart, p.bitlength) for p in pieces]
                == [(leaf.name, leaf.start, leaf.width) for leaf in leaves],
                "encoder layout of %s (round %d)" % (impl.name, round_),
            )
            check(all(isinstance(p, Value) for p in pieces), "pieces are Values")
            previous = firsts.setdefault(impl.name, summary(pieces))
            check(previous == summary(pieces), "encoder is repeatable for " + impl.name)
            digest.update(repr(summary(pieces)).encode())
            try:
                digest.update(repr(summary(rolled.generate(impl))).encode())
            except ValueError as exc:
                digest.update(repr((str(exc), summary(rolled.encoding), rolled.bitstart)).encode())

    foo = [i for i in fcp.impls if i.name == "Msg1"][0]
    names = [p.name for p in unrolled.generate(foo)]
    check(names == ["m", "a_0::x", "a_0::e", "a_0::f", "c", "b_0", "b_1"], "nested names " + str(names))
    try:
        rolled.generate(foo)
        check(False, "array of structs cannot be sized when rolled")
    except ValueError as exc:
        check(str(exc).startswith("Error computing type length for type"), "rolled array of structs: " + str(exc))
        check([p.name for p in rolled.encoding] == ["m"] and rolled.bitstart == 8, "state after a failed generate")
    pieces = rolled.generate([i for i in fcp.impls if i.name == "Top"][0])
    check([(p.name, p.bitstart, p.bitlength) for p in pieces][-1] == ("d::q", 49, 8), "rolled nested array " + str(pieces[-1]))
    check(isinstance(pieces[-1].type, ArrayType), "rolled array keeps its type")

    # hand built schemas: enum bound directly, class used as context, shared field objects
    e = Enum("E", [Enumeration("A", 0), Enumeration("B", 6)])
    zero = Enum("Z", [Enumeration("A", 0)])
    inner = Struct(name="I", fields=[StructField("k", 1, EnumType("E")), StructField("j", 0, SignedType("i3"))])
    outer = Struct(
        name="O",
        fields=[
            StructField("arr", 5, ArrayType(StructType("I"), 2), unit="u"),
            StructField("e", 2, StructType("E")),
            StructField("z", 3, StructType("Z")),
            StructField("d", 9, DoubleType()),
            StructField("fl", 8, ArrayType(FloatType(), 1)),
            StructField("u", 7, UnsignedType("u11")),
        ],
    )
    impl_o = Impl("O", "can", "O", {}, [])
    impl_e = Impl("E", "can", "E", {}, [])
    hand = FcpV2(structs=[inner, outer], enums=[e, zero], impls=[impl_o, impl_e])
    enc = PackedEncoder(hand, PackedEncoderContext(unroll_arrays=True))
    got = [(p.name, type(p.type).__name__, p.bitstart, p.bitlength, repr(p.composite_type)) for p in enc.generate(impl_o)]
    want = [
        ("e", "StructType", 0, 3, "Some('E')"),
        ("z", "StructType", 3, 0, "Some('Z')"),
        ("arr_0::j", "SignedType", 3, 3, "Nothing()"),
        ("arr_0::k", "EnumType", 6, 3, "Nothing()"),
        ("arr_1::j", "SignedType", 9, 3, "Nothing()"),
        ("arr_1::k", "EnumType", 12, 3, "Nothing()"),
        ("u", "UnsignedType", 15, 11, "Nothing()"),
        ("fl_0", "FloatType", 26, 32, "Nothing()"),
        ("d", "DoubleType", 58, 64, "Nothing()"),
    ]
    check(got == want, "hand built layout " + str(got))
    check([f.name for f in outer.fields] == ["arr", "e", "z", "d", "fl", "u"], "schema fields untouched")
    check(isinstance(outer.fields[0].type, ArrayType) and outer.fields[0].name == "arr", "array field untouched")
    got = [(p.name, p.bitstart, p.bitlength) for p in enc.generate(impl_e)]
    check(got == [("", 0, 3)], "enum bound directly " + str(got))
    lazy_ctx = PackedEncoder(hand, PackedEncoderContext)  # the suite does this too
    inner_impl = Impl("I", "can", "I", {}, [])
    check([(p.name, p.bitstart) for p in lazy_ctx.generate(inner_impl)] == [("j", 0), ("k", 3)], "context class without arrays")
    # deep nesting still fits the interpreter's stack, a cycle still ends in RecursionError
    depth = 200
    chain = [
        Struct(name="S%d" % i, fields=[StructField("f", 0, StructType("S%d" % (i + 1)))])
        for i in range(depth)
    ]
    chain.append(Struct(name="S%d" % depth, fields=[StructField("x", 0, UnsignedType("u8"))]))
    chain_impl = Impl("S0", "can", "S0", {}, [])
    deep = PackedEncoder(FcpV2(structs=chain, impls=[chain_impl]), PackedEncoderContext(unroll_arrays=True))
    got = [(p.name, p.bitstart, p.bitlength) for p in deep.generate(chain_impl)]
    check(got == [("f::" * depth + "x", 0, 8)], "deeply nested struct")
    loop_a = Struct(name="A", fields=[StructField("b", 0, StructType("B"))])
    loop_b = Struct(name="B", fields=[StructField("x", 0, UnsignedType("u8")), StructField("a", 1, StructType("A"))])
    loop_impl = Impl("A", "can", "A", {}, [])
    looping = PackedEncoder(FcpV2(structs=[loop_a, loop_b], impls=[loop_impl]), PackedEncoderContext())
    try:
        looping.generate(loop_impl)
        check(False, "cyclic schema encoded")
    except RecursionError:
        check(looping.bitstart == 8 * len(looping.encoding) and len(looping.encoding) > 50, "cursor follows the pieces")

    try:
        make_encoder("loose", hand, PackedEncoderContext())
        check(False, "unknown encoder accepted")
    except KeyError:
        pass


# --------------------------------------------------------------------------


def main():
    rng = random.Random(20240505)

    enums, structs, impls = fixed_schemas()
    verify_schema("fixed", enums, structs, impls, rng)

    repository_schemas()

    for n in range(300):
        schema_rng = random.Random(9000 + n)
        enums, structs, impls = random_schema(schema_rng)
        verify_schema("random%d" % n, enums, structs, impls, rng)

    encoder_behaviour()

    errors = error_behaviour()

    if RECORD:
        print("failures =", len(failures))
        print("digest =", digest.hexdigest())
        print(errors)
        return 0

    check(digest.hexdigest() == GOLDEN["digest"], "digest of the generated text changed: " + digest.hexdigest())
    if errors != GOLDEN["errors"]:
        want = GOLDEN["errors"].split("\n")
        for a, b in zip(errors.split("\n"), want):
            check(a == b, "error behaviour: got %r, recorded %r" % (a, b))
        check(len(errors.split("\n")) == len(want), "number of error observations")

    if failures:
        print("FAIL: %d of %d checks failed" % (len(failures), checks))
        return 1
    print("PASS (%d checks)" % checks)
    return 0


if __name__ == "__main__":
    sys.exit(main())
