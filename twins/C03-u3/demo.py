#!/venv/bin/python
"""Differential test for property C03.

Generated C++ static codec compiles as C++17 and speaks the canonical wire
format (same bytes as the Python codec and as an independent reference
bit-packer written below), decodes its own bytes back to the same value, maps
integer widths 1..64 to a wide-enough carrier and packs enums minimally.

Run with PYTHONPATH pointing at the worktree under test, e.g.

  PYTHONPATH=$R/src:$R/plugins/fcp_dbc:$R/plugins/fcp_can_c:$R/plugins/fcp_cpp:$R/plugins/fcp_nop \
      /venv/bin/python demo.py

Exits 0 and prints PASS when everything agrees.
"""

import json
import os
import random
import re
import shutil
import struct as pystruct
import subprocess
import sys
import tempfile
from pathlib import Path

FCP_ROOT = Path(os.environ.get("FCP_ROOT", "/tmp/twin2-C03"))
JSON_INCLUDE = os.environ.get("NLOHMANN_INCLUDE", "/root/miniconda/include")

from fcp.parser import get_fcp_from_string  # noqa: E402
from fcp.serde import encode as py_encode  # noqa: E402
from fcp.specs import type as T  # noqa: E402
from fcp_cpp import Generator  # noqa: E402
from fcp_cpp.rpc import generate_rpc  # noqa: E402
import fcp_cpp  # noqa: E402

FAILURES = []

EXPECTED_UNWRAP_ERROR = ("UnwrapError", "Called `Maybe.unwrap()` on a `Nothing` value")


def check(cond, msg):
    if not cond:
        FAILURES.append(msg)
        print("FAIL:", msg)


# --------------------------------------------------------------------------
# schemas
# --------------------------------------------------------------------------

WIDTHS = list(range(1, 65))

ENUM_MAXES = [0, 1, 2, 3, 4, 7, 8, 127, 128, 255, 256, 65535, 65536, 2**32 - 1, 2**32, 2**40]


def schema_widths():
    u_fields = "\n".join(f"    f{w} @ {w}: u{w}," for w in WIDTHS)
    # declared in reverse order but field ids ascending with the width
    i_fields = "\n".join(f"    g{w} @ {w}: i{w}," for w in reversed(WIDTHS))
    enums = "\n".join(
        f"enum En{i} {{ Lo = 0, Hi = {m}, }}" if m != 0 else f"enum En{i} {{ Lo = 0, }}"
        for i, m in enumerate(ENUM_MAXES)
    )
    e_fields = "\n".join(f"    e{i} @ {i}: En{i}," for i in range(len(ENUM_MAXES)))
    return f"""version: "3"

struct AllU {{
{u_fields}
}}

struct AllI {{
{i_fields}
}}

{enums}

struct AllE {{
    pad @ 100: u3,
{e_fields}
}}
"""


SCHEMA_SHAPES = """version: "3"

enum Colour {
    Red = 0,
    Green = 1,
    Blue = 5,
}

struct Inner {
    a @ 1: u3,
    b @ 0: i5,
    c @ 2: Colour,
}

struct Mid {
    head @ 0: u1,
    inner @ 1: Inner,
    arr @ 2: [Inner, 2],
    tail @ 3: i11,
}

struct Shapes {
    bit @ 0: u1,
    mid @ 1: Mid,
    nums @ 2: [u5],
    name @ 3: str,
    maybe @ 4: Optional[i13],
    maybe_inner @ 5: Optional[Inner],
    grid @ 6: [[u3, 2], 3],
    colours @ 7: [Colour, 3],
    x @ 8: f32,
    y @ 9: f64,
    inners @ 10: [Inner],
    tailbits @ 11: u7,
}

struct Floats {
    lead @ 0: u5,
    x @ 1: f32,
    y @ 2: f64,
    z @ 3: [f32, 2],
}

struct Be {
    a @ 0: u8,
    b @ 1: u16,
    c @ 2: i32,
    d @ 3: u64,
    e @ 4: i16,
    f @ 5: i64,
}

impl can for Be {
    id: 11,
    endianess: "big",
}

struct BeBad {
    a @ 0: u12,
}

impl can for BeBad {
    id: 12,
    endianess: "big",
}

struct Le {
    a @ 0: u16,
    b @ 1: u4,
}

impl can for Le {
    id: 13,
    endianess: "little",
    bus: "bus7",
}

struct Req {
    k @ 0: u4,
    v @ 1: i9,
}

struct Rsp {
    ok @ 0: u1,
    data @ 1: [u8],
}

service Store @ 3 {
    method Put(Req) @ 2 returns Rsp,
    method Drop(Le) @ 7 returns Floats,
}

service Other @ 200 {
    method Ping(Inner) @ 0 returns Mid,
}
"""


# --------------------------------------------------------------------------
# independent reference bit packer
# --------------------------------------------------------------------------


class Bits:
    def __init__(self):
        self.bits = []

    def push(self, word, n):
        for i in range(n):
            self.bits.append((word >> i) & 1)

    def bytes(self):
        out = bytearray((len(self.bits) + 7) // 8)
        for i, b in enumerate(self.bits):
            out[i >> 3] |= b << (i & 7)
        return bytes(out)


def enum_bits(enum):
    m = max(e.value for e in enum.enumeration)
    return max(1, int(m).bit_length())


def ref_pack(fcp, t, v, out):
    if isinstance(t, (T.UnsignedType, T.SignedType)):
        out.push(v, int(t.name[1:]))
    elif isinstance(t, T.FloatType):
        out.push(int.from_bytes(pystruct.pack("<f", v), "little"), 32)
    elif isinstance(t, T.DoubleType):
        out.push(int.from_bytes(pystruct.pack("<d", v), "little"), 64)
    elif isinstance(t, T.StringType):
        out.push(len(v), 32)
        for ch in v:
            out.push(ord(ch), 8)
    elif isinstance(t, T.EnumType):
        out.push(v, enum_bits(fcp.get_enum(t.name).unwrap()))
    elif isinstance(t, T.StructType):
        s = fcp.get_struct(t.name).unwrap()
        for f in sorted(s.fields, key=lambda f: f.field_id):
            ref_pack(fcp, f.type, v[f.name], out)
    elif isinstance(t, T.ArrayType):
        assert len(v) == t.size
        for x in v:
            ref_pack(fcp, t.underlying_type, x, out)
    elif isinstance(t, T.DynamicArrayType):
        out.push(len(v), 32)
        for x in v:
            ref_pack(fcp, t.underlying_type, x, out)
    elif isinstance(t, T.OptionalType):
        out.push(0 if v is None else 1, 8)
        if v is not None:
            ref_pack(fcp, t.underlying_type, v, out)
    else:
        raise AssertionError(t)


def ref_encode(fcp, name, value, prefix=None):
    out = Bits()
    if prefix is not None:
        out.push(*prefix)
    ref_pack(fcp, T.StructType(name), value, out)
    return out.bytes()


# --------------------------------------------------------------------------
# value generation
# --------------------------------------------------------------------------


def gen_value(fcp, t, rng, mode):
    """mode: 'min' | 'max' | 'rand'."""
    if isinstance(t, T.UnsignedType):
        n = int(t.name[1:])
        return {"min": 0, "max": 2**n - 1}.get(mode, rng.randrange(2**n))
    if isinstance(t, T.SignedType):
        n = int(t.name[1:])
        lo, hi = -(2 ** (n - 1)), 2 ** (n - 1) - 1
        return {"min": lo, "max": hi}.get(mode, rng.randint(lo, hi))
    if isinstance(t, T.FloatType):
        return rng.choice([0.0, 1.5, -0.25, 1024.0, -3.0e5, 0.15625])
    if isinstance(t, T.DoubleType):
        return rng.choice([0.0, 1.5, -0.1, 3.141592653589793, 1e300, -2.5e-300])
    if isinstance(t, T.StringType):
        if mode == "min":
            return ""
        return "".join(rng.choice("abcXYZ 09_~!") for _ in range(rng.randrange(1, 12)))
    if isinstance(t, T.EnumType):
        values = [e.value for e in fcp.get_enum(t.name).unwrap().enumeration]
        return {"min": min(values), "max": max(values)}.get(mode, rng.choice(values))
    if isinstance(t, T.StructType):
        s = fcp.get_struct(t.name).unwrap()
        return {f.name: gen_value(fcp, f.type, rng, mode) for f in s.fields}
    if isinstance(t, T.ArrayType):
        return [gen_value(fcp, t.underlying_type, rng, mode) for _ in range(t.size)]
    if isinstance(t, T.DynamicArrayType):
        n = 0 if mode == "min" else rng.randrange(1, 6)
        return [gen_value(fcp, t.underlying_type, rng, mode) for _ in range(n)]
    if isinstance(t, T.OptionalType):
        if mode == "min" or (mode == "rand" and rng.random() < 0.4):
            return None
        return gen_value(fcp, t.underlying_type, rng, mode)
    raise AssertionError(t)


# --------------------------------------------------------------------------
# C++ side
# --------------------------------------------------------------------------

MAIN_CPP_HEAD = r"""
#include <iostream>
#include <iomanip>
#include <cmath>
#include <limits>
#include <stdexcept>
#include "fcp.h"
%(extra_includes)s

static std::string hex(const std::vector<std::uint8_t>& v) {
    std::stringstream ss;
    for (auto b : v) {
        ss << std::hex << std::setw(2) << std::setfill('0') << static_cast<int>(b);
    }
    return ss.str();
}

static std::vector<std::uint8_t> unhex(const std::string& s) {
    std::vector<std::uint8_t> out;
    for (std::size_t i = 0; i + 1 < s.size(); i += 2) {
        out.push_back(static_cast<std::uint8_t>(std::stoul(s.substr(i, 2), nullptr, 16)));
    }
    return out;
}

// name | own bytes | decoded(own bytes) | equal | repeat-stable | bytes after a 3-bit prefix
// | decoded(reference bytes handed in from python)
template<typename S>
[[maybe_unused]] static void run(const std::string& key, const fcp::json& j, const std::string& refhex) {
    S v = S::FromJson(j);
    auto first = v.Encode().GetData();
    auto second = v.Encode().GetData();

    S back = S::Decode(first.begin(), first.end());

    fcp::Buffer shared{0};
    shared.PushWord<std::uint8_t, 3>(5);
    v.Encode(shared);
    const S& cv = v;
    cv.Encode(shared);

    auto ref = unhex(refhex);
    S from_ref = S::Decode(ref.begin(), ref.end());

    std::cout << key << "|" << hex(first) << "|" << back.DecodeJson().dump() << "|"
              << (back == v ? 1 : 0) << (back != v ? 1 : 0) << "|" << (first == second ? 1 : 0) << "|"
              << hex(shared.GetData()) << "|" << from_ref.DecodeJson().dump() << "\n";
}

template<typename S>
[[maybe_unused]] static void run_throw(const std::string& key, const fcp::json& j) {
    S v = S::FromJson(j);
    try {
        auto bytes = v.Encode().GetData();
        std::cout << key << "|nothrow|" << hex(bytes) << "\n";
    } catch (const std::runtime_error& e) {
        std::cout << key << "|runtime_error|" << e.what() << "\n";
    }
}

[[maybe_unused]] static void run_schema(const std::string& key, const std::string& name, const fcp::json& j) {
    fcp::StaticSchema schema{};
    auto enc = schema.EncodeJson(name, j);
    if (!enc.has_value()) {
        std::cout << key << "|nullopt\n";
        return;
    }
    auto dec = schema.DecodeJson(name, enc.value());
    auto dec_other_bus = schema.DecodeJson(name, enc.value(), "no-such-bus");
    std::cout << key << "|" << hex(enc.value()) << "|" << (dec.has_value() ? dec.value().dump() : "nullopt")
              << "|" << (dec_other_bus.has_value() ? 1 : 0) << "\n";
}

int main() {
    std::string line;
    while (std::getline(std::cin, line)) {
        auto p1 = line.find('\t');
        auto p2 = line.find('\t', p1 + 1);
        auto p3 = line.find('\t', p2 + 1);
        std::string key = line.substr(0, p1);
        std::string type = line.substr(p1 + 1, p2 - p1 - 1);
        std::string refhex = line.substr(p2 + 1, p3 - p2 - 1);
        auto j = fcp::json::parse(line.substr(p3 + 1));
"""

MAIN_CPP_TAIL = r"""
        std::cout << key << "|unknown type " << type << "\n";
    }
    return 0;
}
"""

CXXFLAGS = [
    "--std=c++17",
    "-Werror",
    "-Wall",
    "-Wextra",
    "-Wformat-nonliteral",
    "-Wcast-align",
    "-Wpointer-arith",
    "-Wundef",
    "-Wcast-qual",
    "-Wshadow",
    "-Wwrite-strings",
    "-Wno-unused-parameter",
    "-Wfloat-equal",
    "-pedantic",
    "-O1",
]


def generate(fcp, outdir):
    results = Generator().generate(fcp, {"output": str(outdir)})
    texts = {}
    for r in results:
        assert r["type"] == "file"
        p = Path(r["path"])
        check(p.parent == Path(outdir), f"unexpected output directory {p}")
        p.write_text(str(r["contents"]))
        texts[p.name] = str(r["contents"])
    return texts


def build_and_run(workdir, dispatch, extra_includes, lines):
    body = []
    for type_key, cpp_type, kind in dispatch:
        if kind == "run":
            call = f"run<{cpp_type}>(key, j, refhex);"
        elif kind == "throw":
            call = f"run_throw<{cpp_type}>(key, j);"
        else:
            call = f'run_schema(key, "{cpp_type}", j);'
        body.append(f'        if (type == "{type_key}") {{ {call} continue; }}')
    src = (
        MAIN_CPP_HEAD % {"extra_includes": "\n".join(f'#include "{i}"' for i in extra_includes)}
        + "\n".join(body)
        + MAIN_CPP_TAIL
    )
    (workdir / "main.cpp").write_text(src)
    exe = workdir / "main"
    r = subprocess.run(
        ["g++"] + CXXFLAGS + ["-isystem", JSON_INCLUDE, "-I", str(workdir), "main.cpp", "-o", str(exe)],
        cwd=workdir,
        capture_output=True,
        text=True,
    )
    if r.returncode != 0:
        check(False, "generated C++ does not compile as C++17:\n" + r.stderr[-4000:])
        return {}
    r = subprocess.run([str(exe)], input="".join(lines), capture_output=True, text=True, cwd=workdir)
    if r.returncode != 0:
        check(False, f"C++ harness exited {r.returncode}: {r.stderr[-2000:]}")
    out = {}
    for ln in r.stdout.splitlines():
        parts = ln.split("|")
        out[parts[0]] = parts[1:]
    return out


def json_equal(a, b):
    """Structural equality; floats compared exactly (all chosen values round-trip)."""
    if isinstance(a, dict) and isinstance(b, dict):
        return a.keys() == b.keys() and all(json_equal(a[k], b[k]) for k in a)
    if isinstance(a, list) and isinstance(b, list):
        return len(a) == len(b) and all(json_equal(x, y) for x, y in zip(a, b))
    if isinstance(a, bool) or isinstance(b, bool):
        return a is b
    if isinstance(a, (int, float)) and isinstance(b, (int, float)):
        return float(a) == float(b) if isinstance(a, float) or isinstance(b, float) else a == b
    return a == b


def strip_meta(v):
    if isinstance(v, dict):
        return {k: strip_meta(x) for k, x in v.items() if k != "__is_method_input"}
    if isinstance(v, list):
        return [strip_meta(x) for x in v]
    return v


def carrier_for(n):
    for c in (8, 16, 32, 64):
        if n <= c:
            return c
    raise AssertionError(n)


# --------------------------------------------------------------------------
# the checks
# --------------------------------------------------------------------------


def run_cases(label, fcp, texts, workdir, struct_names, cpp_prefix, extra, rng, n_rand, py_codec=True):
    """Encode/decode every struct in struct_names with min/max/random values."""
    rpc_fcp = generate_rpc(fcp)
    dispatch = [(name, cpp_prefix + name, "run") for name in struct_names] + extra["dispatch"]
    lines = []
    expect = {}
    for name in struct_names:
        modes = ["min", "max"] + ["rand"] * n_rand
        for idx, mode in enumerate(modes):
            value = gen_value(rpc_fcp, T.StructType(name), rng, mode)
            key = f"{label}.{name}.{idx}"
            ref = ref_encode(rpc_fcp, name, value)
            lines.append(f"{key}\t{name}\t{ref.hex()}\t{json.dumps(value)}\n")
            expect[key] = (name, value)
    for key, type_key, value in extra["lines"]:
        lines.append(f"{key}\t{type_key}\t\t{json.dumps(value)}\n")

    got = build_and_run(workdir, dispatch, extra["includes"], lines)
    print(f"{label}: {len(expect)} values over {len(struct_names)} structs, {len(got)} answers from C++")

    for key, (name, value) in expect.items():
        if key not in got:
            check(False, f"{key}: no output from C++ harness")
            continue
        hexbytes, decoded, eq, stable, shared_hex, from_ref = got[key]
        ref = ref_encode(rpc_fcp, name, value)
        check(hexbytes == ref.hex(), f"{key}: C++ bytes {hexbytes} != reference {ref.hex()} for {value}")
        if py_codec:
            py = bytes(py_encode(rpc_fcp, name, value))
            check(py == ref, f"{key}: python codec bytes {py.hex()} != reference {ref.hex()}")
            check(hexbytes == py.hex(), f"{key}: C++ bytes differ from python codec bytes")
        check(json_equal(strip_meta(json.loads(decoded)), value), f"{key}: C++ decode gave {decoded}, wanted {value}")
        check(json_equal(strip_meta(json.loads(from_ref)), value), f"{key}: C++ decode of reference bytes gave {from_ref}")
        check(eq == "10", f"{key}: operator==/!= after round trip gave {eq}")
        check(stable == "1", f"{key}: second Encode() differs from the first")
        # unaligned: 3 prefix bits then the struct twice
        out = Bits()
        out.push(5, 3)
        ref_pack(rpc_fcp, T.StructType(name), value, out)
        ref_pack(rpc_fcp, T.StructType(name), value, out)
        check(shared_hex == out.bytes().hex(), f"{key}: encoding at bit offset 3 gave {shared_hex}, wanted {out.bytes().hex()}")
    return got


def check_text_widths(fcp, texts):
    """Carrier types and enum widths in the generated text."""
    text = texts["fcp.h"]
    for w in WIDTHS:
        c = carrier_for(w)
        check(f"using F{w}Type = Unsigned<std::uint{c}_t, {w}>;" in text, f"u{w}: carrier is not uint{c}_t")
        check(f"using G{w}Type = Signed<std::int{c}_t, {w}>;" in text, f"i{w}: carrier is not int{c}_t")
    for i, m in enumerate(ENUM_MAXES):
        bits = max(1, m.bit_length())
        c = carrier_for(bits)
        mobj = re.search(r"class En%d \{(.*?)\n\};" % i, text, re.S)
        check(mobj is not None, f"En{i}: class not generated")
        if mobj is None:
            continue
        body = mobj.group(1)
        check(f"using UnderlyingType = std::uint{c}_t;" in body, f"En{i} (max {m}): carrier is not uint{c}_t")
        check(f"PushWord<UnderlyingType, {bits}>(data_, endianess)" in body, f"En{i} (max {m}): not packed in {bits} bits")
        check(re.search(r"GetSize\(\) \{\s*return %d;" % bits, body) is not None, f"En{i} (max {m}): GetSize() != {bits}")
        check(fcp.get_enum(f"En{i}").unwrap().get_packed_size() == bits, f"En{i}: get_packed_size() != {bits}")


def check_text_endianess(texts):
    """Default endianess of the generated Encode/Decode overloads per protocol header."""

    def defaults(text, struct):
        mobj = re.search(r"\nstruct %s \{(.*?)\n\};" % struct, text, re.S)
        if mobj is None:
            return None
        return re.findall(r"(?:Decode\(Buffer& buffer, |Encode\(|Encode\(Buffer& buffer, )Endianess endianess=(Endianess::\w+)\)", mobj.group(1))

    want = {
        ("fcp.h", "Be"): "Endianess::Little",
        ("fcp_default.h", "Be"): "Endianess::Little",
        ("fcp_can.h", "Be"): "Endianess::Big",
        ("fcp_can.h", "BeBad"): "Endianess::Big",
        ("fcp_can.h", "Le"): "Endianess::Little",
        ("fcp_can.h", "Inner"): "Endianess::Little",
        ("fcp_can.h", "ReqInput"): "Endianess::Little",
        ("fcp.h", "Le"): "Endianess::Little",
        ("reflection.h", "Fcp"): "Endianess::Little",
    }
    for (header, struct), e in want.items():
        got = defaults(texts[header], struct)
        check(got == [e, e, e], f"{header}: struct {struct} default endianess {got}, wanted 3 x {e}")
    check('bus == "bus7"' in texts["fcp_can.h"], "fcp_can.h: StaticSchema does not dispatch Le on bus7")
    check('msg_name == "Le" && bus == "default"' in texts["fcp.h"], "fcp.h: StaticSchema does not dispatch Le on default bus")


def check_rpc(fcp):
    """Synthesised rpc types: shape, order, idempotence and no aliasing of the input."""
    before = json.dumps(fcp.to_dict(), sort_keys=True, default=str)
    out1 = generate_rpc(fcp)
    out2 = generate_rpc(fcp)
    check(json.dumps(fcp.to_dict(), sort_keys=True, default=str) == before, "generate_rpc mutated its argument")
    check(
        json.dumps(out1.to_dict(), sort_keys=True, default=str) == json.dumps(out2.to_dict(), sort_keys=True, default=str),
        "generate_rpc is not repeatable",
    )
    names = [s.name for s in out1.structs]
    tail = names[len(fcp.structs):]
    check(tail == ["ReqInput", "RspOutput", "LeInput", "FloatsOutput", "InnerInput", "MidOutput"], f"rpc struct order {tail}")
    impl_tail = [(i.name, i.protocol, i.type, dict(i.fields), list(i.signals)) for i in out1.impls[len(fcp.impls):]]
    check(
        impl_tail == [(n, "default", n, {}, []) for n in tail],
        f"rpc impls {impl_tail}",
    )
    flags = [bool(getattr(i, "_is_method_input", False)) for i in out1.impls[len(fcp.impls):]]
    check(flags == [True, False, True, False, True, False], f"_is_method_input flags {flags}")
    for s in out1.structs[len(fcp.structs):]:
        got = [(f.name, f.field_id, type(f.type).__name__, f.type.name) for f in s.fields]
        payload = s.name[: -len("Input")] if s.name.endswith("Input") else s.name[: -len("Output")]
        svc = "Other" if payload in ("Inner", "Mid") else "Store"
        want = [
            ("service_id", 0, "EnumType", "ServiceId"),
            ("method_id", 1, "EnumType", svc + "MethodId"),
            ("payload", 2, "StructType", payload),
        ]
        check(got == want, f"{s.name}: fields {got}")
    enums = {e.name: [(x.name, x.value) for x in e.enumeration] for e in out1.enums[len(fcp.enums):]}
    check(
        enums
        == {
            "ServiceId": [("Store", 3), ("Other", 200), ("Size", 255)],
            "StoreMethodId": [("Put", 2), ("Drop", 7), ("Size", 255)],
            "OtherMethodId": [("Ping", 0), ("Size", 255)],
        },
        f"rpc enums {enums}",
    )
    check([e.name for e in out1.enums[len(fcp.enums):]] == ["ServiceId", "StoreMethodId", "OtherMethodId"], "rpc enum order")

    # error path: an id that does not fit in 8 bits
    bad = get_fcp_from_string(
        'version: "3"\nstruct A { x @ 0: u8, }\nservice Big @ 256 { method M(A) @ 0 returns A, }\n'
    ).unwrap()
    try:
        generate_rpc(bad)
        check(False, "service id 256 accepted")
    except ValueError as e:
        check(str(e) == "ServiceId must fit in 8 bits", f"service id 256: message {e!r}")
    bad = get_fcp_from_string(
        'version: "3"\nstruct A { x @ 0: u8, }\nservice Sv @ 1 { method M(A) @ 300 returns A, }\n'
    ).unwrap()
    try:
        generate_rpc(bad)
        check(False, "method id 300 accepted")
    except ValueError as e:
        check(str(e) == "SvMethodId must fit in 8 bits", f"method id 300: message {e!r}")
    # exactly 255 fits and needs no Size member
    ok = generate_rpc(
        get_fcp_from_string(
            'version: "3"\nstruct A { x @ 0: u8, }\nservice Sv @ 255 { method M(A) @ 255 returns A, }\n'
        ).unwrap()
    )
    check([(x.name, x.value) for x in ok.get_enum("ServiceId").unwrap().enumeration] == [("Sv", 255)], "id 255 adds Size")
    # a payload struct shared between methods: envelopes are keyed by the payload name, so the
    # later use replaces the earlier one in place (current, pinned behaviour of the generator)
    shared = generate_rpc(
        get_fcp_from_string(
            'version: "3"\nstruct A { x @ 0: u8, }\nstruct B { y @ 0: u3, }\n'
            "service Sv @ 1 { method P(A) @ 0 returns B, method Q(B) @ 1 returns A, method R(A) @ 2 returns A, }\n"
        ).unwrap()
    )
    check([s.name for s in shared.structs] == ["A", "B", "AOutput", "BInput"], f"shared payloads: {[s.name for s in shared.structs]}")
    check(
        [(i.name, bool(getattr(i, "_is_method_input", False))) for i in shared.impls[2:]] == [("AOutput", False), ("BInput", True)],
        "shared payloads: impls",
    )
    check(all(not hasattr(i, "_is_method_input") for i in shared.impls if not i.name.endswith("Input")), "marker on a non-input impl")
    # unknown payload type: same failure as before (unwrap of Nothing)
    from copy import deepcopy
    broken = deepcopy(fcp)
    broken.services[0].methods[0].output = "Missing"
    try:
        generate_rpc(broken)
        check(False, "unknown payload accepted")
    except Exception as e:
        check(type(e).__name__ == EXPECTED_UNWRAP_ERROR[0] and str(e) == EXPECTED_UNWRAP_ERROR[1], f"unknown payload: {type(e).__name__}: {e}")
    # no services -> nothing synthesised
    plain = get_fcp_from_string('version: "3"\nstruct A { x @ 0: u8, }\n').unwrap()
    out = generate_rpc(plain)
    check([s.name for s in out.structs] == ["A"] and out.enums == [], "rpc types synthesised without services")


API_CPP = r"""
// Usage patterns of the plug-in's own gtest file (gtest is not available here),
// with every generated header of the test schema included in one translation unit.
#include <iostream>
#include "fcp.h"
#include "fcp_can.h"
#include "reflection.h"
#include "dynamic.h"
#include "can.h"
#include "can_static_schema.h"
#include "can_dynamic_schema.h"
#include "rpc.h"
#include "service1_client.h"
#include "service1_server.h"

static int failures = 0;

template<typename S>
static void expect(const char* what, S value, std::vector<std::uint8_t> bytes) {
    auto encoded = value.Encode().GetData();
    auto decoded = S::Decode(bytes.begin(), bytes.end());
    if (encoded != bytes || decoded != value || !(decoded == value)) {
        std::cout << "MISMATCH " << what << "\n";
        failures++;
    }
}

int main() {
    expect("S1", fcp::S1{1,2}, {1,2});
    expect("S2", fcp::S2{1,2,fcp::E::S1}, {1,2,1});
    expect("S3", fcp::S3{{1,2,3,4}, 5,6}, {1,2,3,4,5,6});
    expect("S4", fcp::S4{{fcp::E::S0,fcp::E::S1,fcp::E::S2,fcp::E::S0}, 5,6}, {0x24,5,6});
    expect("S5", fcp::S5{1,-2,3,-4,5,-6,7,-8,9,-10}, {
        0x01,
        0xfe,
        0x03,0x00,
        0xfc,0xff,
        0x05,0x00,0x00,
        0xfa,0xff,0xff,
        0x07,0x00,0x00,0x00,
        0xf8,0xff,0xff,0xff,
        0x09,0x00,0x00,0x00,0x00,0x00,0x00,0x00,
        0xf6,0xff,0xff,0xff,0xff,0xff,0xff,0xff});
    expect("S6", fcp::S6{1.0, 1.0}, {0x00, 0x00, 0x80, 0x3f, 0x00, 0x00, 0x00, 0x00, 0x00, 0x00, 0xF0, 0x3F});
    expect("S7", fcp::S7{"hello"}, {0x05, 0x00, 0x00, 0x00, 0x68, 0x65, 0x6c, 0x6c, 0x6f});
    expect("S8", fcp::S8{{{0,1,2}}}, {0x03, 0x00, 0x00, 0x00, 0x00, 0x01, 0x02});
    expect("S10 some", fcp::S10{fcp::S10::S1Type{1}}, {0x01, 0x01});
    expect("S10 none", fcp::S10{fcp::Optional<fcp::Unsigned<std::uint8_t, 8>>::None()}, {0x00});
    expect("S11 big", fcp::can::S11{0x102}, {0x01, 0x02});
    expect("S11 little", fcp::S11{0x102}, {0x02, 0x01});
    expect("S12", fcp::S12{fcp::S1{3,4}}, {3,4});
    expect("S9", fcp::S9{{{fcp::S1{1,2}, fcp::S1{3,4}}}}, {2,0,0,0,1,2,3,4});

    // distinct wrapper types stay distinct, and narrowing to the carrier is unchanged
    static_assert(!std::is_same<fcp::Unsigned<std::uint8_t, 8>, fcp::Signed<std::uint8_t, 8>>::value, "");
    static_assert(!std::is_same<fcp::Unsigned<std::uint8_t, 8>, fcp::Unsigned<std::uint8_t, 7>>::value, "");
    static_assert(std::is_same<decltype(fcp::S5::S6Type{}.GetData()), std::int32_t>::value, "");
    static_assert(std::is_same<decltype(fcp::S5::S5Type{}.GetData()), std::uint32_t>::value, "");
    static_assert(std::is_same<fcp::E::UnderlyingType, std::uint8_t>::value, "");

    auto s5 = fcp::S5{1,-2,3,-4,5,-6,7,-8,9,-10};
    if (s5.GetS6().ToString() != "-6" || s5.GetS2().GetData() != -2 || s5.GetS1().ToString() != "1") {
        std::cout << "MISMATCH accessors\n";
        failures++;
    }
    s5.ViewS2() = fcp::S5::S2Type{-128};
    if (s5.Encode().GetData()[1] != 0x80) {
        std::cout << "MISMATCH view\n";
        failures++;
    }

    // the run-time (reflection driven) schema shares buffer.h: on byte aligned structs it
    // must agree with the static codec, in both directions
    fcp::dynamic::DynamicSchema dyn{};
    dyn.LoadBinarySchemaFromFile("output.bin");
    fcp::StaticSchema stat{};
    const std::vector<std::pair<std::string, std::string>> samples = {
        {"S1", R"({"s1": 1, "s2": 2})"},
        {"S1", R"({"s1": 255, "s2": 0})"},
        {"S3", R"({"s1": [1, 2, 3, 255], "s2": 5, "s3": 6})"},
        {"S5", R"({"s1": 1, "s2": -2, "s3": 3, "s4": -4, "s5": 5, "s6": -6, "s7": 7, "s8": -8, "s9": 9, "s10": -10})"},
        {"S5", R"({"s1": 255, "s2": -128, "s3": 65535, "s4": -32768, "s5": 16777215, "s6": -8388608, "s7": 4294967295, "s8": -2147483648, "s9": 18446744073709551615, "s10": -9223372036854775807})"},
        {"S6", R"({"s1": 1.5, "s2": -0.1})"},
        {"S7", R"({"s1": "hello world"})"},
        {"S7", R"({"s1": ""})"},
        {"S8", R"({"s1": [0, 1, 2, 250]})"},
        {"S8", R"({"s1": []})"},
        {"S9", R"({"s1": [{"s1": 1, "s2": 2}, {"s1": 3, "s2": 4}]})"},
        {"S10", R"({"s1": 7})"},
        {"S10", R"({"s1": null})"},
        {"S12", R"({"s1": {"s1": 9, "s2": 8}})"},
    };
    for (const auto& [name, text] : samples) {
        auto j = fcp::json::parse(text);
        auto a = stat.EncodeJson(name, j);
        auto b = dyn.EncodeJson(name, j);
        if (!a.has_value() || !b.has_value() || a.value() != b.value()) {
            std::cout << "MISMATCH dynamic encode " << name << " " << text << "\n";
            failures++;
            continue;
        }
        auto da = stat.DecodeJson(name, a.value());
        auto db = dyn.DecodeJson(name, a.value());
        if (!da.has_value() || !db.has_value() || da.value() != db.value()) {
            std::cout << "MISMATCH dynamic decode " << name << " " << text << "\n";
            failures++;
        }
    }

    std::cout << (failures == 0 ? "API-OK" : "API-FAIL") << "\n";
    return failures;
}
"""


def check_api_usage(tmp):
    """The plug-in's own test schema: all headers in one TU, byte vectors from its gtest file."""
    from fcp.parser import get_fcp

    schema = FCP_ROOT / "plugins" / "fcp_cpp" / "tests" / "schemas" / "test.fcp"
    fcp = get_fcp(schema).unwrap()
    wd = tmp / "api"
    wd.mkdir()
    generate(fcp, wd)
    from fcp.reflection import get_reflection_schema

    (wd / "output.bin").write_bytes(bytes(py_encode(get_reflection_schema().unwrap(), "Fcp", fcp.reflection())))
    (wd / "api.cpp").write_text(API_CPP)
    r = subprocess.run(
        ["g++"] + CXXFLAGS + ["-isystem", JSON_INCLUDE, "-I", str(wd), "api.cpp", "-o", "api"],
        cwd=wd,
        capture_output=True,
        text=True,
    )
    if r.returncode != 0:
        check(False, "test-schema headers do not compile together as C++17:\n" + r.stderr[-4000:])
        return
    r = subprocess.run([str(wd / "api")], capture_output=True, text=True, cwd=wd)
    check(r.returncode == 0 and r.stdout.strip().endswith("API-OK"), f"api usage: {r.stdout!r} {r.stderr[-500:]!r}")
    print("api usage:", r.stdout.strip().splitlines()[-1] if r.stdout.strip() else "(no output)")


BUFFER_CPP = r"""
// Drives fcp::Buffer with a scripted sequence of operations and prints the storage after each.
#include <cstdint>
#include <cstddef>
#include <vector>
#include <string>
#include <sstream>
#include <iostream>
#include <iomanip>
#include <stdexcept>
#include "buffer.h"

static std::string hex(const std::vector<std::uint8_t>& v) {
    std::stringstream ss;
    for (auto b : v) {
        ss << std::hex << std::setw(2) << std::setfill('0') << static_cast<int>(b);
    }
    return ss.str();
}

template<std::size_t N>
static void push_static(fcp::Buffer& b, std::uint64_t w, bool big) {
    b.PushWord<std::uint64_t, N>(w, big ? fcp::Endianess::Big : fcp::Endianess::Little);
}

int main() {
    std::string op;
    fcp::Buffer b{0};
    while (std::cin >> op) {
        try {
            if (op == "new") {
                std::size_t bits; std::cin >> bits;
                b = fcp::Buffer{bits};
            } else if (op == "from") {
                std::size_t n; std::cin >> n;
                std::vector<std::uint8_t> v;
                for (std::size_t i = 0; i < n; i++) { unsigned x; std::cin >> x; v.push_back(static_cast<std::uint8_t>(x)); }
                b = fcp::Buffer{v.begin(), v.end()};
            } else if (op == "insert") {
                std::size_t n; std::cin >> n;
                std::vector<std::uint8_t> v;
                for (std::size_t i = 0; i < n; i++) { unsigned x; std::cin >> x; v.push_back(static_cast<std::uint8_t>(x)); }
                b.Insert(v.begin(), v.end());
            } else if (op == "push") {
                std::uint64_t w; std::size_t n; int big; std::cin >> w >> n >> big;
                b.PushWord(w, n, big ? fcp::Endianess::Big : fcp::Endianess::Little);
            } else if (op == "spush") {
                std::uint64_t w; std::size_t n; int big; std::cin >> w >> n >> big;
                switch (n) {
                    case 1: push_static<1>(b, w, big); break;
                    case 3: push_static<3>(b, w, big); break;
                    case 8: push_static<8>(b, w, big); break;
                    case 12: push_static<12>(b, w, big); break;
                    case 16: push_static<16>(b, w, big); break;
                    case 32: push_static<32>(b, w, big); break;
                    case 33: push_static<33>(b, w, big); break;
                    case 64: push_static<64>(b, w, big); break;
                    default: throw std::logic_error("width not instantiated");
                }
            } else if (op == "get") {
                std::size_t n; int sign; std::cin >> n >> sign;
                std::cout << "got " << b.GetWord(n, sign != 0) << " ";
            }
            std::cout << hex(b.GetData()) << "\n";
        } catch (const std::runtime_error& e) {
            std::cout << "runtime_error " << hex(b.GetData()) << "\n";
        }
    }
    return 0;
}
"""


class ModelBuffer:
    """Model of fcp::Buffer: storage grows by whole zero bytes exactly when a written bit needs it."""

    def __init__(self, data):
        self.data = list(data)
        self.cursor = 0

    def push(self, word, n, big):
        if big:
            if n not in (8, 16, 32, 64):
                raise ValueError
            word = int.from_bytes((word & (2**n - 1)).to_bytes(n // 8, "little"), "big")
        for i in range(n):
            idx = self.cursor + i
            while len(self.data) <= idx >> 3:
                self.data.append(0)
            self.data[idx >> 3] = (self.data[idx >> 3] & ~(1 << (idx & 7))) | (((word >> i) & 1) << (idx & 7))
        self.cursor += n

    def get(self, n, sign):
        word = 0
        for i in range(n):
            idx = self.cursor + i
            word |= ((self.data[idx >> 3] >> (idx & 7)) & 1) << i
        self.cursor += n
        if sign and n < 64 and word >> (n - 1):
            word = (word - (1 << n)) % 2**64
        return word


def check_buffer(tmp, texts, rng):
    """fcp::Buffer against the model, on scripted and random operation sequences."""
    wd = tmp / "buffer"
    wd.mkdir()
    (wd / "buffer.h").write_text(texts["buffer.h"])
    (wd / "buf.cpp").write_text(BUFFER_CPP)
    r = subprocess.run(["g++"] + CXXFLAGS + ["-I", str(wd), "buf.cpp", "-o", "buf"], cwd=wd, capture_output=True, text=True)
    if r.returncode != 0:
        check(False, "buffer.h does not compile on its own:\n" + r.stderr[-3000:])
        return
    static_widths = [1, 3, 8, 12, 16, 32, 33, 64]
    script, expect = [], []
    model = ModelBuffer([])

    def emit(line, prefix=""):
        script.append(line)
        expect.append(prefix + bytes(model.data).hex())

    def do_push(kind, word, n, big):
        try:
            model.push(word, n, big)
            emit(f"{kind} {word} {n} {int(big)}")
        except ValueError:
            emit(f"{kind} {word} {n} {int(big)}", "runtime_error ")

    def reset(kind, arg):
        nonlocal model
        if kind == "new":
            model = ModelBuffer([0] * ((arg + 7) // 8))
            emit(f"new {arg}")
        else:
            model = ModelBuffer(arg)
            emit("from %d %s" % (len(arg), " ".join(map(str, arg))))

    # scripted corner cases
    reset("new", 0)
    do_push("push", 1, 0, False)  # zero bits: nothing happens
    do_push("spush", 5, 3, False)
    do_push("push", 0xABC, 12, True)  # refused, storage untouched
    do_push("spush", 0xABC, 12, True)
    do_push("push", 0x1FF, 9, False)  # crosses into a second byte
    do_push("spush", 2**64 - 1, 64, False)
    do_push("push", 0x0102, 16, True)
    do_push("spush", 1, 1, False)
    reset("new", 20)  # pre-sized: three zero bytes that are filled before growing
    do_push("push", 0xFFFF, 16, False)
    do_push("push", 0xF, 4, False)
    do_push("push", 0x3, 2, False)  # grows by one byte now
    do_push("spush", 0x1FFFFFFFF, 33, False)
    reset("new", 64)
    do_push("spush", 0x0102030405060708, 64, True)
    do_push("push", 1, 1, False)
    reset("from", [0xFF, 0xFF, 0xFF])  # existing data is overwritten bit by bit from the start
    do_push("push", 0, 3, False)
    do_push("spush", 0, 12, False)
    do_push("push", 0x155, 9, False)
    do_push("push", 0, 8, False)
    reset("new", 0)
    do_push("push", 0xAA, 8, False)
    model.data += [1, 2, 3, 4]
    emit("insert 4 1 2 3 4")  # inserted bytes sit beyond the cursor and are overwritten next
    do_push("push", 0, 12, False)
    do_push("spush", 0xFFFFFFFF, 32, True)
    model.data += []
    emit("insert 0")
    reset("from", [0x21, 0x43, 0xF5, 0xFF, 0x80])
    v = model.get(4, False)
    emit("get 4 0", f"got {v} ")
    v = model.get(12, True)
    emit("get 12 1", f"got {v} ")
    v = model.get(17, True)
    emit("get 17 1", f"got {v} ")
    do_push("push", 0x7F, 7, False)  # write right after the data that was read

    # random sequences
    for _ in range(40):
        if rng.random() < 0.5:
            reset("new", rng.choice([0, 0, 1, 7, 8, 9, 31, 64, 100]))
        else:
            reset("from", [rng.randrange(256) for _ in range(rng.randrange(0, 6))])
        for _ in range(rng.randrange(1, 12)):
            roll = rng.random()
            if roll < 0.15:
                extra = [rng.randrange(256) for _ in range(rng.randrange(0, 4))]
                model.data += extra
                emit("insert %d %s" % (len(extra), " ".join(map(str, extra))))
            elif roll < 0.55:
                n = rng.choice(static_widths)
                do_push("spush", rng.randrange(2**n), n, rng.random() < 0.3)
            else:
                n = rng.randrange(0, 65)
                do_push("push", rng.randrange(2**n) if n else 0, n, rng.random() < 0.2)

    r = subprocess.run([str(wd / "buf")], input="\n".join(script) + "\n", capture_output=True, text=True)
    got = r.stdout.splitlines()
    check(r.returncode == 0 and len(got) == len(expect), f"buffer harness: exit {r.returncode}, {len(got)} lines for {len(expect)} operations")
    print(f"buffer: {len(expect)} operations compared, {sum(1 for e in expect if e.startswith('runtime_error'))} refused")
    for i, (g, e) in enumerate(zip(got, expect)):
        if g != e:
            check(False, f"buffer op {i} `{script[i]}`: storage {g!r}, model says {e!r}")
            break


def main():
    rng = random.Random(20260304)
    tmp = Path(tempfile.mkdtemp(prefix="c03-demo-"))
    print("fcp_cpp from", os.path.dirname(fcp_cpp.__file__))
    try:
        # ---- 0. the plug-in's own schema and usage patterns --------------------------------
        check_api_usage(tmp)

        # ---- 1. all integer widths and enum sizes, every offset unaligned -----------------
        fcp = get_fcp_from_string(schema_widths()).unwrap()
        wd = tmp / "widths"
        wd.mkdir()
        texts = generate(fcp, wd)
        check_text_widths(fcp, texts)
        extra = {"dispatch": [], "includes": [], "lines": []}
        run_cases("w", fcp, texts, wd, ["AllU", "AllI", "AllE"], "fcp::", extra, rng, 6)
        check_buffer(tmp, texts, rng)

        # ---- 2. nested shapes, strings, optionals, rpc envelopes, endianess ------------------
        fcp = get_fcp_from_string(SCHEMA_SHAPES).unwrap()
        check_rpc(fcp)
        sd = tmp / "shapes"
        sd.mkdir()
        texts = generate(fcp, sd)
        check_text_endianess(texts)
        be_values = [
            {"a": 0, "b": 0, "c": 0, "d": 0, "e": 0, "f": 0},
            {"a": 255, "b": 65535, "c": 2**31 - 1, "d": 2**64 - 1, "e": 2**15 - 1, "f": 2**63 - 1},
            {"a": 1, "b": 0x0180, "c": -(2**31), "d": 0x0102030405060708, "e": -(2**15), "f": -(2**63)},
            {"a": 0x80, "b": 0x8001, "c": -2, "d": 0x80000000000000FF, "e": -2, "f": -2},
            {"a": 7, "b": 0xFF00, "c": 0x00FF00FF, "d": 1, "e": -32767, "f": 0x0180},
        ]
        extra = {
            "dispatch": [
                ("can::Be", "fcp::can::Be", "run"),
                ("can::BeBad", "fcp::can::BeBad", "throw"),
                ("can::Le", "fcp::can::Le", "run"),
                ("schema:Shapes", "Shapes", "schema"),
                ("schema:ReqInput", "ReqInput", "schema"),
                ("schema:Nope", "Nope", "schema"),
            ],
            "includes": ["fcp_can.h", "reflection.h", "rpc.h"],
            "lines": [("bad.0", "can::BeBad", {"a": 0xABC})],
        }
        shapes_value = gen_value(generate_rpc(fcp), T.StructType("Shapes"), rng, "rand")
        req_input_value = {"service_id": 3, "method_id": 2, "payload": {"k": 9, "v": -200}}
        extra["lines"].append(("schema.0", "schema:Shapes", shapes_value))
        extra["lines"].append(("schema.1", "schema:ReqInput", req_input_value))
        extra["lines"].append(("schema.2", "schema:Nope", {}))
        names = [
            "Inner", "Mid", "Shapes", "Floats", "Be", "BeBad", "Le", "Req", "Rsp",
            "ReqInput", "RspOutput", "LeInput", "FloatsOutput", "InnerInput", "MidOutput",
        ]
        got = run_cases("s", fcp, texts, sd, names, "fcp::", extra, rng, 8)

        # big-endian impl: bytes of each aligned field are reversed on the wire
        be_lines = []
        for i, v in enumerate(be_values):
            be_lines.append((f"be.{i}", "can::Be", v))
        le_value = {"a": 0xBEEF, "b": 9}
        be_lines.append(("le.0", "can::Le", le_value))
        extra2 = dict(extra)
        extra2["lines"] = []
        lines = []
        for key, type_key, v in be_lines:
            if type_key == "can::Be":
                ref = (
                    v["a"].to_bytes(1, "big")
                    + v["b"].to_bytes(2, "big")
                    + v["c"].to_bytes(4, "big", signed=True)
                    + v["d"].to_bytes(8, "big")
                    + v["e"].to_bytes(2, "big", signed=True)
                    + v["f"].to_bytes(8, "big", signed=True)
                )
            else:
                ref = ref_encode(fcp, "Le", v)
            lines.append(f"{key}\t{type_key}\t{ref.hex()}\t{json.dumps(v)}\n")
        dispatch = [(a, b, c) for a, b, c in extra["dispatch"]]
        got_be = build_and_run(sd, dispatch, extra["includes"], lines)
        for key, type_key, v in be_lines:
            if key not in got_be:
                check(False, f"{key}: no output")
                continue
            hexbytes, decoded, eq, stable, shared_hex, from_ref = got_be[key]
            ref = lines[[k for k, _, _ in be_lines].index(key)].split("\t")[2]
            check(hexbytes == ref, f"{key}: big-endian bytes {hexbytes}, wanted {ref}")
            check(json_equal(json.loads(decoded), v), f"{key}: decode gave {decoded}, wanted {v}")
            check(json_equal(json.loads(from_ref), v), f"{key}: decode of reference bytes gave {from_ref}")
            check(eq == "10" and stable == "1", f"{key}: eq {eq} stable {stable}")
            pre = Bits()
            pre.push(5, 3)
            for _ in range(2):
                if type_key == "can::Be":
                    for b in bytes.fromhex(ref):
                        pre.push(b, 8)
                else:
                    ref_pack(fcp, T.StructType("Le"), v, pre)
            check(shared_hex == pre.bytes().hex(), f"{key}: offset-3 encoding {shared_hex}")

        # error input: big-endian conversion of a 12-bit word is refused, with the same message
        check(
            got.get("bad.0") == ["runtime_error", "Big endian conversion only supported for 8, 16, 32, 64 bit values"],
            f"BeBad: {got.get('bad.0')}",
        )
        # StaticSchema front door
        rpc_fcp = generate_rpc(fcp)
        s0 = got.get("schema.0")
        check(
            s0 is not None
            and s0[0] == ref_encode(rpc_fcp, "Shapes", shapes_value).hex()
            and json_equal(json.loads(s0[1]), shapes_value)
            and s0[2] == "0",
            f"StaticSchema Shapes: {s0}",
        )
        s1 = got.get("schema.1")
        check(
            s1 is not None
            and s1[0] == ref_encode(rpc_fcp, "ReqInput", req_input_value).hex()
            and s1[0] == "0302" + ref_encode(fcp, "Req", req_input_value["payload"]).hex()
            and json.loads(s1[1]) == dict(req_input_value, __is_method_input=True),
            f"StaticSchema ReqInput: {s1}",
        )
        check(got.get("schema.2") == ["nullopt"], f"StaticSchema unknown message: {got.get('schema.2')}")
    finally:
        shutil.rmtree(tmp, ignore_errors=True)

    if FAILURES:
        print(f"FAIL ({len(FAILURES)} checks)")
        return 1
    print("PASS")
    return 0


if __name__ == "__main__":
    sys.exit(main())
