#!/venv/bin/python
"""C05 demo 2: one struct bound several times under different binding names.

`impl can for Sample as FrontLeft` binds struct Sample under the name
FrontLeft.  The DBC of each bus must contain, for every binding on that bus, one
message carrying the binding's frame id and the binding's name.
"""
import sys
import tempfile
from pathlib import Path

import cantools

from fcp.parser import get_fcp
from fcp_dbc import Generator

SCHEMA = """
version: "3"

struct Sample {
    speed @0: u16 | unit("rpm"),
    torque @1: i16 | unit("Nm"),
}

struct Status {
    code @0: u8,
}

impl can for Sample as FrontLeft {
    id: 32,
    bus: "chassis",
}

impl can for Sample as FrontRight {
    id: 33,
    bus: "chassis",
}

impl can for Sample {
    id: 34,
    bus: "chassis",
}

impl can for Status as Heartbeat {
    id: 40,
    bus: "body",
}
"""

# bus -> {frame id: binding name}
BINDINGS = {
    "chassis": {32: "FrontLeft", 33: "FrontRight", 34: "Sample"},
    "body": {40: "Heartbeat"},
}

SAMPLE_LEAVES = [("speed", 0, 16, False, "rpm"), ("torque", 16, 16, True, "Nm")]


def main():
    problems = []
    with tempfile.TemporaryDirectory() as tmp:
        path = Path(tmp) / "schema.fcp"
        path.write_text(SCHEMA)
        fcp = get_fcp(path).unwrap()
        results = Generator().generate(fcp, {"output": tmp})

    files = {result["bus"]: result["contents"] for result in results}
    if sorted(files) != sorted(BINDINGS):
        problems.append(f"bus files {sorted(files)}")

    for bus, expected in BINDINGS.items():
        if bus not in files:
            continue
        db = cantools.database.load_string(files[bus], "dbc", strict=False)
        got = sorted((m.frame_id, m.name) for m in db.messages)
        if got != sorted(expected.items()):
            problems.append(
                f"bus {bus}: dbc messages {got} != bindings {sorted(expected.items())}"
            )

    # the layout of the re-named bindings is that of the bound struct
    if "chassis" in files:
        db = cantools.database.load_string(files["chassis"], "dbc", strict=False)
        by_id = {m.frame_id: m for m in db.messages}
        for frame_id in (32, 33, 34):
            msg = by_id.get(frame_id)
            if msg is None:
                continue
            if msg.length != 4:
                problems.append(f"frame {frame_id}: length {msg.length}")
            for name, start, bits, signed, unit in SAMPLE_LEAVES:
                sig = msg.get_signal_by_name(name)
                got = (sig.start, sig.length, sig.is_signed, sig.unit)
                if got != (start, bits, signed, unit):
                    problems.append(f"frame {frame_id} signal {name}: {got}")
            data = (1234).to_bytes(2, "little") + (-77).to_bytes(2, "little", signed=True)
            decoded = dict(msg.decode(data, decode_choices=False, scaling=False))
            if decoded != {"speed": 1234, "torque": -77}:
                problems.append(f"frame {frame_id}: decoded {decoded}")

    if problems:
        print("FAIL")
        for problem in problems:
            print("  " + problem)
        return 1
    print("PASS")
    return 0


if __name__ == "__main__":
    sys.exit(main())
