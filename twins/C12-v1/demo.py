"""C12 demo 1: unit and range declared on the same field must both reach the reflection record.

Parses a schema whose fields carry `unit(...)` and `range(...)` annotations in
both possible orders, builds the reflection record, round-trips it through the
built-in reflection schema and checks that every field is described with the
unit and range written in the source.
"""
import sys

from fcp.parser import get_fcp_from_string
from fcp.reflection import get_reflection_schema
from fcp.serde import encode, decode

SOURCE = """version: "3"

struct Engine {
    rpm @0: u16 | range(0.0, 9000.0) | unit("1/min"),
    coolant @1: i16 | unit("C") | range(-40.0, 150.0),
    load @2: u8 | unit("%"),
    torque @3: f32 | range(-500.0, 500.0),
    gear @4: u8,
}
"""

# name -> (unit, min, max) as written in SOURCE
DECLARED = {
    "rpm": ("1/min", 0.0, 9000.0),
    "coolant": ("C", -40.0, 150.0),
    "load": ("%", None, None),
    "torque": (None, -500.0, 500.0),
    "gear": (None, None, None),
}


def main() -> int:
    fcp = get_fcp_from_string(SOURCE).unwrap()
    record = fcp.reflection()

    schema = get_reflection_schema().unwrap()
    decoded = decode(schema, "Fcp", encode(schema, "Fcp", record))

    ok = True
    if decoded != record:
        print("round trip through the reflection schema changed the record")
        ok = False

    fields = {f["name"]: f for f in decoded["structs"][0]["fields"]}
    for name, (unit, low, high) in DECLARED.items():
        got = (fields[name]["unit"], fields[name]["min_value"], fields[name]["max_value"])
        if got != (unit, low, high):
            print(f"field {name}: declared {(unit, low, high)}, reflected {got}")
            ok = False

    print("PASS" if ok else "FAIL")
    return 0 if ok else 1


if __name__ == "__main__":
    sys.exit(main())
