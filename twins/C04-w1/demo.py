#!/venv/bin/python
"""Differential test for property C04 (packed CAN layout tiles the message).

Run with the worktree on PYTHONPATH, e.g.

    cd /tmp/twin3-C04 && PYTHONPATH=/tmp/twin3-C04/src:/tmp/twin3-C04/plugins/fcp_dbc:\
/tmp/twin3-C04/plugins/fcp_can_c:/tmp/twin3-C04/plugins/fcp_cpp:/tmp/twin3-C04/plugins/fcp_nop \
        /venv/bin/python demo.py

The script carries its own, independently written reference model of the
layout (``oracle_layout``) and compares fcp.encoding.PackedEncoder against it
on hand-picked and randomly generated struct shapes, on sequences of
generate() calls on ONE encoder, on schemas parsed from source text and on
error inputs.  Prints PASS and exits 0 when everything agrees.
"""

import math
import os
import random
import sys
from copy import copy
from pathlib import Path

from fcp.encoding import PackedEncoder, PackedEncoderContext, Value, make_encoder
from fcp.maybe import Some, Nothing
from fcp.parser import get_fcp, get_fcp_from_string
from fcp.specs.enum import Enum, Enumeration
from fcp.specs.impl import Impl
from fcp.specs.metadata import MetaData
from fcp.specs.signal_block import SignalBlock
from fcp.specs.struct import Struct
from fcp.specs.struct_field import StructField
from fcp.specs.type import (
    ArrayType,
    DoubleType,
    DynamicArrayType,
    EnumType,
    FloatType,
    OptionalType,
    SignedType,
    StringType,
    StructType,
    UnsignedType,
)
from fcp.specs.v2 import FcpV2

FCP_ROOT = Path(os.environ.get("FCP_ROOT", "/tmp/twin3-C04"))

CHECKS = 0


def check(cond, msg):
    global CHECKS
    CHECKS += 1
    if not cond:
        print("FAIL:", msg)
        sys.exit(1)


def meta():
    return MetaData(
        line=1,
        end_line=1,
        column=1,
        end_column=1,
        start_pos=1,
        end_pos=1,
        filename="demo.fcp",
    )


# --------------------------------------------------------------------------
# reference model
# --------------------------------------------------------------------------


class Unsupported(Exception):
    """The reference model says the encoder has to refuse this shape."""


def enum_width(max_value):
    if max_value in (0, 1):
        return 1
    return math.floor(math.log2(max_value) + 1)


def scalar_width(fcp, type):
    """Wire width of one non-struct leaf type."""
    if isinstance(type, (UnsignedType, SignedType)):
        return int(type.name[1:])
    if isinstance(type, FloatType):
        return 32
    if isinstance(type, DoubleType):
        return 64
    if isinstance(type, EnumType):
        for enum in fcp.enums:
            if enum.name == type.name:
                return enum_width(max(e.value for e in enum.enumeration))
        raise Unsupported("no such enum")
    if isinstance(type, ArrayType):
        return type.size * scalar_width(fcp, type.underlying_type)
    raise Unsupported(str(type))


def oracle_leaves(fcp, impl, struct_name, unroll, prefix=""):
    """Yield (name, type, width, options, unit) in wire order."""
    struct = next(s for s in fcp.structs if s.name == struct_name)
    by_id = list(struct.fields)
    by_id.sort(key=lambda f: f.field_id)
    for field in by_id:
        yield from oracle_field(
            fcp, impl, field.name, field.type, field.unit, unroll, prefix
        )


def oracle_field(fcp, impl, name, type, unit, unroll, prefix):
    if isinstance(type, StructType):
        yield from oracle_leaves(fcp, impl, type.name, unroll, prefix + name + "::")
    elif isinstance(type, ArrayType) and unroll:
        for i in range(type.size):
            yield from oracle_field(
                fcp, impl, f"{name}_{i}", type.underlying_type, unit, unroll, prefix
            )
    else:
        options = {}
        for block in impl.signals:
            if block.name == name:
                options = block.fields
                break
        yield (prefix + name, type, scalar_width(fcp, type), options, unit)


def oracle_layout(fcp, impl, unroll):
    out = []
    position = 0
    for name, type, width, options, unit in oracle_leaves(
        fcp, impl, impl.type, unroll
    ):
        out.append(
            dict(
                name=name,
                type=type,
                bitstart=position,
                bitlength=width,
                endianess=options.get("endianess") or "little",
                extended_data=options,
                unit=unit,
            )
        )
        position += width
    return out


def as_dicts(values):
    return [
        dict(
            name=v.name,
            type=v.type,
            bitstart=v.bitstart,
            bitlength=v.bitlength,
            endianess=v.endianess,
            extended_data=v.extended_data,
            unit=v.unit,
        )
        for v in values
    ]


def check_tiling(values, what):
    position = 0
    seen = set()
    for v in values:
        check(v.bitstart == position, f"{what}: {v.name} starts at {v.bitstart}, expected {position}")
        check(v.bitlength >= 0, f"{what}: negative width")
        check(v.name not in seen, f"{what}: duplicate name {v.name}")
        seen.add(v.name)
        position += v.bitlength
    return position


def outcome(fn):
    """Run fn, return ('ok', result) or ('err', exception class name, message)."""
    try:
        return ("ok", fn())
    except RecursionError:
        return ("err", "RecursionError", "")
    except Exception as e:  # noqa: BLE001
        return ("err", type(e).__name__, str(e))


def check_against_oracle(fcp, impl, unroll, encoder=None, what=""):
    encoder = encoder or PackedEncoder(
        fcp, PackedEncoderContext().with_unroll_arrays(unroll)
    )
    expected = outcome(lambda: oracle_layout(fcp, impl, unroll))
    got = outcome(lambda: encoder.generate(impl))
    if expected[0] == "ok":
        check(got[0] == "ok", f"{what}: encoder raised {got[1:]} on a supported shape")
        values = got[1]
        check(
            as_dicts(values) == expected[1],
            f"{what}: layout differs\n got {as_dicts(values)}\n exp {expected[1]}",
        )
        for v, e in zip(values, expected[1]):
            # the per-signal option dict is the signal block's own dict
            if e["extended_data"]:
                check(v.extended_data is e["extended_data"], f"{what}: options copied")
            check(isinstance(v.composite_type, Nothing), f"{what}: composite type set")
        total = check_tiling(values, what)
        check(encoder.bitstart == total, f"{what}: encoder.bitstart {encoder.bitstart} != {total}")
        check(encoder.encoding is values, f"{what}: encoder.encoding is not the result")
        return values
    else:
        check(got[0] == "err", f"{what}: encoder accepted an unsupported shape: {got}")
        check(got[1] == "ValueError", f"{what}: expected ValueError got {got}")
        check(
            got[2].startswith("Error computing type length for type "),
            f"{what}: unexpected message {got[2]}",
        )
        return None


# --------------------------------------------------------------------------
# 1. enum widths, every interesting max value
# --------------------------------------------------------------------------


def test_enum_widths():
    maxima = list(range(0, 70))
    for k in range(2, 47):
        maxima += [2**k - 1, 2**k, 2**k + 1]
    for m in maxima:
        expected = max(1, m.bit_length())
        enum = Enum("E", [Enumeration("z", 0), Enumeration("m", m)], meta())
        check(enum.get_packed_size() == expected, f"enum max {m}: packed size")
        check(enum.max() == m, f"enum max {m}: max()")
        # as a field, in the middle of a message, at an unaligned offset
        struct = Struct(
            "S",
            [
                StructField("tail", 9, UnsignedType("u5")),
                StructField("e", 4, EnumType("E")),
                StructField("head", 1, UnsignedType("u3")),
            ],
        )
        impl = Impl("S", "can", "S", {}, [], meta())
        fcp = FcpV2(structs=[struct], enums=[enum], impls=[impl])
        for unroll in (False, True):
            values = check_against_oracle(fcp, impl, unroll, what=f"enum max {m}")
            check(
                [(v.name, v.bitstart, v.bitlength) for v in values]
                == [("head", 0, 3), ("e", 3, expected), ("tail", 3 + expected, 5)],
                f"enum max {m}: layout",
            )
    # order of the enumerators does not matter
    enum = Enum("E", [Enumeration("b", 9), Enumeration("a", 2), Enumeration("c", 4)])
    check(enum.get_packed_size() == 4 and enum.max() == 9, "unsorted enumerators")


# --------------------------------------------------------------------------
# 2. scalar widths 1..64 at every offset
# --------------------------------------------------------------------------


def test_scalar_widths():
    for width in range(1, 65):
        for kind, ctor in (("u", UnsignedType), ("i", SignedType)):
            t = ctor(f"{kind}{width}")
            struct = Struct(
                "S",
                [
                    StructField("c", 30, UnsignedType("u1")),
                    StructField("b", 20, t),
                    StructField("a", 10, UnsignedType(f"u{(width % 7) + 1}")),
                ],
            )
            impl = Impl("S", "can", "S", {}, [], meta())
            fcp = FcpV2(structs=[struct], impls=[impl])
            values = check_against_oracle(fcp, impl, True, what=f"{kind}{width}")
            check(values[1].bitlength == width, f"{kind}{width}: width")
            check(values[1].bitstart == (width % 7) + 1, f"{kind}{width}: start")
    struct = Struct(
        "S",
        [
            StructField("d", 1, DoubleType()),
            StructField("f", 0, FloatType()),
            StructField("fa", 2, ArrayType(FloatType(), 3)),
        ],
    )
    impl = Impl("S", "can", "S", {}, [], meta())
    fcp = FcpV2(structs=[struct], impls=[impl])
    values = check_against_oracle(fcp, impl, False, what="floats")
    check(
        [(v.name, v.bitstart, v.bitlength) for v in values]
        == [("f", 0, 32), ("d", 32, 64), ("fa", 96, 96)],
        "floats layout",
    )
    values = check_against_oracle(fcp, impl, True, what="floats unrolled")
    check(
        [(v.name, v.bitstart, v.bitlength) for v in values]
        == [("f", 0, 32), ("d", 32, 64), ("fa_0", 96, 32), ("fa_1", 128, 32), ("fa_2", 160, 32)],
        "floats unrolled layout",
    )


# --------------------------------------------------------------------------
# 3. a fixed, fully spelled out nested example
# --------------------------------------------------------------------------


def test_spelled_out():
    enum = Enum("Mode", [Enumeration("off", 0), Enumeration("x", 5)], meta())
    inner = Struct(
        "Inner",
        [
            StructField("q", 1, EnumType("Mode")),
            StructField("p", 0, UnsignedType("u3"), unit="V"),
        ],
    )
    outer = Struct(
        "Outer",
        [
            StructField("z", 2, ArrayType(ArrayType(UnsignedType("u2"), 2), 2)),
            StructField("x", 1, ArrayType(StructType("Inner"), 2)),
            StructField("y", 0, UnsignedType("u7"), unit="m"),
            StructField("w", 3, StructType("Inner")),
            StructField("e", 7, ArrayType(EnumType("Mode"), 3)),
        ],
    )
    y_opts = {"endianess": "big"}
    p_opts = {"mux_signal": "y", "mux_count": 4}
    e1_opts = {"endianess": "big", "k": 1}
    impl = Impl(
        "Outer",
        "can",
        "Outer",
        {"id": 1},
        [
            SignalBlock("y", y_opts, meta()),
            SignalBlock("p", p_opts, meta()),
            SignalBlock("e_1", e1_opts, meta()),
            # a second block of the same name is shadowed by the first
            SignalBlock("y", {"endianess": "little", "shadow": True}, meta()),
            # block for a field that does not exist: no effect
            SignalBlock("nothing", {"endianess": "big"}, meta()),
            # block named after a struct-typed field: no leaf carries it
            SignalBlock("w", {"endianess": "big"}, meta()),
            # block named after an unrolled array field: no leaf carries it
            SignalBlock("z", {"endianess": "big"}, meta()),
        ],
        meta(),
    )
    fcp = FcpV2(structs=[inner, outer], enums=[enum], impls=[impl])
    values = check_against_oracle(fcp, impl, True, what="spelled out")
    got = [
        (v.name, v.bitstart, v.bitlength, v.endianess, v.extended_data, v.unit)
        for v in values
    ]
    exp = [
        ("y", 0, 7, "big", y_opts, "m"),
        ("x_0::p", 7, 3, "little", p_opts, "V"),
        ("x_0::q", 10, 3, "little", {}, None),
        ("x_1::p", 13, 3, "little", p_opts, "V"),
        ("x_1::q", 16, 3, "little", {}, None),
        ("z_0_0", 19, 2, "little", {}, None),
        ("z_0_1", 21, 2, "little", {}, None),
        ("z_1_0", 23, 2, "little", {}, None),
        ("z_1_1", 25, 2, "little", {}, None),
        ("w::p", 27, 3, "little", p_opts, "V"),
        ("w::q", 30, 3, "little", {}, None),
        ("e_0", 33, 3, "little", {}, None),
        ("e_1", 36, 3, "big", e1_opts, None),
        ("e_2", 39, 3, "little", {}, None),
    ]
    check(got == exp, f"spelled out layout\n got {got}\n exp {exp}")
    check(values[0].type == UnsignedType("u7"), "leaf type y")
    check(values[2].type == EnumType("Mode"), "leaf type q")
    check(values[5].type == UnsignedType("u2"), "leaf type z_0_0")
    check(values[11].type == EnumType("Mode"), "leaf type e_0")
    # leaves without options do not share one dict
    values[2].extended_data["poison"] = 1
    check(values[4].extended_data == {}, "default option dicts are shared")
    del values[2].extended_data["poison"]
    # the struct definitions were not modified by unrolling
    check(outer.fields[1].name == "x" and isinstance(outer.fields[1].type, ArrayType), "field x mutated")
    check([f.name for f in outer.fields] == ["z", "x", "y", "w", "e"], "declaration order mutated")

    # not unrolled: arrays of scalars are one leaf, the signal block of the array applies
    outer2 = Struct("Outer2", [f for f in outer.fields if f.name != "x"])
    impl2 = copy(impl)
    impl2.type = "Outer2"
    fcp2 = FcpV2(structs=[inner, outer2], enums=[enum], impls=[impl2])
    values = check_against_oracle(fcp2, impl2, False, what="spelled out rolled")
    got = [(v.name, v.bitstart, v.bitlength, v.endianess) for v in values]
    exp = [
        ("y", 0, 7, "big"),
        ("z", 7, 8, "big"),
        ("w::p", 15, 3, "little"),
        ("w::q", 18, 3, "little"),
        ("e", 21, 9, "little"),
    ]
    check(got == exp, f"rolled layout\n got {got}\n exp {exp}")
    # array of structs cannot be laid out without unrolling; leaves before it stay
    encoder = PackedEncoder(fcp, PackedEncoderContext())
    got = outcome(lambda: encoder.generate(impl))
    check(
        got == ("err", "ValueError", "Error computing type length for type " + str(StructType("Inner"))),
        f"array of structs, rolled: {got}",
    )
    check([v.name for v in encoder.encoding] == ["y"] and encoder.bitstart == 7, "partial state after error")
    # and the encoder is usable afterwards
    good = Impl("Inner", "can", "Inner", {}, [], meta())
    check(
        [(v.name, v.bitstart, v.bitlength) for v in encoder.generate(good)]
        == [("p", 0, 3), ("q", 3, 3)],
        "encoder reuse after error",
    )


# --------------------------------------------------------------------------
# 4. random shapes + sequences of generate() calls on one encoder
# --------------------------------------------------------------------------


def random_fcp(rng, n_structs):
    enums = []
    for i in range(rng.randint(1, 4)):
        top = rng.choice([0, 1, 2, 3, 4, 7, 8, 15, 16, 255, 256, 1000, 2**31, 2**40 - 1])
        members = [Enumeration(f"m{j}", v) for j, v in enumerate({0, top, top // 2})]
        rng.shuffle(members)
        enums.append(Enum(f"E{i}", members, meta()))

    def scalar():
        r = rng.random()
        if r < 0.45:
            return UnsignedType(f"u{rng.randint(1, 64)}")
        if r < 0.7:
            return SignedType(f"i{rng.randint(1, 64)}")
        if r < 0.78:
            return FloatType()
        if r < 0.84:
            return DoubleType()
        return EnumType(rng.choice(enums).name)

    structs = []
    field_names = ["a", "b", "c", "d", "e", "f", "g", "h", "x", "y"]
    for i in range(n_structs):

        def any_type(depth=0):
            r = rng.random()
            if r < 0.25 and depth < 3:
                return ArrayType(any_type(depth + 1), rng.randint(0, 3))
            if r < 0.5 and structs:
                return StructType(rng.choice(structs).name)
            return scalar()

        names = rng.sample(field_names, rng.randint(0 if i else 1, 6))
        ids = rng.sample(range(0, 40), len(names))
        fields = [
            StructField(n, fid, any_type(), unit=rng.choice([None, None, "m", "V"]))
            for n, fid in zip(names, ids)
        ]
        structs.append(Struct(f"S{i}", fields))

    impls = []
    for s in structs:
        for proto in ("can", "default"):
            blocks = []
            for n in rng.sample(field_names + ["a_0", "a_1", "b_1", "x_0", "y_0_1"], rng.randint(0, 5)):
                opts = {}
                if rng.random() < 0.6:
                    opts["endianess"] = rng.choice(["big", "little"])
                if rng.random() < 0.4:
                    opts["mux_signal"] = rng.choice(field_names)
                    opts["mux_count"] = rng.randint(1, 8)
                blocks.append(SignalBlock(n, opts, meta()))
            impls.append(Impl(s.name + "_" + proto, proto, s.name, {"id": len(impls)}, blocks, meta()))
    return FcpV2(structs=structs, enums=enums, impls=impls)


def snapshot(result):
    if result[0] == "ok":
        return ("ok", as_dicts(result[1]), [id(v.extended_data) for v in result[1] if v.extended_data])
    return result


def test_random_shapes():
    rng = random.Random(0xC04)
    for round_ in range(120):
        fcp = random_fcp(rng, rng.randint(1, 6))
        for unroll in (True, False):
            ctx = PackedEncoderContext().with_unroll_arrays(unroll)
            fresh = {}
            for impl in fcp.impls:
                check_against_oracle(fcp, impl, unroll, what=f"random {round_} {impl.name} unroll={unroll}")
                fresh[impl.name] = snapshot(
                    outcome(lambda: PackedEncoder(fcp, ctx).generate(impl))
                )
            # one encoder, many calls, any order, with repeats
            shared = make_encoder("packed", fcp, ctx)
            order = [rng.choice(fcp.impls) for _ in range(3 * len(fcp.impls))]
            for impl in order:
                got = snapshot(outcome(lambda: shared.generate(impl)))
                check(
                    got == fresh[impl.name],
                    f"random {round_}: {impl.name} depends on call history\n got {got}\n exp {fresh[impl.name]}",
                )
            # results of earlier calls are not rewritten by later calls
            first = outcome(lambda: shared.generate(fcp.impls[0]))
            before = snapshot(first)
            for impl in fcp.impls[1:]:
                outcome(lambda: shared.generate(impl))
            check(snapshot(first) == before, f"random {round_}: earlier result rewritten")


def test_mutation_between_calls():
    """The schema may be edited between two generate() calls on one encoder."""
    enum = Enum("E", [Enumeration("a", 0), Enumeration("b", 3)], meta())
    struct = Struct(
        "S",
        [
            StructField("arr", 1, ArrayType(EnumType("E"), 2)),
            StructField("e", 0, EnumType("E")),
            StructField("n", 2, UnsignedType("u4")),
        ],
    )
    impl = Impl("S", "can", "S", {}, [SignalBlock("e", {"endianess": "big"}, meta())], meta())
    other = Impl("S2", "can", "S", {}, [SignalBlock("n", {"endianess": "big"}, meta())], meta())
    fcp = FcpV2(structs=[struct], enums=[enum], impls=[impl, other])
    for unroll in (True, False):
        encoder = PackedEncoder(fcp, PackedEncoderContext(unroll))
        check_against_oracle(fcp, impl, unroll, encoder, "mutation: before")
        check_against_oracle(fcp, other, unroll, encoder, "mutation: other impl")
        enum.enumeration.append(Enumeration("c", 100))
        check_against_oracle(fcp, impl, unroll, encoder, "mutation: enum grew")
        impl.signals.insert(0, SignalBlock("e", {"endianess": "little", "v": 2}, meta()))
        impl.signals.append(SignalBlock("arr_1", {"endianess": "big"}, meta()))
        impl.signals.append(SignalBlock("arr", {"endianess": "big"}, meta()))
        check_against_oracle(fcp, impl, unroll, encoder, "mutation: signals edited")
        struct.fields[2].type = UnsignedType("u9")
        struct.fields[2].field_id = -1
        v = check_against_oracle(fcp, impl, unroll, encoder, "mutation: field edited")
        check(v[0].name == "n" and v[0].bitlength == 9, "mutation: field edited layout")
        check_against_oracle(fcp, other, unroll, encoder, "mutation: other impl again")
        # restore
        enum.enumeration.pop()
        del impl.signals[0]
        del impl.signals[-2:]
        struct.fields[2].type = UnsignedType("u4")
        struct.fields[2].field_id = 2


# --------------------------------------------------------------------------
# 5. corner cases and error inputs
# --------------------------------------------------------------------------


def test_corner_cases():
    enum = Enum("E", [Enumeration("a", 0), Enumeration("b", 5)], meta())
    zero = Enum("Z", [Enumeration("a", 0)], meta())
    huge = Enum("H", [Enumeration("a", 2**70)], meta())
    a = Struct("A", [StructField("s1", 0, UnsignedType("u32")), StructField("s2", 1, UnsignedType("u16"))])
    empty = Struct("Empty", [])
    fcp = FcpV2(structs=[a, empty], enums=[enum, zero, huge])

    def gen(struct, unroll=True, signals=()):
        if not any(s is struct for s in fcp.structs):
            fcp.structs.append(struct)
        impl = Impl(struct.name, "can", struct.name, {}, list(signals), meta())
        enc = PackedEncoder(fcp, PackedEncoderContext(unroll))
        return outcome(lambda: enc.generate(impl)), enc

    # empty struct, empty struct as a member, zero sized arrays
    r, enc = gen(empty)
    check(r == ("ok", []) and enc.bitstart == 0, f"empty struct {r}")
    s = Struct(
        "WithEmpty",
        [
            StructField("k", 5, UnsignedType("u2")),
            StructField("none", 3, StructType("Empty")),
            StructField("z", 4, ArrayType(StructType("A"), 0)),
            StructField("j", 1, UnsignedType("u1")),
        ],
    )
    r, enc = gen(s)
    check([(v.name, v.bitstart, v.bitlength) for v in r[1]] == [("j", 0, 1), ("k", 1, 2)], f"empty members {r}")

    # equal field ids keep declaration order (stable sort)
    s = Struct("Ties", [StructField(n, 1, UnsignedType(f"u{w}")) for n, w in (("c", 3), ("a", 5), ("b", 7))] + [StructField("first", 0, UnsignedType("u1"))])
    r, enc = gen(s)
    check([(v.name, v.bitstart) for v in r[1]] == [("first", 0), ("c", 1), ("a", 4), ("b", 9)], f"ties {r}")

    # the ctx may be the class itself as long as no array is met (tests/test_packed_encoding.py does this)
    b = Struct("B", [StructField("s1", 0, StructType("A")), StructField("s2", 1, UnsignedType("u8"))])
    fcp.structs.append(b)
    impl_b = Impl("B", "can", "B", {}, [], meta())
    enc = PackedEncoder(fcp, PackedEncoderContext)
    check(
        enc.generate(impl_b)
        == [
            Value("s1::s1", UnsignedType("u32"), bitstart=0, bitlength=32),
            Value("s1::s2", UnsignedType("u16"), bitstart=32, bitlength=16),
            Value("s2", UnsignedType("u8"), bitstart=48, bitlength=8),
        ],
        "ctx class",
    )
    s = Struct("ArrAfter", [StructField("h", 0, UnsignedType("u8")), StructField("arr", 1, ArrayType(UnsignedType("u8"), 2))])
    fcp.structs.append(s)
    enc = PackedEncoder(fcp, PackedEncoderContext)
    r = outcome(lambda: enc.generate(Impl("x", "can", "ArrAfter", {}, [], meta())))
    check(r[:2] == ("err", "AttributeError"), f"ctx class with array {r}")
    check([v.name for v in enc.encoding] == ["h"], "ctx class with array: partial state")

    # a struct-typed reference that names an enum: one leaf, named after the path
    s = Struct(
        "EnumAsStruct",
        [
            StructField("lead", 0, UnsignedType("u3")),
            StructField("mode", 1, StructType("E")),
            StructField("zero", 2, StructType("Z")),
            StructField("arr", 3, ArrayType(StructType("E"), 2)),
            StructField("tail", 4, UnsignedType("u2")),
        ],
    )
    r, enc = gen(s, signals=[SignalBlock("mode", {"endianess": "big"}, meta())])
    check(r[0] == "ok", f"enum as struct {r}")
    got = [(v.name, v.bitstart, v.bitlength, v.endianess, v.extended_data, v.composite_type) for v in r[1]]
    exp = [
        ("lead", 0, 3, "little", {}, Nothing()),
        ("mode", 3, 3, "little", {}, Some("E")),
        ("zero", 6, 0, "little", {}, Some("Z")),
        ("arr_0", 6, 3, "little", {}, Some("E")),
        ("arr_1", 9, 3, "little", {}, Some("E")),
        ("tail", 12, 2, "little", {}, Nothing()),
    ]
    check(got == exp, f"enum as struct\n got {got}\n exp {exp}")
    check(r[1][1].type == StructType("E"), "enum as struct: leaf type")
    check(enc.bitstart == 14, "enum as struct: total")

    # binding whose type names an enum
    enc = PackedEncoder(fcp, PackedEncoderContext())
    r = outcome(lambda: enc.generate(Impl("E", "can", "E", {}, [], meta())))
    check(r[0] == "ok" and [(v.name, v.bitstart, v.bitlength) for v in r[1]] == [("", 0, 3)], f"impl of enum {r}")

    # too wide an enum through the struct-reference path
    s = Struct("HugeRef", [StructField("ok", 0, UnsignedType("u4")), StructField("h", 1, StructType("H"))])
    r, enc = gen(s)
    check(r == ("err", "ValueError", "Way too large an enum, computed size: 70"), f"huge enum {r}")
    check([v.name for v in enc.encoding] == ["ok"] and enc.bitstart == 4, "huge enum: partial state")

    # unknown names
    enc = PackedEncoder(fcp, PackedEncoderContext())
    r1 = outcome(lambda: enc.generate(Impl("nope", "can", "Nope", {}, [], meta())))
    check(r1[0] == "err" and enc.encoding == [] and enc.bitstart == 0, f"unknown struct {r1}")
    s = Struct("BadRef", [StructField("ok", 0, UnsignedType("u4")), StructField("bad", 1, StructType("Nope"))])
    r2, enc = gen(s)
    check(r2[0] == "err" and r2[1] == r1[1] and [v.name for v in enc.encoding] == ["ok"], f"unknown member struct {r2}")
    s = Struct("BadEnum", [StructField("ok", 0, UnsignedType("u4")), StructField("bad", 1, EnumType("Nope")), StructField("after", 2, UnsignedType("u4"))])
    r3, enc = gen(s)
    check(r3[0] == "err" and r3[1] == r1[1] and [v.name for v in enc.encoding] == ["ok"], f"unknown enum {r3}")
    s = Struct("BadEnumArr", [StructField("bad", 1, ArrayType(EnumType("Nope"), 2))])
    for unroll in (True, False):
        r4, enc = gen(s, unroll)
        check(r4[0] == "err" and r4[1] == r1[1] and enc.encoding == [], f"unknown enum in array {r4}")

    # variable size members
    for i, t in enumerate((StringType(), DynamicArrayType(UnsignedType("u8")), OptionalType(UnsignedType("u8")), ArrayType(StringType(), 2))):
        s = Struct(f"Var{i}", [StructField("ok", 0, UnsignedType("u4")), StructField("v", 1, t), StructField("after", 2, UnsignedType("u4"))])
        for unroll in (True, False):
            r, enc = gen(s, unroll)
            inner = t.underlying_type if isinstance(t, ArrayType) else t
            check(
                r == ("err", "ValueError", "Error computing type length for type " + str(inner)),
                f"variable size member {t}: {r}",
            )
            check([v.name for v in enc.encoding] == ["ok"] and enc.bitstart == 4, "variable size member: partial state")

    # a struct that (by hand) contains itself, directly or through an array / another struct
    for i, t in enumerate((StructType("Loop0"), ArrayType(StructType("Loop1"), 2), StructType("Mid"))):
        s = Struct(f"Loop{i}", [StructField("head", 0, UnsignedType("u4")), StructField("again", 1, t)])
        if i == 2:
            fcp.structs.append(Struct("Mid", [StructField("back", 0, StructType("Loop2"))]))
        r, enc = gen(s)
        check(r[:2] == ("err", "RecursionError"), f"cyclic struct {i}: {r}")
    # ... but the same struct twice side by side, or under an empty array, is fine
    s = Struct(
        "Twice",
        [
            StructField("l", 0, StructType("A")),
            StructField("r", 1, StructType("A")),
            StructField("m", 2, ArrayType(StructType("B"), 2)),
        ],
    )
    r, enc = gen(s)
    check(
        [(v.name, v.bitstart) for v in r[1]]
        == [("l::s1", 0), ("l::s2", 32), ("r::s1", 48), ("r::s2", 80), ("m_0::s1::s1", 96), ("m_0::s1::s2", 128), ("m_0::s2", 144), ("m_1::s1::s1", 152), ("m_1::s1::s2", 184), ("m_1::s2", 200)],
        f"same struct twice {r}",
    )
    s = Struct("SelfEmpty", [StructField("h", 0, UnsignedType("u4")), StructField("none", 1, ArrayType(StructType("SelfEmpty"), 0))])
    r, enc = gen(s)
    check(r[0] == "ok" and [(v.name, v.bitstart) for v in r[1]] == [("h", 0)], f"self reference under empty array {r}")

    # two structs of one name: the first one wins, everywhere
    fcp.structs.append(Struct("A", [StructField("other", 0, UnsignedType("u1"))]))
    check([v.name for v in PackedEncoder(fcp, PackedEncoderContext()).generate(impl_b)] == ["s1::s1", "s1::s2", "s2"], "duplicate struct name")

    r = outcome(lambda: make_encoder("loose", fcp, PackedEncoderContext()))
    check(r[:2] == ("err", "KeyError"), f"unknown encoder {r}")


# --------------------------------------------------------------------------
# 6. schemas from source text, through the parser and the shipped examples
# --------------------------------------------------------------------------

SOURCE = """version: "3"

enum Gear { P = 0, R = 1, N = 2, D = 3, S = 4, }
enum Flag { Off = 0, On = 1, }

struct Wheel {
    speed @1: u13 | unit("rpm"),
    slip @0: Flag,
}

struct Axle {
    wheels @0: [Wheel, 2],
    load @1: i11,
}

struct Car {
    gear @3: Gear,
    axles @2: [Axle, 2],
    vin @0: [u8, 3],
    odo @1: f32,
    grid @4: [[u3, 2], 2],
}

impl can for Car {
    id: 10,
    signal gear { endianess: "big", },
    signal speed { mux_signal: "gear", mux_count: 5, },
    signal vin_1 { endianess: "big", },
}

impl can for Axle {
    id: 11,
    signal load { endianess: "big", },
}
"""


def test_from_source():
    fcp = get_fcp_from_string(SOURCE).unwrap()
    by_type = {}
    for impl in fcp.impls:
        by_type.setdefault(impl.type, []).append(impl)
    for unroll in (True, False):
        for impl in fcp.impls:
            check_against_oracle(fcp, impl, unroll, what=f"source {impl.name}/{impl.protocol} unroll={unroll}")
    car = next(i for i in fcp.impls if i.type == "Car" and i.protocol == "can")
    axle = next(i for i in fcp.impls if i.type == "Axle" and i.protocol == "can")
    enc = make_encoder("packed", fcp, PackedEncoderContext().with_unroll_arrays(True))
    values = enc.generate(car)
    names = [v.name for v in values]
    check(names[:4] == ["vin_0", "vin_1", "vin_2", "odo"], f"source names {names}")
    check(names[4:7] == ["axles_0::wheels_0::slip", "axles_0::wheels_0::speed", "axles_0::wheels_1::slip"], f"source names {names}")
    check(names[-5:] == ["gear", "grid_0_0", "grid_0_1", "grid_1_0", "grid_1_1"], f"source names {names}")
    total = check_tiling(values, "source Car")
    check(total == 24 + 32 + 2 * (2 * 14 + 11) + 3 + 12, f"source total {total}")
    for v in values:
        last = v.name.split("::")[-1]
        if last == "gear" or last == "vin_1":
            check(v.endianess == "big", f"{v.name} should be big endian")
        else:
            check(v.endianess == "little", f"{v.name} should be little endian")
        if last == "speed":
            check(v.extended_data.get("mux_signal") == "gear" and v.unit == "rpm", f"{v.name} options")
        else:
            check("mux_signal" not in v.extended_data, f"{v.name} has foreign options")
    # 'load' is big endian only in the Axle binding, whatever was generated before
    for _ in range(2):
        check(all(v.endianess == "little" for v in enc.generate(car) if v.name.endswith("load")), "load leaked")
        check([v.endianess for v in enc.generate(axle) if v.name == "load"] == ["big"], "load lost")

    # shipped DBC examples: generator output against the expected files
    from fcp_dbc import Generator

    base = FCP_ROOT / "plugins" / "fcp_dbc" / "tests" / "schemas" / "generator"
    seen = 0
    for schema in sorted(base.glob("*.fcp")):
        parsed = get_fcp(schema).unwrap()
        for unroll in (True, False):
            for impl in parsed.impls:
                check_against_oracle(parsed, impl, unroll, what=f"{schema.name} {impl.name}")
        for result in Generator().generate(parsed, {"output": "output"}):
            lines = [s for s in result.get("contents").split("\r\n") if s != ""]
            lines = [s for s in lines if s.startswith(("BO_", " SG_", "SG_MUL_VAL_"))]
            expected = (base / f"{schema.stem}_{result.get('bus')}.dbc").read_text()
            check("\n".join(lines) + "\n" == expected, f"{schema.name}: DBC text differs")
            seen += 1
    check(seen >= 10, f"only {seen} DBC files compared")


def main():
    sys.setrecursionlimit(1000)
    test_enum_widths()
    test_scalar_widths()
    test_spelled_out()
    test_random_shapes()
    test_mutation_between_calls()
    test_corner_cases()
    test_from_source()
    print(f"PASS ({CHECKS} checks)")


if __name__ == "__main__":
    main()
